"""Reproducers for C11 violations that the UNCHANGED tree already shows."""
from dataclasses import dataclass
from datetime import date
from typing import Annotated, Any, NewType, Union

from mashumaro import DataClassDictMixin
from mashumaro.codecs import BasicDecoder, BasicEncoder

UserId = NewType("UserId", int)
type J1 = int | list[J1]
type MaybeDate = date | None


def show(label, f):
    try:
        print(f"{label}: {f()!r}")
    except Exception as e:
        print(f"{label}: RAISES {e!r}")


# 1. a None member swallows unmatched input
show("1 Union[int, None, date] <- 'garbage'",
     lambda: BasicDecoder(Union[int, None, date]).decode("garbage"))
# 2. scalar members reached through NewType / Annotated: NameError for ANY input
show("2a Union[UserId, str] <- 5",
     lambda: BasicDecoder(Union[UserId, str]).decode(5))
show("2b Union[Annotated[int,'m'], str] <- 5",
     lambda: BasicDecoder(Union[Annotated[int, "m"], str]).decode(5))
class MyStr(str): pass
show("2c Union[MyStr, int] <- 5",
     lambda: BasicDecoder(Union[MyStr, int]).decode(5))
# 3. recursive union not at the root expression of a field/shape
show("3 tuple[int, J1] <- [3, [1, [2]]]",
     lambda: BasicDecoder(tuple[int, J1]).decode([3, [1, [2]]]))
# 4. Any member of a union on the packing side
show("4 encode Union[int, Any, date] <- 'x'",
     lambda: BasicEncoder(Union[int, Any, date]).encode("x"))
# 5. two dataclasses with the same qualified name: second member never tried
def make(t):
    @dataclass
    class Item(DataClassDictMixin):
        v: t
    return Item
I1, I2 = make(int), make(date)
show("5 Union[Item(int), Item(date)] <- {'v': '2020-01-01'}",
     lambda: BasicDecoder(Union[I1, I2]).decode({"v": "2020-01-01"}))
# 6. nullable member at the root of a codec shape is not given the None guard
show("6 Union[MaybeDate, int] <- None",
     lambda: BasicDecoder(Union[MaybeDate, int]).decode(None))
# 7. declaration order vs containers: list member beats an earlier int member
show("7 Union[int, list[int]] <- '12'",
     lambda: BasicDecoder(Union[int, list[int]]).decode("12"))
# 8. packing: first try-block that does not raise wins
show("8 encode Union[list[int], list[date]] <- [date]",
     lambda: BasicEncoder(Union[list[int], list[date]]).encode([date(2020, 1, 1)]))
