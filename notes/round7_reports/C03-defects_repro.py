"""Reproducers for behaviour of the UNCHANGED tree that already contradicts C03.
Each block prints what happens; nothing here depends on a seeded change."""
from dataclasses import dataclass
from enum import Enum
from typing import Generic, List, NamedTuple, NewType, Tuple, TypeVar, Union

from typing_extensions import NotRequired, TypedDict

from mashumaro import DataClassDictMixin
from mashumaro.config import BaseConfig

T = TypeVar("T")
K = TypeVar("K")


def show(label, fn):
    try:
        print(f"{label}: {fn()!r}")
    except Exception as e:  # noqa
        print(f"{label}: RAISES {e!r}")


# D1 generic TypedDict: NotRequired keys are treated as required
class TD(TypedDict, Generic[T]):
    x: T
    y: NotRequired[int]


@dataclass
class D1(DataClassDictMixin):
    t: TD[int]


show("D1 generic TypedDict, optional key absent", lambda: D1.from_dict({"t": {"x": "1"}}))


# D2 str subclass annotation yields a plain str
class MyStr(str):
    pass


@dataclass
class D2(DataClassDictMixin):
    s: MyStr


show("D2 type of field annotated MyStr(str)", lambda: type(D2.from_dict({"s": "a"}).s))


# D3 two distinct local classes with one qualified name collide
def make(n):
    class E(Enum):
        A = n

    return E


E1, E2 = make(1), make(2)


@dataclass
class D3(DataClassDictMixin):
    a: E1
    b: E2


show("D3 same-named local enums", lambda: D3.from_dict({"a": 1, "b": 2}))


# D4 namedtuple_as_dict: a defaulted field missing from the dict is an error
class NTd(NamedTuple):
    a: int
    b: int = 5


@dataclass
class D4(DataClassDictMixin):
    n: NTd

    class Config(BaseConfig):
        namedtuple_as_dict = True


show("D4 as_dict, defaulted key absent", lambda: D4.from_dict({"n": {"a": "1"}}))


# D5 generic NamedTuple: type variable nested in a container is not resolved
class GNT(NamedTuple, Generic[T]):
    items: List[T]
    one: T


@dataclass
class D5(DataClassDictMixin):
    n: GNT[int]


show("D5 GNT[int] items not converted", lambda: D5.from_dict({"n": [["1", "2"], "3"]}))


# D6 base specialised with a compound argument: Base[List[K]]
@dataclass
class Base(Generic[T], DataClassDictMixin):
    x: T


@dataclass
class Child(Base[List[K]], Generic[K]):
    pass


@dataclass
class D6(DataClassDictMixin):
    c: Child[int]


show("D6 Child[int].x elements not converted", lambda: D6.from_dict({"c": {"x": ["1"]}}))


# D7 IndexError of a nested element is swallowed by the defaults machinery
class NT7(NamedTuple):
    a: int
    b: Tuple[int, int] = (0, 0)


@dataclass
class D7(DataClassDictMixin):
    n: NT7


show("D7 short inner tuple silently replaced by default", lambda: D7.from_dict({"n": [1, [5]]}))

# D8 NewType member of a Union: every input is rejected (NameError inside)
UserId = NewType("UserId", int)


@dataclass
class D8(DataClassDictMixin):
    x: Union[UserId, List[int]]


show("D8 Union[NewType(int), List[int]] with 5", lambda: D8.from_dict({"x": 5}))
show("D8 Union[NewType(int), List[int]] with [1]", lambda: D8.from_dict({"x": [1]}))


# D9 subclass of a NamedTuple: elements are passed through unconverted
class NT9(NamedTuple):
    a: int
    b: float


class Sub9(NT9):
    pass


@dataclass
class D9(DataClassDictMixin):
    n: Sub9


show("D9 NamedTuple subclass", lambda: D9.from_dict({"n": ["1", "2"]}))
