# NOTE: throw-away design probe (see notes/README.md); not part of the verification machinery.
import warnings; warnings.simplefilter("ignore")
from dataclasses import dataclass, field, InitVar
from typing import *
from typing_extensions import Annotated
import datetime, enum
from mashumaro import DataClassDictMixin, field_options, pass_through
from mashumaro.config import BaseConfig, ADD_DIALECT_SUPPORT
from mashumaro.dialect import Dialect
from mashumaro.types import Alias, Discriminator
from mashumaro.codecs.basic import BasicDecoder, BasicEncoder
from mashumaro.jsonschema import build_json_schema
def t(name, f):
    try: print(name, "=>", f())
    except BaseException as e: print(name, "EXC", type(e).__name__, str(e)[:150])
@dataclass
class X(DataClassDictMixin):
    a: int
    class Config(BaseConfig):
        forbid_extra_keys = True
t("forbid non-dict", lambda: X.from_dict([1,2]))
t("plain non-dict", lambda: type("Y",(DataClassDictMixin,),{})) 
@dataclass
class Y(DataClassDictMixin):
    a: int
t("plain non-dict", lambda: Y.from_dict([1,2]))
t("plain non-dict str", lambda: Y.from_dict("abc"))
@dataclass
class Z(DataClassDictMixin):
    pass
t("empty cls non-dict", lambda: Z.from_dict(5))
# Literal
t("Literal[1] True", lambda: repr(BasicDecoder(Literal[1]).decode(True)))
# discriminator KeyError inside variant
calls=[]
@dataclass
class B(DataClassDictMixin):
    class Config(BaseConfig):
        discriminator = Discriminator(field="t", include_subtypes=True)
@dataclass
class B1(B):
    t: str = "b1"
    x: int = 0
    @classmethod
    def __pre_deserialize__(cls, d):
        calls.append("pre")
        if d.get("boom"): raise KeyError("boom")
        return d
t("discr keyerr", lambda: (B.from_dict({"t":"b1","boom":1}), calls))
print(calls)
# defaultdict local
def f():
    class E(enum.Enum):
        A=1
    @dataclass
    class D(DataClassDictMixin):
        x: DefaultDict[str, E]
    return D.from_dict({"x":{"a":1}})
t("defaultdict local", f)
@dataclass
class D2(DataClassDictMixin):
    x: DefaultDict[str, Optional[int]]
t("defaultdict optional", lambda: D2.from_dict({"x":{"a":1}}).x["zz"])
