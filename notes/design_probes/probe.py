# NOTE: throw-away design probe (see notes/README.md); not part of the verification machinery.
import ast, sys, collections
files = ["mashumaro/core/meta/code/builder.py","mashumaro/core/meta/types/pack.py","mashumaro/core/meta/types/unpack.py","mashumaro/core/meta/types/common.py","mashumaro/codecs/_builder.py"]
EMIT_METHODS = {"add_line","append","indent"}
tot=0; holes=collections.Counter()
for f in files:
    src=open("/repo/"+f).read(); tree=ast.parse(src)
    for fn in ast.walk(tree):
        if not isinstance(fn,(ast.FunctionDef,)): continue
        for n in ast.walk(fn):
            if isinstance(n, ast.Call) and isinstance(n.func, ast.Attribute) and n.func.attr in EMIT_METHODS and n.args:
                recv = ast.unparse(n.func.value)
                if n.func.attr=="append" and not ("lines" in recv): continue
                a=n.args[0]
                tot+=1
                hs=[]
                for j in ast.walk(a):
                    if isinstance(j, ast.FormattedValue):
                        hs.append(ast.unparse(j.value)+("!r" if j.conversion==114 else ""))
                for h in hs: holes[h]+=1
                print(f"{f.split('/')[-1]}:{n.lineno} {fn.name} {n.func.attr} holes={hs}")
print(tot)
for h,c in holes.most_common(): print(c,h)
