# NOTE: throw-away design probe (see notes/README.md); not part of the verification machinery.
"""Throw-away prototype of E4 (path enumerator with predicate abstraction).
Not part of /verif. Purpose: check that FieldUnpackerCodeBlockBuilder.build can be
enumerated from its AST alone and yields a tractable number of skeletons."""
import ast, sys, itertools, copy

SRC = "/repo/mashumaro/core/meta/code/builder.py"
tree = ast.parse(open(SRC).read())
classes = {n.name: n for n in tree.body if isinstance(n, ast.ClassDef)}
def method(cls, name):
    for n in classes[cls].body:
        if isinstance(n, ast.FunctionDef) and n.name == name:
            return n
    raise KeyError(name)

class Const:
    def __init__(s, v): s.v = v
    def __repr__(s): return f"Const({s.v!r})"
    def __eq__(s, o): return isinstance(o, Const) and s.v == o.v
    def __hash__(s): return hash(("C", s.v))
class Opaque:
    def __init__(s, name): s.name = name
    def __repr__(s): return f"<{s.name}>"
    def __eq__(s, o): return isinstance(o, Opaque) and s.name == o.name
    def __hash__(s): return hash(("O", s.name))
class Tmpl:
    def __init__(s, parts): s.parts = tuple(parts)
    def __repr__(s): return "T" + repr(s.text())
    def text(s): return "".join(p if isinstance(p, str) else "{" + p.name + "}" for p in s.parts)
    def __eq__(s, o): return isinstance(o, Tmpl) and s.parts == o.parts
    def __hash__(s): return hash(("T", s.parts))
class Formula:  # boolean formula over atoms, kept as python ast-ish tuple
    def __init__(s, f): s.f = f
    def __repr__(s): return f"F{ s.f }"

class Path:
    def __init__(s):
        s.env = {}; s.atoms = {}; s.ident = {}  # ident: var-text -> chosen constant text or '#other'
        s.out = []; s.depth = 0; s.returned = None
    def clone(s):
        p = Path(); p.env = dict(s.env); p.atoms = dict(s.atoms); p.ident = dict(s.ident)
        p.out = list(s.out); p.depth = s.depth; p.returned = s.returned
        return p

def to_text(v):
    if isinstance(v, Const): return v.v if isinstance(v.v, str) else repr(v.v)
    if isinstance(v, Tmpl): return v.text()
    if isinstance(v, Opaque): return "{" + v.name + "}"
    return "{?}"

class Enum:
    def __init__(s, cls, inline):
        s.cls = cls; s.inline = inline; s.paths_done = []
    # ---- expressions
    def ev(s, e, p):
        if isinstance(e, ast.Constant): return Const(e.value)
        if isinstance(e, ast.Name):
            if e.id in p.env: return p.env[e.id]
            return Opaque(e.id)
        if isinstance(e, ast.JoinedStr):
            parts = []
            for v in e.values:
                if isinstance(v, ast.Constant): parts.append(v.value)
                else:
                    x = s.ev(v.value, p)
                    if isinstance(x, Const) and isinstance(x.v, str) and v.conversion == -1: parts.append(x.v)
                    elif isinstance(x, Tmpl) and v.conversion == -1: parts.extend(x.parts)
                    else:
                        nm = x.name if isinstance(x, Opaque) else repr(x)
                        parts.append(Opaque(nm + ("!r" if v.conversion == 114 else "")))
            # merge adjacent strings
            m = []
            for q in parts:
                if m and isinstance(q, str) and isinstance(m[-1], str): m[-1] += q
                else: m.append(q)
            return Tmpl(m)
        if isinstance(e, ast.BoolOp) or isinstance(e, ast.Compare) or (isinstance(e, ast.UnaryOp) and isinstance(e.op, ast.Not)):
            return Formula(e)  # evaluated lazily at branch time, with env snapshot
        if isinstance(e, ast.IfExp):
            return Opaque(ast.unparse(e))
        return Opaque(ast.unparse(e))
    # ---- conditions: returns list of (bool, path)
    def cond(s, e, p):
        if isinstance(e, ast.BoolOp):
            res = [(None, p)]
            isand = isinstance(e.op, ast.And)
            out = []
            def rec(i, p):
                if i == len(e.values):
                    out.append((isand, p)); return
                for b, q in s.cond(e.values[i], p):
                    if b != isand: out.append((b, q))
                    else: rec(i + 1, q)
            rec(0, p)
            return out
        if isinstance(e, ast.UnaryOp) and isinstance(e.op, ast.Not):
            return [(not b, q) for b, q in s.cond(e.operand, p)]
        if isinstance(e, ast.Name) and e.id in p.env and isinstance(p.env[e.id], Formula):
            return s.cond(p.env[e.id].f, p)
        if isinstance(e, ast.Name) and e.id in p.env and isinstance(p.env[e.id], Const):
            return [(bool(p.env[e.id].v), p)]
        if isinstance(e, ast.Compare) and len(e.ops) == 1:
            l = s.ev(e.left, p); r = s.ev(e.comparators[0], p); op = e.ops[0]
            if isinstance(op, (ast.Eq, ast.NotEq)):
                neg = isinstance(op, ast.NotEq)
                if isinstance(l, (Const, Tmpl)) and isinstance(r, (Const, Tmpl)):
                    return [((to_text(l) == to_text(r)) != neg, p)]
                key = " == ".join(sorted([to_text(l), to_text(r)]))
                return [(b != neg, q) for b, q in s.atom(key, p)]
            if isinstance(op, (ast.Is, ast.IsNot)):
                neg = isinstance(op, ast.IsNot)
                var = to_text(l); c = to_text(r)
                if isinstance(l, Const) and isinstance(r, Const):
                    return [((l.v is r.v) != neg, p)]
                # identity domain
                if var in p.ident:
                    return [((p.ident[var] == c) != neg, p)]
                if c in p.atoms.get(("excl", var), ()):
                    return [(False != neg, p)]
                res = []
                q = p.clone(); q.ident[var] = c; res.append((True != neg, q))
                res2 = s._ident_false(var, c, p)
                return res + [(False != neg, x) for x in res2]
            if isinstance(op, ast.In):
                key = f"{to_text(l)} in {ast.unparse(e.comparators[0])}"
                return s.atom(key, p)
        key = ast.unparse(e)
        return s.atom(key, p)
    def _ident_false(s, var, c, p):
        # var is not c: remember exclusion
        q = p.clone(); ex = set(q.atoms.get(("excl", var), ())); ex.add(c); q.atoms[("excl", var)] = frozenset(ex)
        return [q]
    def atom(s, key, p):
        if key in p.atoms: return [(p.atoms[key], p)]
        a = p.clone(); a.atoms[key] = True
        b = p.clone(); b.atoms[key] = False
        return [(True, a), (False, b)]
    # ---- statements
    def run_block(s, stmts, paths):
        for st in stmts:
            nxt = []
            for p in paths:
                if p.returned is not None: nxt.append(p); continue
                nxt.extend(s.run_stmt(st, p))
            paths = nxt
        return paths
    def run_stmt(s, st, p):
        if isinstance(st, ast.Assign) and len(st.targets) == 1 and isinstance(st.targets[0], ast.Name):
            v = s.ev(st.value, p)
            if isinstance(v, Formula):
                res = []
                for b, q in s.cond(v.f, p):
                    q = q.clone(); q.env[st.targets[0].id] = Const(b); res.append(q)
                return res
            q = p.clone(); q.env[st.targets[0].id] = v
            # invalidate ident knowledge about reassigned var
            q.ident.pop(st.targets[0].id, None)
            return [q]
        if isinstance(st, ast.If):
            out = []
            for b, q in s.cond(st.test, p):
                out.extend(s.run_block(st.body if b else st.orelse, [q]))
            return out
        if isinstance(st, ast.With):
            ce = st.items[0].context_expr
            assert isinstance(ce, ast.Call) and isinstance(ce.func, ast.Attribute) and ce.func.attr == "indent", ast.unparse(ce)
            q = p.clone()
            if ce.args:
                q.out.append((q.depth, to_text(s.ev(ce.args[0], q))))
            q.depth += 1
            res = s.run_block(st.body, [q])
            for r in res: r.depth -= 1
            return res
        if isinstance(st, ast.Expr) and isinstance(st.value, ast.Call):
            c = st.value
            if isinstance(c.func, ast.Attribute) and c.func.attr in ("add_line", "append"):
                q = p.clone(); q.out.append((q.depth, to_text(s.ev(c.args[0], q)))); return [q]
            if isinstance(c.func, ast.Attribute) and isinstance(c.func.value, ast.Name) and c.func.value.id == "self" and c.func.attr in s.inline:
                return s.call(c.func.attr, c, p)
            return [p]
        if isinstance(st, ast.Return):
            q = p.clone(); q.returned = ast.unparse(st.value) if st.value else "None"; return [q]
        if isinstance(st, ast.Expr): return [p]
        raise NotImplementedError(ast.dump(st)[:80])
    def call(s, name, c, p):
        fn = method(s.cls, name)
        params = [a.arg for a in fn.args.args][1:]
        q = p.clone(); saved = q.env; q.env = {}
        for prm, a in zip(params, c.args): q.env[prm] = s.ev(a, p)
        for kw in c.keywords: q.env[kw.arg] = s.ev(kw.value, p)
        defaults = fn.args.defaults
        for prm, d in zip(params[len(params) - len(defaults):], defaults):
            q.env.setdefault(prm, s.ev(d, p))
        res = s.run_block(fn.body, [q])
        for r in res: r.env = saved; r.returned = None
        return res

if __name__ == "__main__":
    en = Enum("FieldUnpackerCodeBlockBuilder", {"_try_set_value", "_set_value", "add_line"})
    fn = method("FieldUnpackerCodeBlockBuilder", "build")
    p0 = Path()
    paths = en.run_block(fn.body, [p0])
    print("paths", len(paths))
    seen = {}
    for p in paths:
        sk = "\n".join("    " * d + t for d, t in p.out)
        key = (sk,)
        seen.setdefault(key, []).append(p)
    print("distinct skeletons", len(seen))
    for i, (k, ps) in enumerate(seen.items()):
        if i < 6:
            print("-" * 60)
            print({a: v for a, v in ps[0].atoms.items()}, ps[0].ident)
            print(k[0])
