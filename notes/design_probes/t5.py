# NOTE: throw-away design probe (see notes/README.md); not part of the verification machinery.
import warnings; warnings.simplefilter("ignore")
from dataclasses import dataclass
import orjson
from mashumaro.mixins.orjson import DataClassORJSONMixin
from mashumaro.config import BaseConfig, ADD_DIALECT_SUPPORT
from mashumaro.dialect import Dialect
class D(Dialect): pass
@dataclass
class A(DataClassORJSONMixin):
    x: int
    y: int
    class Config(BaseConfig):
        code_generation_options=[ADD_DIALECT_SUPPORT]
        orjson_options = orjson.OPT_INDENT_2
print(A(1,2).to_jsonb())
print(A(1,2).to_jsonb(dialect=D))
print(A(1,2).to_jsonb(dialect=D, orjson_options=orjson.OPT_INDENT_2))
