# NOTE: throw-away design probe (see notes/README.md); not part of the verification machinery.
import warnings; warnings.simplefilter("ignore")
import itertools
from dataclasses import dataclass, field
from typing import *
import datetime
from mashumaro import DataClassDictMixin, field_options
from mashumaro.config import BaseConfig, ADD_DIALECT_SUPPORT, TO_DICT_ADD_OMIT_NONE_FLAG, TO_DICT_ADD_BY_ALIAS_FLAG
from mashumaro.core.const import Sentinel
M = Sentinel.MISSING
bad=0; n=0
for on, od, sba, onf, baf, sk in itertools.product([M,False,True],[M,False,True],[M,False,True],[0,1],[0,1],[0,1]):
    opts=[]
    if onf: opts.append(TO_DICT_ADD_OMIT_NONE_FLAG)
    if baf: opts.append(TO_DICT_ADD_BY_ALIAS_FLAG)
    ns = dict(code_generation_options=opts, sort_keys=bool(sk))
    if on is not M: ns["omit_none"]=on
    if od is not M: ns["omit_default"]=od
    if sba is not M: ns["serialize_by_alias"]=sba
    Cfg = type("Config",(BaseConfig,),ns)
    @dataclass
    class P(DataClassDictMixin):
        z: int
        a: Optional[int] = field(default=None, metadata=field_options(alias="A"))
        d: Optional[datetime.date] = None
        e: Optional[datetime.date] = datetime.date(2020,1,1)
        i: int = field(default=5, metadata=field_options(alias="I"))
        l: List[int] = field(default_factory=list)
        Config = Cfg
    plainCfg = type("Config",(BaseConfig,),{})
    @dataclass
    class Q(DataClassDictMixin):
        z: int
        a: Optional[int] = None
        d: Optional[datetime.date] = None
        e: Optional[datetime.date] = datetime.date(2020,1,1)
        i: int = 5
        l: List[int] = field(default_factory=list)
    aliases={"a":"A","i":"I"}
    defaults={"a":None,"d":None,"e":"2020-01-01","i":5,"l":[]}
    for vals in itertools.product([None,3],[None,datetime.date(2021,1,1)],[None,datetime.date(2020,1,1),datetime.date(2022,2,2)],[5,6],[[],[1]]):
        kw=dict(zip("adeil",vals))
        for kon, kba in itertools.product(([None,False,True] if onf else [None]),([None,False,True] if baf else [None])):
            kwargs={}
            if kon is not None: kwargs["omit_none"]=kon
            if kba is not None: kwargs["by_alias"]=kba
            plain = Q(z=1,**kw).to_dict()
            got = P(z=1,**kw).to_dict(**kwargs)
            eff_on = kon if kon is not None else (on is True)
            eff_ba = kba if kba is not None else (sba is True)
            exp = {}
            keys = list(plain)
            if sk: keys=sorted(keys)
            for k in keys:
                v=plain[k]
                if eff_on and v is None: continue
                if od is True and k in defaults and v==defaults[k]: continue
                exp[aliases.get(k,k) if eff_ba else k]=v
            n+=1
            if list(got.items())!=list(exp.items()):
                bad+=1
                if bad<15: print("MISMATCH", dict(on=on,od=od,sba=sba,onf=onf,baf=baf,sk=sk), kw, kwargs, got, exp)
print(n,bad)
