# NOTE: throw-away design probe (see notes/README.md); not part of the verification machinery.
import pe2, collections, re, pickle, sys
pe=pe2.PE('CodeBuilder', {'_pack_method_set_value','__pack_method_set_value','_add_pack_method_lines_lazy','add_line'})
fn=pe2.method('CodeBuilder','_add_pack_method_lines')
p0=pe2.Path(); p0.env['method_name']=pe2.Opaque('method_name')
# restrict: pretend hooks absent / encoder absent / not lazy by pre-seeding atoms
for k,v in {"bool(config.lazy_compilation)":False,"raises@833":False,"bool(self.get_declared_hook(__PRE_SERIALIZE__))":False,
            "bool(self.get_declared_hook(__POST_SERIALIZE__))":False,"bool(self.get_config().sort_keys)":False}.items(): p0.atoms[k]=v
p0.ident["{self.encoder}"]="None"
import time; t=time.time()
paths=pe.block(fn.body,[p0])
print("time %.1f paths %d"%(time.time()-t,len(paths)))
groups=collections.OrderedDict()
for p in paths:
    sk="\n".join("    "*d+t for d,t in p.out)
    groups.setdefault(sk,[]).append(p)
print("distinct", len(groups))
import random; random.seed(1)
ks=list(groups)
for sk in [ks[0]]+random.sample(ks,5):
    ps=groups[sk]
    print("-"*70, len(ps))
    print({k:v for k,v in ps[0].atoms.items() if not k.startswith(("bool(config.lazy","raises","bool(self.get_declared","bool(self.get_config().sort"))}, ps[0].ident, dict(ps[0].excl))
    print(sk)
