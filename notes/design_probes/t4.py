# NOTE: throw-away design probe (see notes/README.md); not part of the verification machinery.
import warnings; warnings.simplefilter("ignore")
import sys
from dataclasses import dataclass, field
from typing import *
import datetime
from mashumaro import DataClassDictMixin
from mashumaro.config import BaseConfig
T = TypeVar("T")
def t(name, f):
    try: print(name, "=>", f())
    except BaseException as e: print(name, "EXC", type(e).__name__, str(e)[:150])
@dataclass
class G(Generic[T], DataClassDictMixin):
    v: T
    class Config(BaseConfig):
        lazy_compilation = True
@dataclass
class O(DataClassDictMixin):
    x: G[datetime.date]
sys.setrecursionlimit(400)
t("lazy generic nested pack", lambda: O(G(datetime.date(2020,1,1))).to_dict())
t("lazy generic nested unpack", lambda: O.from_dict({"x":{"v":"2020-01-01"}}))
