# NOTE: throw-away design probe (see notes/README.md); not part of the verification machinery.
"""Throw-away prototype of E6: dispatch simulation of (un)pack_collection over a catalogue."""
import ast, collections, collections.abc as abc, typing, types, enum, os, pathlib
def load(path, fname):
    t = ast.parse(open(path).read())
    for n in t.body:
        if isinstance(n, ast.FunctionDef) and n.name == fname: return n
NS = {"Collection": abc.Collection, "Set": abc.Set, "Mapping": abc.Mapping, "Sequence": abc.Sequence,
      "list": list, "deque": collections.deque, "tuple": tuple, "frozenset": frozenset, "str": str,
      "ChainMap": collections.ChainMap, "OrderedDict": collections.OrderedDict, "Counter": collections.Counter,
      "collections.deque": collections.deque, "collections.ChainMap": collections.ChainMap,
      "collections.OrderedDict": collections.OrderedDict, "collections.defaultdict": collections.defaultdict,
      "collections.Counter": collections.Counter, "types.MappingProxyType": types.MappingProxyType,
      "typing.ByteString": typing.ByteString, "enum.Enum": enum.Enum, "bytes": bytes, "bytearray": bytearray}
NT = collections.namedtuple("NT", "a b")
TD = typing.TypedDict("TD", {"a": int})
class SE(str, enum.Enum): A = "a"
CAT = {"list": list, "tuple": tuple, "NamedTuple": NT, "set": set, "frozenset": frozenset, "abc.Set": abc.Set,
       "abc.MutableSet": abc.MutableSet, "deque": collections.deque, "dict": dict, "OrderedDict": collections.OrderedDict,
       "defaultdict": collections.defaultdict, "TypedDict": TD, "abc.Mapping": abc.Mapping, "abc.MutableMapping": abc.MutableMapping,
       "Counter": collections.Counter, "ChainMap": collections.ChainMap, "abc.Sequence": abc.Sequence,
       "abc.MutableSequence": abc.MutableSequence, "MappingProxyType": types.MappingProxyType, "bytes": bytes,
       "bytearray": bytearray, "str": str, "str-Enum": SE}
def ev(test, C):
    """three-valued evaluation of a guard for catalogue class C"""
    if isinstance(test, ast.UnaryOp) and isinstance(test.op, ast.Not):
        v = ev(test.operand, C); return None if v is None else (not v)
    if isinstance(test, ast.Compare) and isinstance(test.ops[0], ast.Is) and ast.unparse(test.left) == "spec.origin_type":
        return C is NS[ast.unparse(test.comparators[0])]
    if isinstance(test, ast.Call):
        f = ast.unparse(test.func); a = [ast.unparse(x) for x in test.args]
        if f == "issubclass" and a[0] == "spec.origin_type":
            tgt = test.args[1]
            cls = tuple(NS[ast.unparse(e)] for e in tgt.elts) if isinstance(tgt, ast.Tuple) else NS[a[1]]
            try: return issubclass(C, cls)
            except TypeError: return None
        if f == "ensure_generic_collection_subclass": return issubclass(C, tuple(NS[x] for x in a[1:]))
        if f == "ensure_generic_mapping": return issubclass(C, NS[a[2]])
        if f == "ensure_generic_collection": return True
        if f == "is_named_tuple": return issubclass(C, tuple) and hasattr(C, "_fields")
        if f == "is_typed_dict": return C is TD
    return None
def chain(fn):
    # top-level statements: find the if/elif chains
    out = []
    def walk_if(node, acc):
        acc.append((node.test, node.body))
        if len(node.orelse) == 1 and isinstance(node.orelse[0], ast.If): walk_if(node.orelse[0], acc)
        elif node.orelse: acc.append((None, node.orelse))
    for st in fn.body:
        if isinstance(st, ast.If):
            acc = []; walk_if(st, acc); out.append(acc)
    return out
def head(body):
    for st in body:
        if isinstance(st, ast.Return):
            return ast.unparse(st.value)[:70]
        if isinstance(st, ast.If):
            return "NESTED: " + " | ".join(f"[{ast.unparse(t)[:30] if t else 'else'}] {head(b)}" for t, b in chain_of(st))
    return "(no return)"
def chain_of(node):
    acc = []
    def w(n):
        acc.append((n.test, n.body))
        if len(n.orelse) == 1 and isinstance(n.orelse[0], ast.If): w(n.orelse[0])
        elif n.orelse: acc.append((None, n.orelse))
    w(node); return acc
for path, fname in [("/repo/mashumaro/core/meta/types/pack.py", "pack_collection"), ("/repo/mashumaro/core/meta/types/unpack.py", "unpack_collection")]:
    fn = load(path, fname); chains = chain(fn)
    print("=" * 30, fname, [len(c) for c in chains])
    reached = collections.Counter()
    for name, C in CAT.items():
        res = None
        for ci, ch in enumerate(chains):
            for bi, (t, body) in enumerate(ch):
                v = True if t is None else ev(t, C)
                if v is None: res = f"UNDECIDED at chain{ci}.{bi}: {ast.unparse(t)}"; break
                if v:
                    h = head(body)
                    if h.startswith("None"): res = ("falls-through(None)", ci, bi); 
                    else: res = (ci, bi, h); reached[(ci, bi)] += 1
                    break
            if res is not None: break
        print(f"  {name:20s} -> {res}")
    for ci, ch in enumerate(chains):
        for bi, (t, b) in enumerate(ch):
            if reached[(ci, bi)] == 0: print("  UNREACHED branch", ci, bi, ast.unparse(t)[:60] if t else "else")
