# NOTE: throw-away design probe (see notes/README.md); not part of the verification machinery.
"""Throw-away prototype #2 of E4: path enumeration over CodeBuilder._add_pack_method_lines
(with loops, abstract containers, continue, return-in-with, private helpers).
NOT part of /verif. Purpose: measure path counts and see the skeletons."""
import ast, sys, re, collections

SRC = "/repo/mashumaro/core/meta/code/builder.py"
tree = ast.parse(open(SRC).read())
classes = {n.name: n for n in tree.body if isinstance(n, ast.ClassDef)}
MODCONST = {}
for n in tree.body:
    if isinstance(n, ast.Assign) and isinstance(n.value, ast.Constant) and isinstance(n.targets[0], ast.Name):
        MODCONST[n.targets[0].id] = n.value.value

def method(cls, name):
    for n in classes[cls].body:
        if isinstance(n, ast.FunctionDef) and n.name == name:
            return n
    raise KeyError(name)

class V: pass
class Const(V):
    def __init__(s, v): s.v = v
    def key(s): return ("C", repr(s.v))
class Opaque(V):
    def __init__(s, name): s.name = name
    def key(s): return ("O", s.name)
class Tmpl(V):
    def __init__(s, parts):
        m = []
        for q in parts:
            if m and isinstance(q, str) and isinstance(m[-1], str): m[-1] += q
            else: m.append(q)
        s.parts = tuple(m)
    def text(s): return "".join(p if isinstance(p, str) else "{" + p.name + "}" for p in s.parts)
    def key(s): return ("T", s.text())
class AC(V):  # abstract container: entries for generic elements + unknown others
    def __init__(s, kind, name, entries=None): s.kind = kind; s.name = name; s.entries = dict(entries or {})
    def key(s): return ("AC", s.kind, s.name, tuple((k, v.key()) for k, v in s.entries.items()))
class Tup(V):
    def __init__(s, items): s.items = tuple(items)
    def key(s): return ("Tup", tuple(i.key() for i in s.items))

def txt(v):
    if isinstance(v, Const): return v.v if isinstance(v.v, str) else repr(v.v)
    if isinstance(v, Tmpl): return v.text()
    if isinstance(v, Opaque): return "{" + v.name + "}"
    if isinstance(v, AC): return "{" + v.name + "}"
    return "{?}"

class Path:
    __slots__ = ("env", "atoms", "ident", "excl", "out", "depth", "ret", "cont", "events")
    def __init__(s):
        s.env = {}; s.atoms = {}; s.ident = {}; s.excl = {}; s.out = []; s.depth = 0; s.ret = None; s.cont = False; s.events = []
    def clone(s):
        p = Path(); p.env = dict(s.env); p.atoms = dict(s.atoms); p.ident = dict(s.ident); p.excl = dict(s.excl)
        p.out = list(s.out); p.depth = s.depth; p.ret = s.ret; p.cont = s.cont; p.events = list(s.events)
        return p

class RET:  # marker for returned value
    def __init__(s, v): s.v = v

class PE:
    def __init__(s, cls, inline, observed=None):
        s.cls = cls; s.inline = set(inline); s.observed = observed; s.nsplit = 0; s._cn_stack = []; s.live = frozenset(); s._cn_cache = {}
    # ------------------------------------------------------------ expressions
    def ev(s, e, p):
        if isinstance(e, ast.Constant): return Const(e.value)
        if isinstance(e, ast.Name):
            if e.id in p.env: return p.env[e.id]
            if e.id in MODCONST: return Const(MODCONST[e.id])
            return Opaque(e.id)
        if isinstance(e, ast.JoinedStr):
            parts = []
            for v in e.values:
                if isinstance(v, ast.Constant): parts.append(v.value); continue
                x = s.ev(v.value, p)
                if v.conversion == -1 and isinstance(x, Const) and isinstance(x.v, str): parts.append(x.v)
                elif v.conversion == -1 and isinstance(x, Tmpl): parts.extend(x.parts)
                else: parts.append(Opaque(txt(x).strip("{}") + ("!r" if v.conversion == 114 else "")))
            return Tmpl(parts)
        if isinstance(e, ast.Dict) and not e.keys: return AC("dict", "dict@%d" % e.lineno)
        if isinstance(e, ast.List) and not e.elts: return AC("list", "list@%d" % e.lineno)
        if isinstance(e, ast.Call):
            f = e.func
            if isinstance(f, ast.Name) and f.id == "set" and not e.args: return AC("set", "set@%d" % e.lineno)
            if isinstance(f, ast.Attribute):
                recv = s.ev(f.value, p) if not (isinstance(f.value, ast.Name) and f.value.id == "self") else None
                if isinstance(recv, AC) and f.attr == "get":
                    k = txt(s.ev(e.args[0], p)); return recv.entries.get(k, Const(None))
                if isinstance(recv, AC) and f.attr == "items": return recv
                if isinstance(recv, (Const, Tmpl)) and f.attr == "format" and len(e.args) == 1:
                    a = s.ev(e.args[0], p); t = txt(recv)
                    i = t.index("{}")
                    return Tmpl([t[:i]] + (list(a.parts) if isinstance(a, Tmpl) else [txt(a)]) + [t[i + 2:]]) if isinstance(a, Tmpl) else Tmpl([t[:i] + txt(a) + t[i + 2:]])
                if f.attr == "join" and isinstance(f.value, ast.Constant) and isinstance(e.args[0], ast.GeneratorExp):
                    g = e.args[0]; it = s.ev(g.generators[0].iter, p)
                    if isinstance(it, AC):
                        parts = []
                        for k, v in it.entries.items():
                            q = p.clone(); s.bind(g.generators[0].target, v, q)
                            x = s.ev(g.elt, q)
                            if parts: parts.append(f.value.value)
                            parts.extend(x.parts if isinstance(x, Tmpl) else [txt(x)])
                        parts.append("<…others>")
                        return Tmpl(parts)
            return Opaque(ast.unparse(e))
        if isinstance(e, ast.Tuple): return Tup([s.ev(x, p) for x in e.elts])
        if isinstance(e, ast.IfExp):
            outs = s.cond(e.test, p.clone())
            if len(outs) == 1: return s.ev(e.body if outs[0][0] else e.orelse, p)
            return Opaque(ast.unparse(e))
        return Opaque(ast.unparse(e))
    def bind(s, target, v, p):
        if isinstance(target, ast.Name): p.env[target.id] = v; p.ident.pop(target.id, None)
        elif isinstance(target, ast.Tuple):
            if isinstance(v, Tup) and len(v.items) == len(target.elts):
                for t, x in zip(target.elts, v.items): s.bind(t, x, p)
            else:
                for t in target.elts: s.bind(t, Opaque(t.id if isinstance(t, ast.Name) else ast.unparse(t)), p)
    # ------------------------------------------------------------ conditions
    def atom(s, key, p):
        if key in p.atoms: return [(p.atoms[key], p)]
        s.nsplit += 1
        a = p.clone(); a.atoms[key] = True; b = p.clone(); b.atoms[key] = False
        return [(True, a), (False, b)]
    def truth(s, v, p, src=""):
        if isinstance(v, Const): return [(bool(v.v), p)]
        if isinstance(v, Tmpl): return [(bool(v.text()), p)]
        if isinstance(v, AC):
            if v.entries: return [(True, p)]
            return s.atom("others(%s)" % v.name, p)
        if isinstance(v, Opaque): return s.atom("bool(%s)" % v.name, p)
        return s.atom("bool(%s)" % src, p)
    def cond(s, e, p):
        if isinstance(e, ast.BoolOp):
            isand = isinstance(e.op, ast.And); out = []
            def rec(i, p):
                if i == len(e.values): out.append((isand, p)); return
                for b, q in s.cond(e.values[i], p):
                    if b != isand: out.append((b, q))
                    else: rec(i + 1, q)
            rec(0, p); return out
        if isinstance(e, ast.UnaryOp) and isinstance(e.op, ast.Not):
            return [(not b, q) for b, q in s.cond(e.operand, p)]
        if isinstance(e, ast.IfExp):
            out = []
            for b, q in s.cond(e.test, p): out.extend(s.cond(e.body if b else e.orelse, q))
            return out
        if isinstance(e, ast.Compare) and len(e.ops) == 1:
            op = e.ops[0]; l = s.ev(e.left, p); r = s.ev(e.comparators[0], p)
            if isinstance(op, (ast.Eq, ast.NotEq)):
                neg = isinstance(op, ast.NotEq)
                if isinstance(l, (Const, Tmpl)) and isinstance(r, (Const, Tmpl)): return [((txt(l) == txt(r)) != neg, p)]
                key = " == ".join(sorted([txt(l), txt(r)]))
                return [(b != neg, q) for b, q in s.atom(key, p)]
            if isinstance(op, (ast.Is, ast.IsNot)):
                neg = isinstance(op, ast.IsNot)
                if isinstance(l, Const) and isinstance(r, Const): return [((l.v is r.v) != neg, p)]
                if isinstance(l, (Tmpl,)) or (isinstance(l, Const) and isinstance(l.v, str)): return [(False != neg, p)]
                var, c = txt(l), txt(r)
                if var in p.ident: return [((p.ident[var] == c) != neg, p)]
                if c in p.excl.get(var, ()): return [(False != neg, p)]
                s.nsplit += 1
                a = p.clone(); a.ident[var] = c
                b = p.clone(); b.excl[var] = frozenset(set(b.excl.get(var, ())) | {c})
                return [(True != neg, a), (False != neg, b)]
            if isinstance(op, (ast.In, ast.NotIn)):
                neg = isinstance(op, ast.NotIn)
                if isinstance(r, AC): return [((txt(l) in r.entries) != neg, p)]
                return [(b != neg, q) for b, q in s.atom("%s in %s" % (txt(l), ast.unparse(e.comparators[0])), p)]
        return s.truth(s.ev(e, p), p, ast.unparse(e))
    # ------------------------------------------------------------ statements
    def cond_names(s, stmts):
        names = set()
        for st in stmts:
            for n in ast.walk(st):
                tests = []
                if isinstance(n, (ast.If, ast.IfExp, ast.While)): tests.append(n.test)
                elif isinstance(n, (ast.BoolOp, ast.Compare)): tests.append(n)
                elif isinstance(n, ast.Call) and s.is_inline(n):
                    try: fn = s.resolve(n.func.attr)
                    except KeyError: fn = None
                    if fn is not None and fn.name not in s._cn_stack:
                        s._cn_stack.append(fn.name)
                        names |= s.cond_names(fn.body)
                        s._cn_stack.pop()
                        # arguments feed callee conditions
                        for a in list(n.args) + [k.value for k in n.keywords]: tests.append(a)
                for t in tests:
                    for m in ast.walk(t):
                        if isinstance(m, ast.Name): names.add(m.id)
                        elif isinstance(m, ast.Attribute): names.add(ast.unparse(m))
                        elif isinstance(m, ast.Call): names.add(ast.unparse(m))
        return names
    def resolve(s, name):
        try: return method(s.cls, name)
        except KeyError: return method(s.cls, name[len("_" + s.cls):] if name.startswith("_" + s.cls) else name)
    def block(s, stmts, paths, live=frozenset()):
        for i, st in enumerate(stmts):
            ck = (id(stmts), i)
            if ck not in s._cn_cache: s._cn_cache[ck] = frozenset(s.cond_names(stmts[i + 1:]))
            live_after = s._cn_cache[ck] | live
            s.live = live_after
            nxt = []
            for p in paths:
                if p.ret is not None or p.cont: nxt.append(p)
                else: nxt.extend(s.stmt(st, p, live_after))
            paths = s.merge(nxt, live_after)
        return paths
    def merge(s, paths, live):
        seen = {}; out = []
        for p in paths:
            texts = set(live)
            for n in live:
                if n in p.env and isinstance(p.env[n], V) and not isinstance(p.env[n], (AC, Tup)): texts.add(txt(p.env[n]).strip("{}"))
            def is_live(a):
                a = str(a)
                return any(t and t in a for t in texts)
            facts = (tuple(sorted((a, v) for a, v in p.atoms.items() if is_live(a))),
                     tuple(sorted((a, v) for a, v in p.ident.items() if is_live(a))),
                     tuple(sorted((a, tuple(sorted(v))) for a, v in p.excl.items() if is_live(a))))
            k = (tuple(sorted((k, v.key() if isinstance(v, V) else repr(v)) for k, v in p.env.items())), tuple(p.out), p.depth,
                 p.cont, None if p.ret is None else True, facts)
            if k not in seen: seen[k] = p; out.append(p)
        return out
    def emit(s, p, v):
        p.out.append((p.depth, txt(v)))
    def stmt(s, st, p, live=frozenset()):
        if isinstance(st, ast.Assign) and len(st.targets) == 1:
            t = st.targets[0]
            if isinstance(t, ast.Subscript):
                c = s.ev(t.value, p)
                if isinstance(c, AC):
                    q = p.clone(); c2 = AC(c.kind, c.name, c.entries); c2.entries[txt(s.ev(t.slice, q))] = s.ev(st.value, q)
                    q.env[t.value.id] = c2; return [q]
                return [p]
            if isinstance(st.value, (ast.BoolOp, ast.Compare)) or (isinstance(st.value, ast.UnaryOp) and isinstance(st.value.op, ast.Not)):
                out = []
                for b, q in s.cond(st.value, p):
                    q = q.clone(); s.bind(t, Const(b), q); out.append(q)
                return out
            if isinstance(st.value, ast.Call) and s.is_inline(st.value):
                out = []
                for q in s.call(st.value, p):
                    v = q.ret.v if isinstance(q.ret, RET) else Const(None); q.ret = None; s.bind(t, v, q); out.append(q)
                return out
            q = p.clone(); s.bind(t, s.ev(st.value, q), q); return [q]
        if isinstance(st, ast.AnnAssign):
            q = p.clone(); s.bind(st.target, s.ev(st.value, q), q); return [q]
        if isinstance(st, ast.If):
            out = []
            for b, q in s.cond(st.test, p): out.extend(s.block(st.body if b else st.orelse, [q], live))
            return out
        if isinstance(st, ast.With):
            ce = st.items[0].context_expr
            q = p.clone()
            if ce.args: s.emit(q, s.ev(ce.args[0], q))
            q.depth += 1; d0 = q.depth
            res = s.block(st.body, [q], live)
            for r in res: r.depth -= 1
            return res
        if isinstance(st, ast.For):
            it = s.ev(st.iter, p)
            q = p.clone()
            if isinstance(it, AC) and it.entries:
                k, v = next(iter(it.entries.items()))
                s.bind(st.target, Tup([Opaque(k.strip("{}")), v]) if isinstance(st.target, ast.Tuple) else Opaque(k.strip("{}")), q)
            elif isinstance(it, AC):
                return [p]  # generic element was skipped: nothing (known) to iterate
            else:
                s.bind(st.target, Opaque("elem"), q)
            res = s.block(st.body, [q], live)
            for r in res: r.cont = False
            return res
        if isinstance(st, ast.Continue):
            q = p.clone(); q.cont = True; return [q]
        if isinstance(st, ast.Return):
            if st.value is not None and isinstance(st.value, ast.Call) and s.is_inline(st.value):
                return s.call(st.value, p, keep_ret=True)
            q = p.clone(); q.ret = RET(s.ev(st.value, q) if st.value else Const(None)); return [q]
        if isinstance(st, ast.Try):
            exc = p.clone(); exc.atoms["raises@%d" % st.lineno] = True
            ok = p.clone(); ok.atoms["raises@%d" % st.lineno] = False
            out = s.block(st.handlers[0].body, [exc], live)
            out += s.block(st.body + st.orelse, [ok], live)
            return out
        if isinstance(st, ast.Raise):
            q = p.clone(); q.ret = RET(Opaque("RAISE " + (ast.unparse(st.exc)[:40] if st.exc else ""))); return [q]
        if isinstance(st, ast.Expr) and isinstance(st.value, ast.Call):
            c = st.value; f = c.func
            if isinstance(f, ast.Attribute) and f.attr in ("add_line", "append") and ast.unparse(f.value) in ("self", "lines", "self.lines"):
                q = p.clone(); s.emit(q, s.ev(c.args[0], q)); return [q]
            if isinstance(f, ast.Attribute) and f.attr in ("add", "append"):
                cv = s.ev(f.value, p)
                if isinstance(cv, AC):
                    q = p.clone(); c2 = AC(cv.kind, cv.name, cv.entries); a = s.ev(c.args[0], q)
                    c2.entries[txt(a) if not isinstance(a, Tup) else "e%d" % len(c2.entries)] = a; q.env[f.value.id] = c2; return [q]
            if s.is_inline(c):
                res = s.call(c, p)
                for r in res: r.ret = None
                return res
            if isinstance(f, ast.Attribute) and f.attr.startswith("ensure_"):
                q = p.clone(); q.events.append(ast.unparse(c)[:60]); return [q]
            return [p]
        if isinstance(st, ast.Expr): return [p]
        raise NotImplementedError(ast.dump(st)[:100])
    def is_inline(s, c):
        f = c.func
        return isinstance(f, ast.Attribute) and isinstance(f.value, ast.Name) and f.value.id == "self" and f.attr.lstrip("_") in {x.lstrip("_") for x in s.inline}
    def call(s, c, p, keep_ret=False):
        name = c.func.attr
        try: fn = method(s.cls, name)
        except KeyError: fn = method(s.cls, name[len("_" + s.cls):] if name.startswith("_" + s.cls) else name)
        params = [a.arg for a in fn.args.args][1:]
        q = p.clone(); saved = q.env; env = {}
        for prm, a in zip(params, c.args): env[prm] = s.ev(a, p)
        for kw in c.keywords:
            if isinstance(kw.value, (ast.BoolOp, ast.Compare)):
                env[kw.arg] = ("LAZY", kw.value)
            else: env[kw.arg] = s.ev(kw.value, p)
        for prm, d in zip(params[len(params) - len(fn.args.defaults):], fn.args.defaults): env.setdefault(prm, s.ev(d, p))
        # resolve lazy boolean args eagerly (split)
        starts = [(q, env)]
        for k, v in list(env.items()):
            if isinstance(v, tuple) and v[0] == "LAZY":
                nxt = []
                for qq, ee in starts:
                    for b, q2 in s.cond(v[1], qq):
                        e2 = dict(ee); e2[k] = Const(b); nxt.append((q2, e2))
                starts = nxt
        out = []
        for qq, ee in starts:
            qq = qq.clone(); qq.env = ee; d0 = qq.depth
            for r in s.block(fn.body, [qq], s.live):
                r.env = saved; r.depth = d0
                if not keep_ret and not isinstance(r.ret, RET): r.ret = None
                out.append(r)
        return out

def show(paths, limit=8, filt=None):
    groups = collections.OrderedDict()
    for p in paths:
        sk = "\n".join("    " * d + t for d, t in p.out)
        groups.setdefault(sk, []).append(p)
    print("paths", len(paths), "distinct skeletons", len(groups))
    for i, (sk, ps) in enumerate(groups.items()):
        if filt and not filt(sk): continue
        if limit <= 0: break
        limit -= 1
        print("-" * 70, len(ps), "paths; e.g. atoms:")
        print("   ", {k: v for k, v in ps[0].atoms.items()}, ps[0].ident)
        print(sk)
    return groups

if __name__ == "__main__":
    import time
    t0 = time.time()
    pe = PE("CodeBuilder", {"_pack_method_set_value", "__pack_method_set_value", "_add_pack_method_lines_lazy", "add_line"})
    fn = method("CodeBuilder", "_add_pack_method_lines")
    p0 = Path(); p0.env["method_name"] = Opaque("method_name")
    paths = pe.block(fn.body, [p0])
    print("time %.2fs splits %d" % (time.time() - t0, pe.nsplit))
    g = show(paths, limit=int(sys.argv[1]) if len(sys.argv) > 1 else 6)
