# NOTE: throw-away design probe (see notes/README.md); not part of the verification machinery.
import ast
for f in ["mashumaro/core/meta/types/pack.py","mashumaro/core/meta/types/unpack.py","mashumaro/jsonschema/schema.py"]:
    tree=ast.parse(open("/repo/"+f).read())
    regs=[]; nret=0
    for n in tree.body:
        if isinstance(n, ast.FunctionDef):
            isreg=any(isinstance(d,ast.Name) and d.id=="register" for d in n.decorator_list)
            rets=[r for r in ast.walk(n) if isinstance(r, ast.Return) and r.value is not None and any(isinstance(x, ast.JoinedStr) for x in ast.walk(r.value))]
            nret+=len(rets)
            if isreg: regs.append(n.name)
    print(f, len(regs), nret); print("  ", regs)
