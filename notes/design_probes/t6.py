# NOTE: throw-away design probe (see notes/README.md); not part of the verification machinery.
import warnings; warnings.simplefilter("ignore")
from dataclasses import dataclass
from typing import Generic, TypeVar
import datetime
from mashumaro import DataClassDictMixin
from mashumaro.config import BaseConfig, ADD_DIALECT_SUPPORT
from mashumaro.dialect import Dialect
T = TypeVar("T")
class D(Dialect): pass
@dataclass
class G(Generic[T], DataClassDictMixin):
    v: T
    class Config(BaseConfig):
        code_generation_options=[ADD_DIALECT_SUPPORT]
@dataclass
class O(DataClassDictMixin):
    x: G[datetime.date]
    class Config(BaseConfig):
        code_generation_options=[ADD_DIALECT_SUPPORT]
o = O(G(datetime.date(2020,1,1)))
print("no dialect:", o.to_dict())
print("dialect D :", o.to_dict(dialect=D))
try: print("from no dialect:", O.from_dict({"x":{"v":"2020-01-01"}}))
except Exception as e: print("EXC", type(e).__name__, e)
try: print("from dialect D :", O.from_dict({"x":{"v":"2020-01-01"}}, dialect=D))
except Exception as e: print("EXC", type(e).__name__, e)
