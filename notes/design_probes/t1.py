# NOTE: throw-away design probe (see notes/README.md); not part of the verification machinery.
import warnings; warnings.simplefilter("ignore")
from dataclasses import dataclass, field
from typing import *
from typing_extensions import Annotated
import datetime, enum, json
from decimal import Decimal
from mashumaro import DataClassDictMixin, field_options, pass_through
from mashumaro.config import BaseConfig, ADD_DIALECT_SUPPORT, TO_DICT_ADD_OMIT_NONE_FLAG
from mashumaro.dialect import Dialect
from mashumaro.types import Alias, Discriminator
from mashumaro.codecs.basic import BasicDecoder, BasicEncoder
from mashumaro.codecs.orjson import ORJSONEncoder
from mashumaro.jsonschema import build_json_schema, JSONSchemaBuilder
import sys
def t(name, f):
    try:
        print(name, "=>", f())
    except BaseException as e:
        print(name, "EXC", type(e).__name__, str(e)[:150])

t("Union[Decimal,int] 5", lambda: repr(BasicDecoder(Union[Decimal, int]).decode(5)))
t("Union[str,int] 5", lambda: repr(BasicDecoder(Union[str, int]).decode(5)))
t("Union[date,None,int] garbage", lambda: repr(BasicDecoder(Union[datetime.date, None, int]).decode("garbage")))

# C13 merge
class D(Dialect):
    serialize_by_alias = True
    namedtuple_as_dict = True
@dataclass
class A:
    x: Annotated[int, Alias("y")]
t("orjson by alias", lambda: ORJSONEncoder(A, default_dialect=D).encode(A(1)))
t("basic by alias", lambda: BasicEncoder(A, default_dialect=D).encode(A(1)))

# C14 lazy + dialect
def lazy():
    @dataclass
    class L(DataClassDictMixin):
        x: int
        class Config(BaseConfig):
            lazy_compilation = True
            code_generation_options = [ADD_DIALECT_SUPPORT]
    class DD(Dialect): pass
    return L(1).to_dict(dialect=DD)
sys.setrecursionlimit(300)
t("lazy+dialect", lazy)
sys.setrecursionlimit(3000)

# C19 codec hook
log=[]
@dataclass
class H1:
    a: int
    def __pre_serialize__(self): log.append(("pre", type(self).__name__)); return self
@dataclass
class H2:
    b: int
    def __pre_serialize__(self): log.append(("pre", type(self).__name__)); return self
t("codec union hooks", lambda: (BasicEncoder(Union[H1,H2]).encode(H2(1)), log))

# C17 same-name
def mk(v):
    class E(enum.Enum):
        A = v
    return E
E1, E2 = mk(1), mk(2)
@dataclass
class S(DataClassDictMixin):
    a: E1
    b: E2
t("same-name local enums", lambda: S.from_dict({"a":1,"b":2}))

# C20
@dataclass
class Q(DataClassDictMixin):
    x: int = 1
    class Config(BaseConfig):
        omit_default = True
t("schema omit_default", lambda: build_json_schema(Q).to_dict())
@dataclass
class R(DataClassDictMixin):
    x: Optional["R"] = None
t("schema selfref", lambda: build_json_schema(R).to_dict())

# C06
t("schema annotated alias", lambda: build_json_schema(A).to_dict())
class F(enum.Flag):
    A=1; B=2
t("schema flag", lambda: build_json_schema(F).to_dict())
from typing_extensions import Unpack
t("schema tuple unpack", lambda: build_json_schema(Tuple[int, Unpack[Tuple[str,float]], int]).to_dict())
t("schema dict int keys", lambda: build_json_schema(Dict[int,str]).to_dict())
