# NOTE: throw-away design probe (see notes/README.md); not part of the verification machinery.
import pe, re
en = pe.Enum("FieldUnpackerCodeBlockBuilder", {"_try_set_value", "_set_value", "add_line"})
fn = pe.method("FieldUnpackerCodeBlockBuilder", "build")
paths = en.run_block(fn.body, [pe.Path()])
seen={}
for p in paths:
    sk="\n".join("    "*d+t for d,t in p.out)
    sk=re.sub(r"\{UnpackerRegistry[^\n]*?\)\)\)\}","{UNPACK}",sk)
    sk=re.sub(r"\{self\.parent\.get_type_name_identifier[^\n]*?\)\)\}","{TYPE}",sk)
    seen.setdefault(sk,[]).append(p)
for i,(sk,ps) in enumerate(seen.items()):
    print(f"--- skeleton {i}  ({len(ps)} paths) returned={ps[0].returned}")
    print(sk)
