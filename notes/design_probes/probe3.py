# NOTE: throw-away design probe (see notes/README.md); not part of the verification machinery.
import ast, builtins, collections, re
files = ["mashumaro/core/meta/code/builder.py","mashumaro/core/meta/types/pack.py","mashumaro/core/meta/types/unpack.py","mashumaro/core/meta/types/common.py","mashumaro/codecs/_builder.py"]
# builder.py module globals
bt = ast.parse(open("/repo/"+files[0]).read())
g=set()
for n in bt.body:
    if isinstance(n,(ast.Import,ast.ImportFrom)):
        for a in n.names: g.add((a.asname or a.name).split(".")[0])
    elif isinstance(n,(ast.FunctionDef,ast.ClassDef)): g.add(n.name)
    elif isinstance(n,ast.Assign):
        for t in n.targets:
            if isinstance(t,ast.Name): g.add(t.id)
    elif isinstance(n, ast.Try):
        for m in ast.walk(n):
            if isinstance(m,(ast.ImportFrom,ast.Import)):
                for a in m.names: g.add((a.asname or a.name).split(".")[0])
            if isinstance(m, ast.Assign):
                for t in m.targets:
                    if isinstance(t,ast.Name): g.add(t.id)
names=collections.defaultdict(list)
def tmpl_text(a):
    if isinstance(a, ast.Constant) and isinstance(a.value,str): return a.value
    if isinstance(a, ast.JoinedStr):
        s=""
        for v in a.values:
            s+= v.value if isinstance(v,ast.Constant) else "__H__"
        return s
    if isinstance(a, ast.BinOp) and isinstance(a.op, ast.Add):
        l=tmpl_text(a.left); r=tmpl_text(a.right)
        if l is not None and r is not None: return l+r
    return None
def complete(t):
    t=t.strip()
    if t.startswith("@"): return None
    if t.endswith(":"):
        if t.startswith(("else","except","elif")):
            pre = "try:\n pass\n" if t.startswith("except") else "if 1:\n pass\n"
            return pre + t + "\n pass"
        if t.startswith("try"): return "try:\n pass\nexcept Exception:\n pass"
        return t+"\n pass"
    if t.startswith("except Exception: pass"): return "try:\n pass\n"+t
    return t
bad=0; n=0
for f in files:
    tree=ast.parse(open("/repo/"+f).read())
    for c in ast.walk(tree):
        if isinstance(c, ast.Call) and isinstance(c.func, ast.Attribute) and c.func.attr in ("add_line","append","indent") and c.args:
            recv=ast.unparse(c.func.value)
            if c.func.attr=="append" and "lines" not in recv: continue
            t=tmpl_text(c.args[0])
            if t is None: continue
            src=complete(t)
            if src is None: continue
            n+=1
            try: tt=ast.parse(src)
            except SyntaxError:
                try: tt=ast.parse("def f():\n "+src.replace("\n","\n "))
                except SyntaxError as e:
                    bad+=1; print("UNPARSED", f.split("/")[-1], c.lineno, repr(t)); continue
            for m in ast.walk(tt):
                if isinstance(m, ast.Name) and isinstance(m.ctx, ast.Load):
                    names[m.id].append((f.split("/")[-1], c.lineno))
print(n, "templates parsed;", bad, "unparsed")
bi=set(dir(builtins))
for k,v in sorted(names.items()):
    cls = "builtin" if k in bi else ("builder-global" if k in g else "OTHER")
    print(f"{k:32s} {cls:15s} {len(v)} e.g. {v[0]}")
