"""mashverif -- static verification of Fatal1ty/mashumaro (see /verif/DESIGN.md).

Every check parses /repo's working tree with the stdlib ``ast`` module and decides
from the syntax trees.  Nothing in this package imports ``mashumaro``.
"""

import os

REPO = os.environ.get("MASHVERIF_REPO", "/repo")
PKG = os.path.join(REPO, "mashumaro")
VERIF = os.path.dirname(os.path.dirname(os.path.abspath(__file__)))
