"""C02 -- Serialization emits exactly the documented basic form."""

from __future__ import annotations

import ast
from typing import Dict, List

from ..core import conformance
from ..core.cat_types import TD, TDP
from ..core.report import Report
from ..core.srcmodel import AnalysisError, M_PACK, Repo

TECHNIQUE = "dispatch-table simulation of the packer registry over a supported-type catalogue, compared with an independent reference semantics; format dialects read as data"
EXPLANATION = (
    "R02.1: for every entry of the supported-type catalogue (scalars, date/time, UUID/Decimal/Fraction/IP, bytes, paths, "
    "patterns, six enum kinds, every collection class in builtin / typing / collections.abc spelling with trivial, "
    "converting, Optional and nested elements, fixed/variadic tuples, NamedTuple, TypedDict) the registered packers are "
    "partially evaluated in registration order exactly as Registry.get calls them (nested Registry.get resolved "
    "recursively); the complete emitted expression, canonicalised by the objects its names are bound to, must equal "
    "the documented operation REF_PACK(type) written independently from the README. First-match dispatch, shadowing, "
    "element conversion, order preservation (no sorted/set) and the None short-circuit are all part of that equality. "
    "R02.4: each format dialect declares exactly its native pass-through types (T-FORMAT). R02.5: TypedDict helper bodies "
    "write required keys in declaration order and optional keys only when present."
)
LEVEL_TEXT = EXPLANATION + " Exhaustive over the catalogue (finite); decides the generated *program* per type family, not the value-level behaviour of the stdlib operations it names."
LEVEL_NOTE = (
    "Trusted base: the stdlib-only model of mashumaro.core.meta.helpers type predicates (mashverif/core/dispatch.py "
    "HELPER_MODEL) and the reference table mashverif/core/oracle.py, transcribed from the README. Not decided: that "
    "isoformat()/str()/encodebytes render each value as documented; dataclass and union members (C08/C11); depth "
    "beyond what Registry.get composes by construction."
)
ASSUMPTIONS = ["helper type predicates behave as the stdlib-only model in dispatch.HELPER_MODEL on types outside the probe set of R02.8 (on the probe set the agreement is checked)",
               "class hierarchy of the analysing interpreter's standard library"]

T_FORMAT = {
    # module, class -> (serialize pass-through, deserialize pass-through, deserialize callables, no_copy, extra options)
    ("mashumaro.mixins.orjson", "OrjsonDialect"): {
        "serialize_pass": {"datetime", "date", "time", "UUID"}, "both_pass": set(), "deserialize": {},
        "no_copy": ["list", "dict"], "options": {}},
    ("mashumaro.mixins.msgpack", "MessagePackDialect"): {
        "serialize_pass": {"bytearray"}, "both_pass": {"bytes"}, "deserialize": {"bytearray": "bytearray"},
        "no_copy": ["list", "dict"], "options": {}},
    ("mashumaro.mixins.toml", "TOMLDialect"): {
        "serialize_pass": set(), "both_pass": {"datetime", "date", "time"}, "deserialize": {},
        "no_copy": ["list", "dict"], "options": {"omit_none": True}},
}


def check_rows(rep: Report, rows, rule: str, construct_mod: str, what: str) -> None:
    for r in rows:
        inst = f"{r.kind} {r.entry.name}" + (" (nullable position)" if r.cbn else "")
        if r.ok:
            rep.ok(rule, inst, {"type": r.entry.name, "handled_by": r.funcs, "emitted": r.actual[0][:200]})
        else:
            fn = r.funcs[0] if r.funcs else "-"
            rep.violation(rule, f"{construct_mod}::{fn}", inst,
                          f"{what}: the generator emits `{' | '.join(r.actual)[:300]}` but the documented operation is `{r.ref[0][:300]}`"
                          + (f" (raises: {r.raised})" if r.raised else ""),
                          actual=r.actual, reference=r.ref, handled_by=r.funcs)


def run(repo: Repo, rep: Report, tier: str) -> None:
    rows = conformance.run_catalogue(repo, "PACK", cbn=False, tier=tier)
    check_rows(rep, rows, "R02.1", M_PACK, "serialization of this type family differs from the documented basic form")
    rows2 = conformance.run_catalogue(repo, "PACK", cbn=True, tier=tier)
    check_rows(rep, rows2, "R02.1", M_PACK, "serialization at a nullable position differs from the documented basic form")
    rep.analysed.update({"catalogue": len(rows), "registered_packers": len({f for r in rows for f in r.funcs})})
    rep.floor("R02.1", 150)
    # dispatch table for the evidence
    table: Dict[str, List[str]] = {}
    for r in rows:
        table.setdefault("/".join(r.funcs), []).append(r.entry.name)
    rep.samples.append({"rule": "R02.1", "dispatch_table": {k: v[:6] for k, v in table.items()}})

    # R02.5 TypedDict helper bodies
    for r in rows:
        if r.entry.family != "typeddict":
            continue
        want = conformance.ref_typeddict_body(r.entry.type, "PACK")
        for o in r.outcomes:
            got = conformance.helper_body(o)
            inst = f"PACK helper of {r.entry.name}"
            if got == want:
                rep.ok("R02.5", inst, {"body": got})
            else:
                rep.violation("R02.5", f"{M_PACK}::pack_typed_dict", inst, "TypedDict packer body differs from the documented form "
                              "(required keys in declaration order, optional keys only when present)", actual=got, reference=want)
    rep.floor("R02.5", 2)

    # R02.4 format dialects
    for (mod, cls), want in T_FORMAT.items():
        ci = repo.cls(mod, cls)
        got = {"serialize_pass": set(), "both_pass": set(), "deserialize": {}, "no_copy": None, "options": {}}
        for st in ci.node.body:
            if not isinstance(st, ast.Assign) or not isinstance(st.targets[0], ast.Name):
                continue
            name = st.targets[0].id
            if name == "serialization_strategy" and isinstance(st.value, ast.Dict):
                for k, v in zip(st.value.keys, st.value.values):
                    kn = ast.unparse(k)
                    if ast.unparse(v) == "pass_through":
                        got["both_pass"].add(kn)
                    elif isinstance(v, ast.Dict):
                        d = {ast.literal_eval(a): ast.unparse(b) for a, b in zip(v.keys, v.values)}
                        if d.get("serialize") == "pass_through":
                            got["serialize_pass"].add(kn)
                        elif "serialize" in d:
                            got["options"][f"serialize[{kn}]"] = d["serialize"]
                        if d.get("deserialize") == "pass_through":
                            got["deserialize"][kn] = "pass_through"
                        elif "deserialize" in d:
                            got["deserialize"][kn] = d["deserialize"]
                    else:
                        got["options"][f"strategy[{kn}]"] = ast.unparse(v)
            elif name == "no_copy_collections":
                got["no_copy"] = [ast.unparse(e) for e in st.value.elts] if isinstance(st.value, (ast.Tuple, ast.List)) else ast.unparse(st.value)
            else:
                try:
                    got["options"][name] = ast.literal_eval(st.value)
                except Exception:
                    got["options"][name] = ast.unparse(st.value)
        inst = f"{cls}"
        if got == want:
            rep.ok("R02.4", inst, {"dialect": cls, "declares": {k: (sorted(v) if isinstance(v, set) else v) for k, v in got.items()}})
        else:
            diff = {k: (got[k], want[k]) for k in want if got[k] != want[k]}
            rep.violation("R02.4", ci.key, inst, f"format dialect declares something other than its documented native types / options: {diff}")
    rep.floor("R02.4", 3)
    if getattr(rep, "borrowed", False):
        return  # another property borrows main-body rules only
    from ..core import regget
    regget.report(repo, rep, "R02.6", {"first-match-in-order", "raise-otherwise", "real-type"})
    # rules of sibling properties that are necessary conditions of this one as well (same rule ids)
    from ..core.report import Only
    from ..core import siblings as _sib
    from . import c11 as _c11
    _sib.check_nested_builders(repo, rep, "R15.6")
    _c11._pack_union(repo, Only(rep, {"R11.8"}), tier)
    from ..core import helper_contracts as _hc3
    _hc3.report(repo, rep, "R01.6", _hc3.type_param_collection_contract(repo), "mashumaro.core.meta.helpers::collect_type_params")
    from . import c19 as _c19
    _c19._hook_and_dispatch_contracts(repo, Only(rep, {"R19.8"}))
    from ..core.report import Only as _OnlyX
    from ..core import corpus as _corpusX
    from . import c13 as _c13x
    _c13x._slots(repo, _OnlyX(rep, {"R13.3"}), _corpusX.explore_all(repo, tier))

_ADDENDUM = ' R02.6: the real body of Registry.get (strip Annotated, substitute type parameters, first non-None creator in registration order, UnserializableField otherwise) equals the model the dispatch simulation uses. Borrowed: R15.6 (nested builders inherit format and default dialect), R11.8 (pack_union helper shape and member order).'
EXPLANATION += _ADDENDUM
LEVEL_TEXT += _ADDENDUM
_ADD7 = ' Borrowed: R01.6.'
EXPLANATION += _ADD7
LEVEL_TEXT += _ADD7
_ADD21 = ' Borrowed: R19.8.'
EXPLANATION += _ADD21
LEVEL_TEXT += _ADD21
_ADD22 = ' Borrowed: R13.3 (dialect cache slots per format and specialisation).'
EXPLANATION += _ADD22
LEVEL_TEXT += _ADD22


_run_before_r5 = run


def run(repo, rep, tier):  # noqa: F811 -- round-5 shape rules appended to the rules above
    _run_before_r5(repo, rep, tier)
    if getattr(rep, "borrowed", False):
        return
    from ..core import round5 as _r5
    # R02.7: PEP 646 star syntax of builtin generics as a codec shape (not normalised by typing.get_type_hints there)
    import datetime as _D5
    from ..core.dispatch import Entry as _E5
    _star = [_E5("tuple[int, *tuple[date, ...]] (builtin star syntax)", tuple[int, *tuple[_D5.date, ...]], "unpacktuple", "conv")]
    check_rows(rep, conformance.run_entries(repo, "PACK", _star), "R02.7", M_PACK, "the starred member is not recognised as an unpacked part")
    rep.floor("R02.7", 1)
    from ..core.report import Only as _O5
    from . import c06 as _c06b
    _c06b._override_sibling(repo, _O5(rep, {"R06.11"}))
    _r5.override_consulted_first(repo, rep, "R06.14")
    _r5.loop_freshness(repo, rep, "R11.11")
    rep.floor("R11.11", 13)


_ADDR5B = ' Borrowed: R11.11 (no stale loop variable in the generator modules).'
EXPLANATION += _ADDR5B
LEVEL_TEXT += _ADDR5B
_ADDR5C = ' Borrowed: R06.14 (the override look-up comes first in the packer / unpacker / schema creators).'
EXPLANATION += _ADDR5C
LEVEL_TEXT += _ADDR5C
_ADDR5D = ' Borrowed: R06.11 (packer and schema resolve a serialize override with the same decision list; a deserialize-only dict strategy falls through to the next source).'
EXPLANATION += _ADDR5D
LEVEL_TEXT += _ADDR5D
_ADDR5E = ' R02.7: the same comparison for `tuple[int, *tuple[date, ...]]` written with the builtin star syntax (a types.GenericAlias with __unpacked__, which reaches the registries un-normalised when it is a codec shape).'
EXPLANATION += _ADDR5E
LEVEL_TEXT += _ADDR5E


_run_before_r6b = run


def run(repo, rep, tier):  # noqa: F811 -- round-6 remedies (core/round6.py)
    _run_before_r6b(repo, rep, tier)
    if getattr(rep, "borrowed", False):
        return
    from ..core import round6 as _r6b
    _r6b.short_names_not_identifiers(repo, rep, "R17.13")
    _r6b.optional_member_selection(repo, rep, "R11.13")
    _r6b.emitted_tuple_displays(repo, rep, "R16.7")


_ADDR6C = '  Borrowed: R17.13, R11.13, R16.7.'
EXPLANATION += _ADDR6C
LEVEL_TEXT += _ADDR6C


_run_before_r7 = run


def run(repo, rep, tier):  # noqa: F811 -- round 7: the type-level helpers are evaluated, not trusted (core/typeeval.py, typepreds.py)
    _run_before_r7(repo, rep, tier)
    if getattr(rep, "borrowed", False):
        return
    from ..core import typepreds as _tp
    _tp.model_agreement(repo, rep, "R02.8", tier)
    _tp.reference_cases(repo, rep, "R02.9")


_ADDR7 = (" R02.8: every type predicate that the dispatch simulation replaces by a stdlib-only model (get_type_origin, get_args, is_union, "
          "is_optional, is_literal, is_annotated, is_generic, is_named_tuple, is_typed_dict, is_new_type, is_type_var[_any|_tuple], is_unpack, "
          "is_final, is_self, is_required, is_not_required, is_hashable[_type], ...) is interpreted from its own source over every catalogue type "
          "and 50 special forms; the helper's answer must equal the model's (the model is thereby no longer trusted). R02.9: the helpers the "
          "simulation summarises symbolically (type_name, get_generic_name, resolve_type_params, substitute_type_params, collect_type_params, "
          "not_none_type_arg, is_variable_length_tuple, get_literal_values, get_class_that_defines_method/_field, "
          "get_function_arg/return_annotation, is_class_var, is_init_var) are interpreted over a hand-written table of 135 argument -> documented "
          "result cases.")
EXPLANATION += _ADDR7
LEVEL_TEXT += _ADDR7


_run_before_r7s = run


def run(repo, rep, tier):  # noqa: F811 -- round-7 remedies / borrowings
    _run_before_r7s(repo, rep, tier)
    if getattr(rep, "borrowed", False):
        return
    from ..core import round7 as _r7s
    _r7s.nullability_on_substituted_type(repo, rep, "R05.17")


_ADD_R7S = ' Borrowed: R05.17 (the None guard / omit_none of a TypeVar field follows the substituted type).'
EXPLANATION += _ADD_R7S
LEVEL_TEXT += _ADD_R7S


_run_before_r7rt = run


def run(repo, rep, tier):  # noqa: F811 -- round 7: get_real_type leaves the trusted base
    _run_before_r7rt(repo, rep, tier)
    if getattr(rep, "borrowed", False):
        return
    from ..core import typepreds as _tprt
    _tprt.real_type_cases(repo, rep, "R01.7")


_ADD_R7RT = ' Borrowed: R01.7 (get_real_type substitutes the parameters of the defining class).'
EXPLANATION += _ADD_R7RT
LEVEL_TEXT += _ADD_R7RT
