"""C12 -- Discriminated unions pick exactly the tagged class in any definition order."""

from __future__ import annotations

import ast
import itertools
import re
from typing import Dict, List, Optional, Set

from ..core import corpus as corpus_mod
from ..core.report import Report
from ..core.scen import symbolic_spec
from ..core.skeleton import MARK, Rendered, render
from ..core.srcmodel import AnalysisError, M_BUILDER, M_UNPACK, Repo, walk_no_nested
from ..core.values import Sym, show

TECHNIQUE = "exhaustive path enumeration of the discriminated-union generator over its configuration lattice + structural (ordering / containment / who-writes) rules on the generated dispatcher"
EXPLANATION = (
    "For all 32 configurations {discriminator field?, tagger function?, mixin vs codec addressing, include_subtypes, "
    "include_supertypes} the generated dispatcher is parsed and checked: (a) on a registry miss the *generated code itself* "
    "re-enumerates the subclasses (iter_all_subclasses(<base>) is a call in the emitted text), registers each tag and "
    "retries, so classes defined after compilation are found; (b) no negative caching: the miss path writes nothing but "
    "variants_map[tag] = variant (and the per-variant holder of codecs); (c) a missing key raises "
    "MissingDiscriminatorError(field), an unknown tag after the refill raises SuitableVariantNotFoundError(type, field, tag); "
    "(d) the registry attribute is created in the holder's own namespace; (e) without a field subtypes are tried before "
    "supertypes, each attempt wrapped, ending in SuitableVariantNotFoundError; (f) eligibility depends only on "
    "include_subtypes / include_supertypes; (g) a variant is skipped while refilling only when it has no tag of its own "
    "(KeyError), never because of the tag's value. R12.4: the class-level wiring drops include_supertypes and returns "
    "before any hook is emitted."
)
LEVEL_TEXT = EXPLANATION
LEVEL_NOTE = ("Not decided: the history quantifier itself is argued only through (a)+(b): each call re-derives the registry from "
              "the live subclass graph on a miss and never records absence. Tag uniqueness, tagger functions and thread "
              "interleavings are not decided.")
ASSUMPTIONS = ["iter_all_subclasses walks the live __subclasses__() graph", "user tagger functions are opaque"]

DU = f"{M_UNPACK}::DiscriminatedUnionUnpackerBuilder._add_body"
FACTORS = ["nailed", "field", "tagger", "subtypes", "supertypes"]


def _assume(cfg: Dict[str, bool]):
    out = [(r"get_config\(\)\.debug", False), (r"bool\(B\.get_unpack_method_flags\(\)\)", False), (r"bool\(B\.dialect\)", False),
           (r"bool\(B\.default_dialect\)", False), (r" in spec\.attrs\.__dict__", False), (r"bool\(spec\.field_ctx\.name\)", True),
           (r"bool\(B\.get_unpack_method_default_flag_values\(\)\)", True),
           (r"bool\(B\.is_nailed\)", cfg["nailed"]), (r"bool\(discriminator\.field\)", cfg["field"]),
           (r"bool\(discriminator\.variant_tagger_fn\)", cfg["tagger"]), (r"discriminator\.variant_tagger_fn is None", not cfg["tagger"]),
           (r"bool\(discriminator\.include_subtypes\)", cfg["subtypes"]), (r"bool\(discriminator\.include_supertypes\)", cfg["supertypes"])]
    return out


def _stores(nodes) -> List[str]:
    out = []
    for n in nodes:
        for st in ast.walk(n):
            if isinstance(st, (ast.Assign, ast.AugAssign)):
                tg = st.targets[0] if isinstance(st, ast.Assign) else st.target
                out.append(ast.unparse(tg))
            elif isinstance(st, ast.Call) and isinstance(st.func, ast.Attribute) and st.func.attr in (
                    "add", "update", "append", "setdefault", "pop", "discard", "remove", "extend", "insert", "clear"):
                out.append(ast.unparse(st.func))
    return out


def run(repo: Repo, rep: Report, tier: str) -> None:
    c = corpus_mod.Corpus()
    n_cfg = 0
    for vals in itertools.product([True, False], repeat=len(FACTORS)):
        cfg = dict(zip(FACTORS, vals))
        if not cfg["subtypes"] and not cfg["supertypes"]:
            continue  # rejected by Discriminator.__post_init__
        name = "cfg:" + ",".join(f"{k}={int(v)}" for k, v in cfg.items())
        ev, outs = corpus_mod.run_method_scenario(
            repo, c, name, M_UNPACK, "DiscriminatedUnionUnpackerBuilder", lambda ev, p: [corpus_mod._discr_obj(ev, p)], "build",
            lambda ev, p: [symbolic_spec(ev, p)], (M_UNPACK, "unpack_special_typing_primitive"),
            inline_depth=5, max_steps=400000, assume=_assume(cfg))
        if not outs:
            continue
        n_cfg += 1
        seen = set()
        for q in outs:
            for bid, lines in q.bufs.items():
                if bid == "main" or not lines:
                    continue
                r = render(lines, wrap=False)
                if r.src in seen:
                    continue
                seen.add(r.src)
                try:
                    tree = ast.parse(r.src)
                except SyntaxError as e:
                    rep.violation("R12.0", DU, f"{name}: helper does not parse", str(e), generated=r.describe(r.src)[:800])
                    continue
                fn = next((x for x in tree.body if isinstance(x, ast.FunctionDef)), None)
                if fn is None:
                    continue
                _check_helper(rep, cfg, name, fn, r)
    for e in c.errors:
        rep.undecide("corpus", e)
    rep.analysed["configurations"] = n_cfg
    if n_cfg < 24:
        rep.error(f"only {n_cfg} discriminator configurations analysed")
    _python_level(repo, rep)
    _registry_granularity(repo, rep)
    if getattr(rep, "borrowed", False):
        return  # another property borrows main-body rules only
    from ..core import regget
    regget.report(repo, rep, "R12.6", {"annotated-inherit"})
    from . import c05 as _c05
    from ..core.report import Only as _Only2
    _c05._exception_classes(repo, _Only2(rep, {"R05.12"}))
    from ..core import helper_contracts as _hc3
    _hc3.report(repo, rep, "R12.7", _hc3.subclass_walk_contract(repo), "mashumaro.core.meta.helpers::iter_all_subclasses")

def _check_helper(rep: Report, cfg, name: str, fn: ast.FunctionDef, r: Rendered) -> None:
    body = fn.body
    src = r.describe(ast.unparse(fn))
    D = lambda n: r.describe(ast.unparse(n))  # noqa: E731

    def viol(rule, inst, why):
        rep.violation(rule, DU, f"{inst}", why + f" [configuration {name}]", generated=src[:1500])

    if cfg["field"]:
        # ---- (c1) discriminator extraction
        ok = (len(body) >= 2 and isinstance(body[0], ast.Try) and len(body[0].body) == 1 and isinstance(body[0].body[0], ast.Assign)
              and ast.unparse(body[0].body[0].targets[0]) == "discriminator" and re.fullmatch(r"value\[.+\]", ast.unparse(body[0].body[0].value)))
        if ok:
            h = body[0].handlers
            ok = (len(h) == 1 and h[0].type is not None and ast.unparse(h[0].type) == "KeyError" and len(h[0].body) == 1 and isinstance(h[0].body[0], ast.Raise)
                  and ast.unparse(h[0].body[0].exc).startswith("MissingDiscriminatorError("))
        if not ok:
            viol("R12.1c", "missing tag handling", "a missing discriminator key must raise MissingDiscriminatorError(field) and nothing else")
            return
        rep.ok("R12.1c", f"{name}: missing key -> MissingDiscriminatorError", None, nontrivial=False)
        # the tag is read from exactly the configured key: one subscript whose key is the discriminator's field itself
        sub = body[0].body[0].value
        key_ok = False
        if isinstance(sub, ast.Subscript) and isinstance(sub.value, ast.Name) and sub.value.id == "value" and (
                (isinstance(sub.slice, ast.Constant) and isinstance(sub.slice.value, str)) or isinstance(sub.slice, ast.Name)):
            h = r.hole_of(sub.slice.value if isinstance(sub.slice, ast.Constant) else sub.slice.id)
            key_ok = h is not None and show(h.val) == "discriminator.field" and h.conv in ("r", "!r") and not getattr(h, "more", False)
            if h is not None and not key_ok:
                rep.notes.append(f"R12.1i: key hole {show(h.val)!r} conv={h.conv!r}")
        if key_ok:
            rep.ok("R12.1i", f"{name}: the tag is read as value[<discriminator.field>]", None, nontrivial=False)
        else:
            viol("R12.1i", f"tag read as `{D(sub)}`", "the tag must be read from exactly the configured key (the field string is data, not a path or pattern): "
                 "otherwise a correct input is rejected as lacking the discriminator and another shape is accepted in its place")
        t2 = body[1]
        if not (isinstance(t2, ast.Try) and len(t2.body) == 1 and isinstance(t2.body[0], ast.Return) and "[discriminator]" in ast.unparse(t2.body[0])):
            viol("R12.1a", "registry look-up", "the dispatcher must first look the tag up in the variant registry")
            return
        if len(t2.handlers) != 1:
            viol("R12.1a", "registry miss handler", "exactly one miss handler expected")
            return
        hb = t2.handlers[0].body
        if any(isinstance(x, ast.Call) for x in ast.walk(t2.body[0])) and "KeyError" in ast.unparse(t2.handlers[0].type or ast.Name("x")):
            rep.violation("R12.1h", DU, "try [registry miss/refill] except (KeyError, AttributeError): body has a call",
                          "the try whose handler means 'tag not registered yet' also encloses the call into the variant's own from_dict: a KeyError / "
                          "AttributeError raised inside the variant is reported as an unknown variant instead")
        else:
            rep.ok("R12.1h", f"{name}: registry-miss handler encloses only the look-up", None, nontrivial=False)
        loops = [s for s in hb if isinstance(s, ast.For)]
        if len(loops) != 1:
            viol("R12.1a", "no refill loop on a registry miss", "classes defined after compilation can only be found if the miss path re-enumerates the subclasses")
            return
        loop = loops[0]
        it = ast.unparse(loop.iter)
        # (a) + (f)
        has_sub = "iter_all_subclasses(" in it
        n_base = len(re.findall(r"_h\d+_", re.sub(r"iter_all_subclasses\(_h\d+_\)", "", it)))
        if has_sub != cfg["subtypes"] or (n_base > 0) != cfg["supertypes"]:
            viol("R12.1f", f"refill iterates `{D(loop.iter)}`", f"eligible classes must be subclasses iff include_subtypes ({cfg['subtypes']}) and the base classes iff include_supertypes ({cfg['supertypes']})")
        else:
            rep.ok("R12.1a", f"{name}: refill re-enumerates `{D(loop.iter)}` at call time", {"iter": D(loop.iter)})
        if cfg["subtypes"] and cfg["supertypes"] and not it.strip("()").lstrip().startswith("*iter_all_subclasses"):
            viol("R12.2", f"variant order `{D(loop.iter)}`", "subtypes must precede supertypes")
        # (g) registration
        reg_ok = False
        for st in loop.body:
            if isinstance(st, ast.Try) and any(ast.unparse(h.type or ast.Name("x")) == "KeyError" and [type(x) for x in h.body] == [ast.Continue] for h in st.handlers):
                if any(ast.unparse(t).startswith("variants_map[") for t in _targets(st.body)):
                    reg_ok = True
            if isinstance(st, ast.Assign) and ast.unparse(st.targets[0]).startswith("variants_map["):
                reg_ok = True
            if isinstance(st, ast.If) and any(isinstance(x, ast.Continue) for x in ast.walk(st)) and "get_class_that_defines_method" not in ast.unparse(st.test):
                viol("R12.1g", f"refill skips a variant when `{D(st.test)}`", "a variant may be skipped only when it has no tag of its own (KeyError), never because of the tag's value (falsy tags 0, '', False are valid tags)")
            if isinstance(st, ast.If) and cfg["tagger"] and "type(variant_tags) is list" in ast.unparse(st.test):
                reg_ok = True
        if not reg_ok:
            viol("R12.1g", "refill does not register variants_map[tag] = variant", "the registry is never filled")
        else:
            rep.ok("R12.1g", f"{name}: refill registers every variant that has a tag", None, nontrivial=False)
        # (b) who writes
        allowed = re.compile(r"^(variants_map|variants_map\[.+\]|variant_tags|attrs_\w+|_h\d+_\[variant\]|_h\d+_|discriminator)$")
        bad = [s for s in _stores(hb) if not allowed.match(s)]
        if bad:
            viol("R12.1b", f"miss path writes `{r.describe(bad[0])}`", "the miss path may write nothing but variants_map[tag] = variant: recording anything "
                 "else about the requested tag (e.g. that it was unknown) makes later calls depend on earlier ones")
        else:
            rep.ok("R12.1b", f"{name}: miss path stores only registry entries", None, nontrivial=False)
        # (c2) retry + final error
        last = hb[-1]
        ok = (isinstance(last, ast.Try) and len(last.body) == 1 and isinstance(last.body[0], ast.Return) and "variants_map[discriminator]" in ast.unparse(last.body[0])
              and len(last.handlers) == 1 and ast.unparse(last.handlers[0].type) == "KeyError" and isinstance(last.handlers[0].body[0], ast.Raise)
              and ast.unparse(last.handlers[0].body[0].exc).startswith("SuitableVariantNotFoundError(") and ast.unparse(last.handlers[0].body[0].exc).rstrip(")").endswith("discriminator"))
        if not ok:
            viol("R12.1c", "retry / unknown tag handling", "after the refill the tag must be looked up again and an unknown tag must raise SuitableVariantNotFoundError(type, field, tag)")
        else:
            rep.ok("R12.1c", f"{name}: retry then SuitableVariantNotFoundError(type, field, tag)", None, nontrivial=False)
        # pre-look-up stores (negative cache consulted before the registry?)
        pre = [s for s in _stores(body[:1]) if s != "discriminator"]
        tests_before = [st for st in body[1:-0] if isinstance(st, ast.If)]
        if tests_before:
            viol("R12.1b", f"extra test `{D(tests_before[0].test)}` before the registry look-up", "the outcome for a tag must not depend on state recorded by earlier calls")
    else:
        loops = [s for s in body if isinstance(s, ast.For)]
        if len(loops) != 1 or not isinstance(body[-1], ast.Raise) or not ast.unparse(body[-1].exc).startswith("SuitableVariantNotFoundError("):
            viol("R12.1e", "no-field dispatcher shape", "without a field the variants must be tried in a loop ending in SuitableVariantNotFoundError")
            return
        loop = loops[0]
        it = ast.unparse(loop.iter)
        has_sub = "iter_all_subclasses(" in it
        n_base = len(re.findall(r"_h\d+_", re.sub(r"iter_all_subclasses\(_h\d+_\)", "", it)))
        if has_sub != cfg["subtypes"] or (n_base > 0) != cfg["supertypes"]:
            viol("R12.1f", f"variants `{D(loop.iter)}`", "eligibility must follow include_subtypes / include_supertypes only")
        elif cfg["subtypes"] and cfg["supertypes"] and not it.strip("()").lstrip().startswith("*iter_all_subclasses"):
            viol("R12.2", f"variant order `{D(loop.iter)}`", "subtypes must be tried before supertypes")
        else:
            rep.ok("R12.1e", f"{name}: variants `{D(loop.iter)}` tried in order", {"iter": D(loop.iter)})
        tries = [s for s in loop.body if isinstance(s, ast.Try)]
        wrapped = tries and all(any((h.type is None or ast.unparse(h.type) in ("Exception",)) and [type(x) for x in h.body] == [ast.Pass] for h in t.handlers) for t in tries[:1])
        if not wrapped:
            viol("R12.1e", "variant attempt not wrapped", "a variant that rejects the input must fall through to the next one")
        else:
            rep.ok("R12.1e", f"{name}: each attempt falls through on failure", None, nontrivial=False)


def _targets(nodes):
    out = []
    for n in nodes:
        for st in ast.walk(n):
            if isinstance(st, ast.Assign):
                out.extend(st.targets)
    return out


def _registry_granularity(repo: Repo, rep: Report) -> None:
    """R12.5: the fast path `registry[tag].<variant method>(value)` relies on `tag registered => that variant's own
    method is compiled`. Registration and compilation happen together in the slow path, per (holder, registry
    attribute); the variant method name is specialised by the format. So the registry attribute must be at least as
    specialised: a registry shared by two formats makes the second format find the tag, resolve the missing method
    through inheritance to the base class's own dispatcher and recurse (plain, non-mixin hierarchies)."""
    from ..core.scen import make_eval
    from ..core.values import Const, Func
    from ..core.pe import Path

    dummy = ast.parse("f(x)").body[0].value
    fmts = ("dict", "msgpack")
    meth = {}
    for fmt in fmts:
        ev = make_eval(repo, inline_depth=4)
        fm = repo.func(M_BUILDER, "CodeBuilder.get_unpack_method_name")
        res = ev.call_func(Func(fm), [], {"format_name": Const(fmt)}, Path(), dummy, force=True)
        meth[fmt] = sorted({show(v) for v, q in res if q.ctl != "raise"})
    if meth["dict"] == meth["msgpack"]:
        rep.ok("R12.5", "variant method names are not format-specific", None)
        return
    for cls in ("DiscriminatedUnionUnpackerBuilder", "SubtypeUnpackerBuilder"):
        ci = repo.cls(M_UNPACK, cls)
        fi = next((repo.funcs[f"{c.key}._get_variants_attr"] for c in repo.mro(ci) if f"{c.key}._get_variants_attr" in repo.funcs), None)
        if fi is None:
            rep.undecide("R12.5", f"{cls}._get_variants_attr not found")
            continue
        attr = {}
        for fmt in fmts:
            ev = make_eval(repo, inline_depth=4)
            p = Path()
            spec = symbolic_spec(ev, p)
            b = ev.builder_obj(p)
            p.heap[b.oid]["format_name"] = Const(fmt)
            obj = ev.new_obj(p, ci.key, {"_variants_attr": Const(None), "discriminator": corpus_mod._discr_obj(ev, p)})
            res = ev.call_func(Func(fi, self_v=obj), [spec], {}, p, dummy, force=True)
            vals = set()
            for v, q in res:
                if q.ctl == "raise":
                    continue
                vals.add((show(v), "random_hex" in show(v) or "IDENT" in getattr(v, "tags", ())))
            attr[fmt] = vals
        if not attr["dict"] or not attr["msgpack"]:
            rep.undecide("R12.5", f"{cls}: no value for the registry attribute")
            continue
        fresh = all(r for _, r in attr["dict"] | attr["msgpack"])
        shared = {t for t, r in attr["dict"] if not r} & {t for t, r in attr["msgpack"] if not r}
        if fresh:
            rep.ok("R12.5", f"{cls}: registry attribute is fresh per generated dispatcher ({sorted(t for t, _ in attr['dict'])})", None)
        elif shared:
            rep.violation("R12.5", fi.key, f"{cls}: one registry attribute {sorted(shared)} for every format while variant methods are per format",
                          "after one format registered a tag, another format's dispatcher finds the tag, the variant lacks that format's method, attribute lookup falls through to the base class's own dispatcher "
                          "and recurses: from_dict then from_json (or the reverse) on a plain dataclass hierarchy fails depending on the call order", loc=fi.loc)
        else:
            rep.ok("R12.5", f"{cls}: registry attribute is specialised by format ({sorted(t for t, _ in attr['dict'])} / {sorted(t for t, _ in attr['msgpack'])})", None)


def _python_level(repo: Repo, rep: Report) -> None:
    # (d) registry created in the holder's own namespace
    fi = repo.func(M_UNPACK, "DiscriminatedUnionUnpackerBuilder._add_body")
    src = ast.unparse(fi.node)
    if re.search(r"if variants_attr not in variants_attr_holder\.__dict__:\s+setattr\(variants_attr_holder, variants_attr, \{\}\)", src):
        rep.ok("R12.1d", "registry attribute is created in the holder's own __dict__", None)
    else:
        rep.violation("R12.1d", fi.key, "registry creation", "the tag registry must be created per holder class (own __dict__), otherwise a subclass hierarchy shares its parent's registry", loc=fi.loc)
    # R12.2 order of _get_variant_names
    g = repo.func(M_UNPACK, "DiscriminatedUnionUnpackerBuilder._get_variant_names")
    ifs = [n for n in g.node.body if isinstance(n, ast.If)]
    order = [("subtypes" if "include_subtypes" in ast.unparse(i.test) else "supertypes" if "include_supertypes" in ast.unparse(i.test) else "?") for i in ifs]
    if order == ["subtypes", "supertypes"]:
        rep.ok("R12.2", "_get_variant_names lists subtypes before supertypes, each under its own flag", None)
    else:
        rep.violation("R12.2", g.key, f"variant name order {order}", "subtypes must be listed before supertypes and each only under its own flag", loc=g.loc)
    # R12.4 class-level wiring
    u = repo.func(M_BUILDER, "CodeBuilder._add_unpack_method_lines")
    calls = [n for n in walk_no_nested(u.node) if isinstance(n, ast.Call) and ast.unparse(n.func) == "Discriminator"]
    if len(calls) != 1:
        rep.undecide("R12.4", f"{len(calls)} Discriminator(...) reconstructions in _add_unpack_method_lines")
    else:
        kws = {k.arg for k in calls[0].keywords}
        if "include_supertypes" in kws or "include_subtypes" not in kws or "field" not in kws:
            rep.violation("R12.4", u.key, f"class-level discriminator rebuilt with {sorted(kws)}", "the class-level dispatcher must not include the class itself (include_supertypes) -- it would dispatch to itself forever", loc=u.loc)
        else:
            rep.ok("R12.4", f"class-level discriminator rebuilt with {sorted(kws)} (no include_supertypes)", None)
    # the dispatcher returns before hooks are emitted: in source order the `return` of the discriminator branch precedes get_declared_hook
    txt = ast.unparse(u.node)
    i_ret = txt.find("self.add_line(f'return {method}')")
    i_hook = txt.find("get_declared_hook(__PRE_DESERIALIZE__)")
    if 0 <= i_ret < i_hook:
        rep.ok("R12.4", "class-level dispatcher returns before any hook emission", None)
    else:
        rep.violation("R12.4", u.key, "dispatcher / hook order", "a class-level dispatcher must not run the base class's hooks before dispatching", loc=u.loc)


_ADDENDUM = ' R12.5: the variant registry attribute is at least as specialised as the variant method name (fresh per dispatcher, or per format). R12.6: Registry.get leaves annotated_type alone for non-Annotated types, so a Discriminator written outside Optional / List stays visible.'
EXPLANATION += _ADDENDUM
LEVEL_TEXT += _ADDENDUM
_ADD6 = " Borrowed: R05.12 (no library exception is a KeyError / AttributeError that the dispatcher's handlers would swallow)."
EXPLANATION += _ADD6
LEVEL_TEXT += _ADD6
_ADD7 = ' R12.7: iter_all_subclasses walks the whole subclass tree unconditionally.'
EXPLANATION += _ADD7
LEVEL_TEXT += _ADD7
_ADD9 = ' R12.1i: the tag is read as value[<field>] with the configured field string as the single key.'
EXPLANATION += _ADD9
LEVEL_TEXT += _ADD9


_run_before_r5 = run


def run(repo, rep, tier):  # noqa: F811 -- round-5 shape rules appended to the rules above
    _run_before_r5(repo, rep, tier)
    if getattr(rep, "borrowed", False):
        return
    from ..core import round5 as _r5
    from ..core.report import Only as _O5
    from ..core import helper_contracts as _hcb
    _hcb.report(repo, rep, "R09.5", _hcb.discriminator_lookup(repo), "mashumaro.core.meta.code.builder::CodeBuilder.get_discriminator")
    _r5.annotation_scans(repo, rep, "R09.8")
    rep.floor("R09.8", 20)


_ADDR5B = ' Borrowed: R09.8: isinstance tests for the Annotated markers (Alias, Discriminator, JSON Schema constraints) are applied to the variable of a scan over the whole metadata sequence, so a marker is honoured at any position.'
EXPLANATION += _ADDR5B
LEVEL_TEXT += _ADDR5B
_ADDR5D = " Borrowed: R09.5 (get_discriminator(look_in_parents) walks the whole MRO through each class's own Config)."
EXPLANATION += _ADDR5D
LEVEL_TEXT += _ADDR5D


_run_before_r6c = run


def run(repo, rep, tier):  # noqa: F811 -- round-6 remedies, batch 3
    _run_before_r6c(repo, rep, tier)
    if getattr(rep, "borrowed", False):
        return
    from ..core import round6 as _r6c
    _r6c.speculative_variant_calls_guarded(repo, rep, "R05.16")


_ADDR6D = ' Borrowed: R05.16.'
EXPLANATION += _ADDR6D
LEVEL_TEXT += _ADDR6D
