"""C08 -- Serialization options only project the plain output."""

from __future__ import annotations

import ast
import re
from typing import Dict, List

from ..core import packblock
from ..core.pe import Path
from ..core.report import Report
from ..core.scen import make_eval
from ..core.srcmodel import AnalysisError, M_BUILDER, Repo, Undecided, walk_no_nested
from ..core.values import Const, Hole, Lst, Sym, Tmpl, Tup, show

TECHNIQUE = "exhaustive path enumeration of the to_dict generator under a predicate abstraction + skeleton evaluation against PROJECT; decision-list checks of the option look-up"
EXPLANATION = (
    "R08.1: for a generic field and every generator configuration (by_alias/omit_none code-generation flags, "
    "serialize_by_alias, omit_none, omit_default, serialize='omit', nullability, trivial/non-trivial packer, alias "
    "present, default in {missing, None, other}) every emitted to_dict body, evaluated under every run-time valuation "
    "(value is None, by_alias kwarg, omit_none kwarg, value == default), writes exactly the key PROJECT prescribes "
    "(name / alias / nothing) with the value the plain serializer would produce. R08.2: the option look-up order is call "
    "dialect, Config.dialect, Config, format dialect, first non-MISSING wins. R08.3: keyword defaults come from the same "
    "look-up. R08.4: flags are forwarded to a nested class only if both classes enabled them. R08.5: sort_keys orders "
    "(name, type) pairs by name before aliasing and is the only sort on the pack path."
)
LEVEL_TEXT = EXPLANATION + " R08.1 is exhaustive over the finite generator x run-time predicate space (no sampling)."
LEVEL_NOTE = (
    "Not decided: that `value != <default literal>` coincides with equality to the field default for exotic default "
    "objects; nested propagation by value; two-field interactions are covered only in the thorough tier (value reuse). "
    "Hooks, encoder, lazy and sort_keys atoms are held at one representative value in R08.1 (they only wrap the mapping: C19/C04/C14)."
)
ASSUMPTIONS = ["one generic field represents every field (thorough: two fields)", "PACK[type](expr) is the plain serializer's converter for the field (C02)"]

PML = f"{M_BUILDER}::CodeBuilder._add_pack_method_lines"


def _default_literal(repo: Repo, rep: Report) -> None:
    """R08.7: the source text that stands for a field default in the `omit_default` comparison denotes the default.
    get_field_default_literal is partially evaluated over a symbolic value; every path either binds the object itself
    under a fresh name (ensure_object_imported(value, name) -- always right) or renders text, and text is accepted only
    under a guard for which rendering round-trips (`eval(text) == value`): exact builtin scalar types; finite floats;
    IntFlag through its int value; tuples rendered element-wise through the same function."""
    import ast as _ast

    from ..core.pe import Path
    from ..core.scen import make_eval
    from ..core.values import Func, Sym, Tmpl, V, show

    fi = repo.func(M_BUILDER, "CodeBuilder.get_field_default_literal")
    dummy = _ast.parse("f(x)").body[0].value
    ev = make_eval(repo, inline_depth=3, allow_inline={"get_field_default_literal"})
    ev.max_recursion = 1
    p = Path()
    B = ev.builder_obj(p)
    res = ev.call_func(Func(fi, self_v=B), [Sym("value")], {}, p, dummy, force=True)
    n = 0
    for r, q in res:
        if q.ctl == "raise":
            continue
        bound = {show(e[2]) if isinstance(e[2], V) else e[2]: show(e[1]) for e in q.events if e and e[0] == "ensure_object" and len(e) > 2}
        for w in q.worlds():
            at = Path._view(w, "A|")
            n += 1
            txt = show(r)
            on = {k for k, v in at.items() if v}
            off = {k for k, v in at.items() if not v}
            cond = ", ".join(sorted(on) + [f"not {k}" for k in sorted(off)])
            if txt in bound:
                if bound[txt] == "value":
                    rep.ok("R08.7", f"[{cond}] -> bound by identity under a fresh name", None)
                else:
                    rep.violation("R08.7", fi.key, f"[{cond}] -> name bound to `{bound[txt]}` instead of the default", "the comparison would use another object", loc=fi.loc)
                continue
            holes = [h for h in r.parts if not isinstance(h, str)] if isinstance(r, Tmpl) else []
            hv = [(show(h.val), h.conv) for h in holes if not getattr(h, "more", False)]
            ok = False
            if any("type(value) in (str, int, bool, NoneType)" in k for k in on) and hv == [("value", "r")]:
                ok = True
            elif any("isinstance(value, float)" in k for k in on) and any("isnan" in k for k in off) and any("isinf" in k for k in off) and hv == [("value", "r")]:
                ok = True
            elif any("isinstance(value, enum.IntFlag)" in k for k in on) and hv == [("value.value", "s")]:
                ok = True
            elif any("isinstance(value, tuple)" in k for k in on) and any("is_named_tuple" in k for k in off) and hv and all(
                    "get_field_default_literal(" in v for v, c in hv):
                ok = True  # element-wise through the same function: sound by induction on the nesting depth
            if ok:
                rep.ok("R08.7", f"[{cond}] -> text `{txt}` (round-trips under this guard)", None)
            else:
                rep.violation("R08.7", fi.key, f"default rendered as text `{txt}` under [{cond}]",
                              "the text does not denote the default for every value admitted by this guard (repr() of an enum member / date / inf / nested object is not an "
                              "expression for it; the raw value of a plain Enum member is not equal to the member): omit_default compares with the wrong value, or the generated code does not compile",
                              loc=fi.loc)
    if n < 5:
        rep.error(f"R08.7: only {n} paths of get_field_default_literal")


def run(repo: Repo, rep: Report, tier: str) -> None:
    extra = [] if tier == "thorough" else [(r"is_type_var_any", False), (r"is_optional", False)]
    res = packblock.analyse(repo, extra_assume=extra, max_steps=3000000 if tier == "thorough" else 800000)
    rep.analysed.update({"generator_paths": res.paths, "generator_valuations": res.worlds, "distinct_bodies": res.skeletons,
                         "runtime_valuations": res.valuations})
    for u in res.undecided[:20]:
        rep.undecide("R08.1", u)
    for s in res.syntax_errors[:5]:
        rep.violation("R08.1", PML, "emitted to_dict body does not parse", s[:200], generated=s)
    seen = set()
    for m in res.mismatches:
        inst = f"{m.gen.label()} | " + (",".join(k for k, v in m.valuation.items() if v) or "-") + f" -> PROJECT {m.expected}, body does {m.actual}"
        if inst in seen:
            continue
        seen.add(inst)
        if len(seen) > 40:
            continue
        rep.violation("R08.1", PML, inst, "the generated to_dict body is not the projection of the plain output the options prescribe", generated=m.skeleton)
    for _ in range(res.checked - len(res.mismatches)):
        rep.ok("R08.1", "valuation", None, nontrivial=False)
    rep.distinct.add(("R08.1", f"{res.skeletons} bodies x {res.worlds} generator valuations"))
    for s in res.samples:
        rep.samples.append({"rule": "R08.1", **s})
    rep.floor("R08.1", 2000)
    if res.skeletons < 30:
        rep.error(f"only {res.skeletons} distinct to_dict bodies enumerated (expected >= 30)")
    _r08_2(repo, rep)
    _r08_3(repo, rep)
    _r08_4(repo, rep)
    _r08_5(repo, rep)
    from ..core import direction
    direction.report(repo, rep, "R08.6")
    _default_literal(repo, rep)
    from ..core import helper_contracts as _hc
    _hc.report(repo, rep, "R08.8", _hc.get_config_contract(repo), "mashumaro.core.meta.code.builder::CodeBuilder.get_config")
    _hc.report(repo, rep, "R08.8", _hc.codegen_option_contract(repo), "mashumaro.core.meta.code.builder::CodeBuilder.is_code_generation_option_enabled")
    from ..core import helper_contracts as _hc2
    _hc2.report(repo, rep, "R09.6", _hc2.dataclass_fields_contract(repo), "mashumaro.core.meta.code.builder::CodeBuilder.dataclass_fields")
    from ..core.report import Only as _Only8
    from . import c19 as _c19, c13 as _c13
    _c19._flag_contract(repo, _Only8(rep, {"R19.6"}))
    _c13._merge(repo, _Only8(rep, {"R13.1"}))
    from ..core.report import Only as _OnlyX
    from ..core import corpus as _corpusX
    from . import c14 as _c14x
    _c14x._ownership(repo, _OnlyX(rep, {"R14.8", "R14.9"}))

def _r08_2(repo: Repo, rep: Report) -> None:
    fi = repo.func(M_BUILDER, "CodeBuilder.get_dialect_or_config_option")
    ev = make_eval(repo, inline_depth=2, allow_inline={"get_dialect_or_config_option"})
    p = Path()
    paths = ev.run(fi, {"self": ev.builder_obj(p), "option": Sym("option"), "default": Sym("default"), "cls": Sym("cls")}, p)
    # order the paths by how many namespaces were MISSING before the winner
    got = []
    for q in paths:
        if q.ctl != "return":
            continue
        for w in q.worlds():
            missing = [k for k, v in Path._view(w, "I|").items() if v == "Sentinel.MISSING" or v.endswith("MISSING")]
            other = [k for k in Path._view(w, "A|")] + [k for k, v in Path._view(w, "I|").items() if not v.endswith("MISSING")]
            if other:
                rep.violation("R08.2", fi.key, f"look-up of {show(q.retv)} is conditional on {sorted(other)[:3]}",
                              "a namespace of the chain call dialect > Config.dialect > Config > format dialect is consulted only under an extra "
                              "condition (e.g. only when an earlier namespace is absent): an unset option of an earlier namespace hides the later ones", loc=fi.loc)
            got.append((len(missing), show(q.retv)))
    got = sorted(set(got))
    want = ["B.dialect", "B.get_config(cls).dialect", "B.get_config(cls)", "B.default_dialect"]
    seq = []
    for n, rv in got:
        m = re.match(r"getattr\((.+), option, ", rv)
        seq.append(m.group(1) if m else rv)
    inst = " > ".join(seq)
    if seq == want + ["default"]:
        rep.ok("R08.2", inst, {"order": seq})
    elif len(seq) == 5 and set(seq) == set(want + ["default"]):
        rep.violation("R08.2", fi.key, inst, "option look-up order differs from call dialect > Config.dialect > Config > format dialect", loc=fi.loc)
    elif all(s in want + ["default"] for s in seq):
        rep.violation("R08.2", fi.key, inst, "a namespace of the option look-up chain (call dialect, Config.dialect, Config, format dialect) is skipped", loc=fi.loc)
    else:
        rep.undecide("R08.2", f"unrecognised look-up chain {seq}")
    # every option on the pack path is read through it
    src = ast.unparse(repo.func(M_BUILDER, "CodeBuilder._add_pack_method_lines").node)
    for opt in ("serialize_by_alias", "omit_none", "omit_default"):
        if f'get_dialect_or_config_option("{opt}"' in src or f"get_dialect_or_config_option('{opt}'" in src:
            rep.ok("R08.2", f"{opt} read through get_dialect_or_config_option", None)
        else:
            rep.violation("R08.2", PML, f"{opt} not read through get_dialect_or_config_option", "the option would be consulted on one namespace only")


def _r08_3(repo: Repo, rep: Report) -> None:
    fi = repo.func(M_BUILDER, "CodeBuilder.get_pack_method_default_flag_values")
    ev = make_eval(repo, inline_depth=3, allow_inline={"get_pack_method_default_flag_values"}, assume=[(r"B\.encoder is None", True), (r"bool\(B\.encoder\)", False)])
    p = Path()
    paths = ev.run(fi, {"self": ev.builder_obj(p)}, p)
    n = 0
    for q in paths:
        if q.ctl != "return":
            continue
        t = q.retv
        text = show(t)
        at = q.atoms
        for flag, opt in (("omit_none", "omit_none"), ("by_alias", "serialize_by_alias")):
            m = re.search(rf"{flag}=(True|False)", text)
            if not m:
                continue
            cfg = next((v for k, v in at.items() if f"get_dialect_or_config_option({opt}, False" in k), None)
            n += 1
            if cfg is None:
                rep.undecide("R08.3", f"default of {flag} is not derived from get_dialect_or_config_option({opt}, ...)")
            elif str(bool(cfg)) == m.group(1):
                rep.ok("R08.3", f"default {flag}={m.group(1)} <- {opt}={cfg}", None)
            else:
                rep.violation("R08.3", fi.key, f"default {flag}={m.group(1)} while {opt} resolves to {cfg}",
                              "the keyword default is not the configured value: calling without the keyword changes the output", loc=fi.loc)
    rep.floor("R08.3", 4)


def _r08_4(repo: Repo, rep: Report) -> None:
    for fname, n_opts in (("get_pack_method_flags", 4), ("get_unpack_method_flags", 1)):
        fi = repo.func(M_BUILDER, f"CodeBuilder.{fname}")
        ev = make_eval(repo, inline_depth=2, allow_inline={fname}, assume=[(r"B\.encoder is None", True), (r"B\.decoder is None", True)])
        p = Path()
        paths = ev.run(fi, {"self": ev.builder_obj(p), "cls": Sym("nested_cls")}, p)
        n = 0
        for q in paths:
            if q.ctl != "return":
                continue
            for w in q.worlds():
                at = Path._view(w, "A|")
                text = show(q.retv)
                for opt, flag in (("TO_DICT_ADD_OMIT_NONE_FLAG", "omit_none"), ("TO_DICT_ADD_BY_ALIAS_FLAG", "by_alias"),
                                  ("ADD_DIALECT_SUPPORT", "dialect"), ("ADD_SERIALIZATION_CONTEXT", "context")):
                    callee = next((v for k, v in at.items() if f"is_code_generation_option_enabled({opt}, nested_cls)" in k), None)
                    caller = next((v for k, v in at.items() if f"is_code_generation_option_enabled({opt})" in k), None)
                    if callee is None:
                        continue
                    n += 1
                    present = f"{flag}={flag}" in text
                    should = bool(callee) and bool(caller)
                    if present == should:
                        rep.ok("R08.4", f"{fname}: {flag} forwarded={present} callee={callee} caller={caller}", None)
                    else:
                        rep.violation("R08.4", fi.key, f"{flag} forwarded={present} although callee enabled={callee}, caller enabled={caller}",
                                      "a flag must be forwarded to a nested class iff both classes generated it", loc=fi.loc)
        if n < n_opts * 2:
            rep.error(f"R08.4: only {n} flag forwarding instances found in {fname}")


def _r08_5(repo: Repo, rep: Report) -> None:
    fi = repo.func(M_BUILDER, "CodeBuilder._add_pack_method_lines")
    sorts = [n for n in walk_no_nested(fi.node) if isinstance(n, ast.Call) and isinstance(n.func, ast.Name) and n.func.id in ("sorted", "reversed")]
    sorts += [n for n in walk_no_nested(fi.node) if isinstance(n, ast.Call) and isinstance(n.func, ast.Attribute) and n.func.attr in ("sort", "reverse")]
    if len(sorts) != 1:
        rep.violation("R08.5", fi.key, f"{len(sorts)} sorting calls on the to_dict generation path", "exactly one sort (sort_keys) is expected", loc=fi.loc)
        return
    s = sorts[0]
    keyf = next((k.value for k in s.keywords if k.arg == "key"), None)
    # guarded by sort_keys
    guarded = False
    for n in walk_no_nested(fi.node):
        if isinstance(n, ast.If) and "sort_keys" in ast.unparse(n.test) and any(x is s for b in n.body for x in ast.walk(b)):
            guarded = not any(isinstance(t, ast.UnaryOp) for t in [n.test])
    by_name = isinstance(keyf, ast.Lambda) and ast.unparse(keyf.body) == f"{keyf.args.args[0].arg}[0]"
    inst = f"sorted({ast.unparse(s.args[0]) if s.args else ''}, key={ast.unparse(keyf) if keyf else None}) guarded_by_sort_keys={guarded}"
    if guarded and by_name and "reverse" not in [k.arg for k in s.keywords]:
        rep.ok("R08.5", inst, {"sort": inst})
    else:
        rep.violation("R08.5", fi.key, inst, "keys must be ordered by field name iff sort_keys is set (and not otherwise)", loc=fi.loc)


_ADDENDUM = ' R08.6: direction discipline -- a function of the serialization half never refers to a helper of the deserialization half (128 mirrored identifiers) and vice versa. R08.7: the text that stands for a field default in the omit_default comparison denotes the default (by-identity binding, or a rendering that round-trips under its guard).'
EXPLANATION += _ADDENDUM
LEVEL_TEXT += _ADDENDUM
_ADD2 = ' R08.8: contracts of get_config (own vs inherited Config, completion of a non-BaseConfig Config) and is_code_generation_option_enabled, evaluated on their own bodies.'
EXPLANATION += _ADD2
LEVEL_TEXT += _ADD2
_ADD3 = " Borrowed: R09.6 (dataclass_fields: the nearest ancestor's Field wins; a bare re-annotation drops the inherited Field)."
EXPLANATION += _ADD3
LEVEL_TEXT += _ADD3
_ADD21 = ' Borrowed: R19.6 (flag forwarding), R13.1 (Dialect.merge).'
EXPLANATION += _ADD21
LEVEL_TEXT += _ADD21
_ADD22 = ' Borrowed: R14.8 / R14.9.'
EXPLANATION += _ADD22
LEVEL_TEXT += _ADD22


_run_before_r5 = run


def run(repo, rep, tier):  # noqa: F811 -- round-5 shape rules appended to the rules above
    _run_before_r5(repo, rep, tier)
    if getattr(rep, "borrowed", False):
        return
    from ..core import round5 as _r5
    from ..core.report import Only as _O5
    from . import c16 as _c16b
    _c16b.run(repo, _O5(rep, {"R16.1"}), tier)
    _r5.annotation_scans(repo, rep, "R09.8")
    rep.floor("R09.8", 20)
    _r5.metadatas_contract(repo, rep, "R09.9")


_ADDR5B = ' Borrowed: R09.8: isinstance tests for the Annotated markers (Alias, Discriminator, JSON Schema constraints) are applied to the variable of a scan over the whole metadata sequence, so a marker is honoured at any position. R09.9 (CodeBuilder.metadatas is exactly {name: Field.metadata}).'
EXPLANATION += _ADDR5B
LEVEL_TEXT += _ADDR5B
_ADDR5D = ' Borrowed: R16.1 (aliases are spliced into the key-assignment lines through repr, so the emitted key is the alias verbatim).'
EXPLANATION += _ADDR5D
LEVEL_TEXT += _ADDR5D


_run_before_r6b = run


def run(repo, rep, tier):  # noqa: F811 -- round-6 remedies (core/round6.py)
    _run_before_r6b(repo, rep, tier)
    if getattr(rep, "borrowed", False):
        return
    from ..core import round6 as _r6b
    _r6b.shared_options_read_through_chain(repo, rep, "R08.9")
    _r6b.nullability_sites_agree(repo, rep, "R08.10")
    _r6b.omit_default_comparison(repo, rep, "R08.11")


_ADDR6C = ' R08.9: options declared by both Dialect and BaseConfig are read through get_dialect_or_config_option only. R08.10: the four could_be_none decisions (field packer/unpacker, codec encode/decode) carry the same disjuncts (Any/None on the annotated type, unconstrained TypeVar, Optional). R08.11: the omit_default guard is a comparison with the default, never truthiness.'
EXPLANATION += _ADDR6C
LEVEL_TEXT += _ADDR6C


_run_before_r7df = run


def run(repo, rep, tier):  # noqa: F811 -- round 7: CodeBuilder.dataclass_fields evaluated on inheritance shapes (typepreds.py)
    _run_before_r7df(repo, rep, tier)
    if getattr(rep, "borrowed", False):
        return
    from ..core import typepreds as _tp7df
    _tp7df.builder_method_cases(repo, rep, "R07.9")


_ADDR7DF = (" R07.9: CodeBuilder.dataclass_fields is interpreted from its own source (type-level evaluator, stub builder) on six inheritance shapes "
            "-- two dataclass bases, an own Field, a bare re-annotation, a finished dataclass, a diamond, no ancestor -- and must return, per "
            "name, the Field object of the nearest declaring ancestor, as dataclasses itself does.")
EXPLANATION += _ADDR7DF
LEVEL_TEXT += _ADDR7DF


_run_before_r7a = run


def run(repo, rep, tier):  # noqa: F811 -- round-7 remedies / borrowings
    _run_before_r7a(repo, rep, tier)
    if getattr(rep, "borrowed", False):
        return
    from ..core import round5 as _r5r7
    _r5r7.helper_call_flags(repo, rep, "R19.10")


_ADD_R7A = ' Borrowed: R19.10 (every rendered call of a flag-taking helper -- including the recursive re-entry of a union packer -- forwards get_pack_method_flags(), so omit_none / by_alias / dialect reach nested levels).'
EXPLANATION += _ADD_R7A
LEVEL_TEXT += _ADD_R7A


_run_before_r7s = run


def run(repo, rep, tier):  # noqa: F811 -- round-7 remedies / borrowings
    _run_before_r7s(repo, rep, tier)
    if getattr(rep, "borrowed", False):
        return
    from ..core import round7 as _r7s
    _r7s.nullability_on_substituted_type(repo, rep, "R05.17")


_ADD_R7S = ' Borrowed: R05.17 (the None guard / omit_none of a TypeVar field follows the substituted type).'
EXPLANATION += _ADD_R7S
LEVEL_TEXT += _ADD_R7S
