"""C15 -- All entry points agree."""

from __future__ import annotations

import ast
import re
from typing import Dict, List, Optional, Set, Tuple

from ..core import corpus as corpus_mod, siblings
from ..core.report import Report
from ..core.skeleton import MARK
from ..core.srcmodel import AnalysisError, M_BUILDER, M_CODEC_BUILDER, M_PACK, M_UNPACK, Repo, walk_no_nested
from ..core.values import Hole, Sym, Tmpl, show

TECHNIQUE = "fork comparison of the mixin (nailed) and codec (holder) arms of every generator path; who-may-write analysis of setattr targets; shape rules for one-shot functions and the codec shortcut"
EXPLANATION = (
    "R15.1 one generator, two addressings: for every helper generator (union / literal / TypedDict / NamedTuple packers and "
    "unpackers, discriminated unions) the generator paths are paired by their atom valuation with is_nailed flipped; after "
    "normalising addressing (self/cls vs holder name, @classmethod, first parameter) and the error class of helper-level "
    "failures, both arms must emit the same statements with the same converter holes. R15.2 who may write: on codec paths "
    "every setattr target is a holder object (_cls / AttrsHolder / decoder_obj / encoder_obj), never a schema class; on mixin "
    "paths it is cls. R15.3: public and internal mixin names are bound to the same function. R15.4: the one-shot "
    "encode/decode functions construct the very Encoder/Decoder of their module per call (no shared state). R15.5: the codec "
    "shortcut installs a helper directly only for `<callable>(value)` without pre/post function. R15.6: builders for nested "
    "dataclasses carry the current builder's identity. R15.7: generated aliases of nested classes are module-qualified."
)
LEVEL_TEXT = EXPLANATION
LEVEL_NOTE = "Not decided: equality of results value by value; the elementwise law for composite shapes follows from R15.1 only at template level."
ASSUMPTIONS = ["mixin and codec entry points run the same registries (Registry.get is shared)"]

PAIRED = ("pack.pack_union", "pack.pack_literal", "pack.pack_typed_dict", "unpack.unpack_named_tuple", "unpack.unpack_typed_dict",
          "unpack.UnionUnpackerBuilder", "unpack.TypeVarUnpackerBuilder", "unpack.LiteralUnpackerBuilder")


def _norm_line(t: Tmpl) -> Optional[str]:
    parts = []
    for p in t.parts:
        if isinstance(p, str):
            parts.append(p)
        else:
            nm = show(p.val)
            if re.search(r"(self_attrs_name|cls_attrs_name|attrs_registry_name)$", nm):
                parts.append("ADDR")
            elif "random_hex" in nm or "uuid" in nm:
                parts.append("HEX")
            else:
                parts.append("{" + re.sub(r"\d+", "N", nm) + "}")
    s = "".join(parts)
    if s.strip() == "@classmethod":
        return None
    s = re.sub(r"^(\s*def \S+?)\((self|cls), value", r"\1(value", s)
    s = re.sub(r"^(\s*)raise InvalidFieldValue\(.*\)$", r"\1RAISE", s)
    s = re.sub(r"^(\s*)raise ValueError\(value\)$", r"\1RAISE", s)
    s = re.sub(r"\bADDR\.", "", s)
    s = s.replace("setattr(ADDR,", "setattr(HOLDER,").replace("setattr(cls,", "setattr(HOLDER,")
    return s


def run(repo: Repo, rep: Report, tier: str) -> None:
    c = corpus_mod.explore_all(repo, tier)
    for e in c.errors:
        rep.undecide("corpus", e)
    # ---- R15.1 fork comparison
    n_pairs = 0
    for scen in PAIRED:
        groups: Dict[Tuple, Dict[bool, Set[str]]] = {}
        rows = []
        for it in c.items:
            if it.scenario != scen or it.kind != "buffer" or not it.compiled:
                continue
            text = "\n".join(x for x in (_norm_line(l.tmpl) for l in it.lines) if x is not None)
            for w in it.path.worlds():
                nailed = w.get("A|bool(B.is_nailed)")
                if nailed is None:
                    continue
                rows.append((bool(nailed), w, text))
        # facts consulted on both arms identify "the same configuration"
        common = None
        for arm in (True, False):
            ks = None
            for nl, w, _ in rows:
                if nl == arm:
                    ks = set(w) if ks is None else ks & set(w)
            common = ks if common is None else (common & ks if ks is not None else common)
        common = (common or set()) - {"A|bool(B.is_nailed)"}
        for nl, w, text in rows:
            key = tuple(sorted((k, repr(w[k])) for k in common))
            groups.setdefault(key, {}).setdefault(nl, set()).add(text)
        for key, arms in groups.items():
            if True in arms and False in arms:
                n_pairs += 1
                if arms[True] == arms[False]:
                    rep.ok("R15.1", f"{scen}: mixin and codec arms agree #{n_pairs}", None, nontrivial=False)
                else:
                    a = sorted(arms[True])[0]
                    b = sorted(arms[False])[0]
                    diff = [(x, y) for x, y in zip(a.splitlines(), b.splitlines()) if x != y][:3]
                    rep.violation("R15.1", f"{M_PACK if scen.startswith('pack') else M_UNPACK}::{scen.split('.', 1)[1]}", f"{scen}: mixin and codec arms differ",
                                  "apart from addressing (self/cls vs holder) and the helper-level error class, the code generated for the mixin and "
                                  f"for the codec entry point must be the same; first differences: {diff}", mixin=a[:700], codec=b[:700])
        if not any(True in a and False in a for a in groups.values()):
            rep.undecide("R15.1", f"no (mixin, codec) path pairs found for {scen}")
    rep.distinct.add(("R15.1", f"{n_pairs} paired generator paths"))
    rep.analysed["fork_pairs"] = n_pairs
    rep.floor("R15.1", 30)

    # ---- R15.2 who may write
    seen = set()
    for it in c.items:
        if it.kind != "buffer":
            continue
        nailed = it.path.atoms.get("bool(B.is_nailed)")
        for l in it.lines:
            sk = l.tmpl.skeleton().strip()
            if not sk.startswith("setattr("):
                continue
            first = l.tmpl.parts[1] if len(l.tmpl.parts) > 1 and isinstance(l.tmpl.parts[1], Hole) and l.tmpl.parts[0] == "setattr(" else None
            target = show(first.val) if first is not None else l.tmpl.show()[len("setattr("):].split(",")[0]
            k = (l.site[0], target, nailed)
            if k in seen:
                continue
            seen.add(k)
            tags = set(first.val.tags) if first is not None else set()
            is_holder = target in ("_cls", "decoder_obj", "encoder_obj") or target.endswith(("cls_attrs_name", "self_attrs_name")) or bool(re.fullmatch(r"attrs_\w+", target))
            inst = f"{l.site[0].split('::')[-1]}: setattr({target}, ...) nailed={nailed}"
            if {"TYPEREF_ID", "TYPEREF_RAW", "CLASSNAME"} & tags:
                rep.violation("R15.2", l.site[0], inst, "generated code writes an attribute on a schema class referenced by name: creating a codec would change what an existing class does")
            elif target == "cls" and nailed is False and "CodecCodeBuilder" not in l.site[0]:
                rep.violation("R15.2", l.site[0], inst, "on the codec path methods must be parked on holder objects, not on the user's class")
            elif target == "cls" or is_holder:
                rep.ok("R15.2", inst, None)
            else:
                rep.undecide("R15.2", f"unclassified setattr target `{target}` at {l.site[0]}")
    rep.floor("R15.2", 8)
    # python-level setattr in the generator modules: only on spec.attrs / holder objects
    for mod in (M_PACK, M_UNPACK):
        for fi in repo.module_funcs(mod):
            for n in walk_no_nested(fi.node):
                if isinstance(n, ast.Call) and ast.unparse(n.func) == "setattr" and n.args:
                    tgt = ast.unparse(n.args[0])
                    if tgt in ("spec.attrs", "variants_attr_holder"):
                        rep.ok("R15.2", f"{fi.qualname}: setattr({tgt}, ...) at generation time", None)
                    else:
                        rep.violation("R15.2", fi.key, f"setattr({tgt}, ...) at generation time", "generation-time writes must go to spec.attrs (the class being compiled or its holder)", loc=fi.loc)

    # ---- R15.3 public == internal
    okpub = 0
    for it in c.items:
        if it.scenario not in ("pack_method", "unpack_method") or it.bid != "main":
            continue
        sa = [l.tmpl for l in it.lines if l.tmpl.skeleton().startswith("setattr(cls, ")]
        if len(sa) == 2:
            rhs = [t.show().rsplit(", ", 1)[1] for t in sa]
            if rhs[0] == rhs[1]:
                okpub += 1
            else:
                rep.violation("R15.3", f"{M_BUILDER}::CodeBuilder._add_setattr_method", f"public name bound to {rhs[1]} but internal name to {rhs[0]}", "the public mixin method must be the very function installed under the internal name")
    if okpub:
        rep.ok("R15.3", f"public and internal names share one function object ({okpub} paths)", None)
    else:
        rep.undecide("R15.3", "no path installs both names")

    _oneshot(repo, rep)
    _read_before_install(repo, rep)
    _shortcut(repo, rep)
    siblings.check_nested_builders(repo, rep, "R15.6")
    _aliases(repo, rep)
    from ..core import direction
    direction.report(repo, rep, "R15.8")
    # rules of sibling properties that are necessary conditions of this one as well (same rule ids)
    from ..core.report import Only
    from . import c19 as _c19
    _c19._declared_hook(repo, Only(rep, {"R19.4"}))
    from ..core import siblings as _sib2
    _sib2.check_own_method_tests(repo, rep, "R14.11")
    from ..core import siblings as _sib3
    _sib3.check_guard_mirror(repo, rep, "R15.10")
    from ..core.report import Only as _OnlyX
    from ..core import corpus as _corpusX
    from ..core import helper_contracts as _hcx
    from . import c13 as _c13x, c14 as _c14x, c03 as _c03x
    _hcx.report(repo, rep, "R09.6", _hcx.dataclass_fields_contract(repo), "mashumaro.core.meta.code.builder::CodeBuilder.dataclass_fields")
    _c13x._slots(repo, _OnlyX(rep, {"R13.3"}), _corpusX.explore_all(repo, tier))
    _c14x.run(repo, _OnlyX(rep, {"R14.4"}), tier)
    _c03x.run(repo, _OnlyX(rep, {"R03.1"}), tier)

def _read_before_install(repo: Repo, rep: Report) -> None:
    """R15.9: the codec (non-nailed) branch of pack_dataclass / unpack_dataclass binds the nested class's compiled
    method *object* at generation time (`getattr(spec.attrs, method_name)`).  That read is legitimate only when the
    method is already installed (the holder defines it, or a nested builder has just compiled it).  On the path where
    the nested compilation is skipped because the type is the class being compiled (self-reference) the method is
    installed only when the current compilation ends: the mixin branch looks it up at call time, the codec branch must
    not read it earlier either, or BasicEncoder(Node) fails where Node-with-mixin works."""
    import ast as _ast

    from ..core.pe import Path
    from ..core.scen import make_eval, symbolic_spec
    from ..core.srcmodel import M_PACK, M_UNPACK
    from ..core.values import Const, Func, Sym, V, show

    dummy = _ast.parse("f(x)").body[0].value
    for mod, fn, meth in ((M_PACK, "pack_dataclass", "add_pack_method"), (M_UNPACK, "unpack_dataclass", "add_unpack_method")):
        ev = make_eval(repo, inline_depth=2, assume=[(re.compile(r"is_dataclass\(spec\.origin_type\)"), True), (re.compile(r"B\.is_nailed"), False),
                                                     (re.compile(r"get_discriminator|\.discriminator"), False)])
        def compiled(pe, recv, a, kw, q, e, meth=meth):
            q.events.append(("nested_compile", meth))
            return [(Const(None), q)]
        ev.models[f"method:{meth}"] = compiled
        p = Path()
        spec = symbolic_spec(ev, p)
        fi = repo.func(mod, fn)
        res = ev.call_func(Func(fi), [spec], {}, p, dummy, force=True)
        n = 0
        for v, q in res:
            if q.ctl == "raise":
                continue
            reads = [e for e in q.events if e and e[0] == "ensure_object" and isinstance(e[1], V) and show(e[1]).startswith("getattr(spec.attrs")]
            for w in q.worlds():
                at = Path._view(w, "A|")
                idn = Path._view(w, "I|")
                defines = next((b for k, b in at.items() if "get_class_that_defines_method(" in k and "== spec.attrs" in k), None)
                guarded = next((b for k, b in at.items() if "hasattr(spec.attrs" in k), None)
                selfref = idn.get("spec.origin_type") == "B.cls"
                compiled_now = any(e and e[0] == "nested_compile" for e in q.events)
                label = f"{fn}[holder defines method={defines}, self-reference={selfref}, nested compile={compiled_now}, hasattr guard={guarded}]"
                n += 1
                if not reads:
                    rep.ok("R15.9", f"{label}: the method is looked up at call time ({show(v)[:60]})", None)
                elif defines is True or compiled_now or guarded is True:
                    rep.ok("R15.9", f"{label}: the method object is read after it was installed", None)
                else:
                    rep.violation("R15.9", fi.key, f"{fn}: generation-time read of `{show(reads[0][1])[:60]}` on the self-reference path",
                                  "a self-referencing plain dataclass cannot be used through codecs (AttributeError while the encoder is built) although the same class works "
                                  "under a mixin holder: the entry points disagree", loc=fi.loc)
        if n < 3:
            rep.undecide("R15.9", f"{fn}: only {n} codec-branch outcomes")


def _oneshot(repo: Repo, rep: Report) -> None:
    n = 0
    for mod in ("basic", "json", "orjson", "yaml", "msgpack", "toml"):
        m = f"mashumaro.codecs.{mod}"
        mi = repo.module(m)
        classes = {c.name for c in repo.classes.values() if c.module == m}
        for fi in repo.module_funcs(m):
            if fi.cls or not re.search(r"(^|_)(decode|encode)$", fi.node.name):
                continue
            n += 1
            body = [s for s in fi.node.body if not (isinstance(s, ast.Expr) and isinstance(s.value, ast.Constant))]
            ok = len(body) == 1 and isinstance(body[0], ast.Return)
            txt = ast.unparse(body[0]) if body else ""
            kind = "Decoder" if "decode" in fi.node.name else "Encoder"
            mm = re.fullmatch(rf"return (\w*{kind})\(shape_type(?:, (\w+)=\2)?\)\.(decode|encode)\((data|obj)\)", " ".join(txt.split()))
            if ok and mm and mm.group(1) in classes and mm.group(3) == ("decode" if kind == "Decoder" else "encode"):
                rep.ok("R15.4", f"{m}.{fi.node.name}: fresh {mm.group(1)}(shape_type) per call", None)
            else:
                rep.violation("R15.4", fi.key, f"{fi.node.name} body `{txt[:90]}`", "a one-shot function must build its module's own Encoder/Decoder for exactly this shape_type and use it once: "
                              "anything else (caches keyed by the type, shared codecs) makes one call depend on earlier ones", loc=fi.loc)
    if n < 10:
        rep.error(f"R15.4: only {n} one-shot functions found")


def _shortcut(repo: Repo, rep: Report) -> None:
    mi = repo.module(M_CODEC_BUILDER)
    pat = None
    for node in mi.tree.body:
        if isinstance(node, ast.Assign) and ast.unparse(node.targets[0]) == "CALL_EXPR" and isinstance(node.value, ast.Call) and node.value.args:
            try:
                pat = ast.literal_eval(node.value.args[0])
            except Exception:
                pat = None
    if not isinstance(pat, str):
        rep.undecide("R15.5", "CALL_EXPR pattern not found")
        return
    import re._parser as sre  # type: ignore

    tree = list(sre.parse(pat))
    ops = [str(op) for op, _ in tree]
    anchored = ops and ops[0] == "AT" and ops[-1] == "AT"
    groups = sre.parse(pat).state.groups - 1
    lit = "".join(chr(av) for op, av in tree if str(op) == "LITERAL")
    sub = next((av for op, av in tree if str(op) == "SUBPATTERN"), None)
    group_ok = False
    if sub is not None:
        inner = list(sub[3])
        if len(inner) == 1 and str(inner[0][0]) == "MAX_REPEAT":
            item = list(inner[0][1][2])
            # [^ ]+  : a negated set (no space)
            group_ok = inner[0][1][0] >= 1 and len(item) == 1 and (
                (str(item[0][0]) == "NOT_LITERAL" and item[0][1] in (32, 40))
                or (str(item[0][0]) == "IN" and any(str(x[0]) == "NEGATE" for x in item[0][1])))
    if anchored and groups == 1 and lit == "(value)" and group_ok:
        rep.ok("R15.5", f"CALL_EXPR `{pat}` matches only `<no-space callable>(value)`", None)
    else:
        rep.violation("R15.5", f"{M_CODEC_BUILDER}::CALL_EXPR", f"pattern `{pat}`", "the shortcut may install a helper directly only when the whole expression is one call whose only argument is `value`")
    for meth, fn in (("add_decode_method", "pre_decoder_func"), ("add_encode_method", "post_encoder_func")):
        fi = repo.func(M_CODEC_BUILDER, f"CodecCodeBuilder.{meth}")
        guard = [n for n in walk_no_nested(fi.node) if isinstance(n, ast.If) and ast.unparse(n.test) == f"{fn} is None" and "CALL_EXPR.match" in ast.unparse(n)]
        if guard:
            rep.ok("R15.5", f"{meth}: shortcut only without {fn}", None)
        else:
            rep.violation("R15.5", fi.key, f"{meth}: shortcut not guarded by `{fn} is None`", "with a pre/post function the wrapper must stay", loc=fi.loc)


def _aliases(repo: Repo, rep: Report) -> None:
    n = 0
    for mod in (M_PACK, M_UNPACK):
        for fi in repo.module_funcs(mod):
            for node in walk_no_nested(fi.node):
                if isinstance(node, ast.Assign) and isinstance(node.targets[0], ast.Name) and "alias" in node.targets[0].id and "type_name(" in ast.unparse(node.value):
                    n += 1
                    short = any(isinstance(c, ast.Call) and ast.unparse(c.func) == "type_name" and any(k.arg == "short" and not (isinstance(k.value, ast.Constant) and k.value.value is False) for k in c.keywords)
                                for c in ast.walk(node.value))
                    inst = f"{fi.qualname}: {ast.unparse(node)[:80]}"
                    if short:
                        rep.violation("R15.7", fi.key, inst, "the generated alias of a nested class is not module-qualified: two classes with the same name in different modules "
                                      "share one alias in the generated namespace (setdefault keeps the first)", loc=fi.loc)
                    else:
                        rep.ok("R15.7", inst, None)
    if n < 2:
        rep.error(f"R15.7: only {n} alias definitions found")


_ADDENDUM = ' R15.8: direction discipline (as R08.6). Borrowed: R19.4 (hooks are looked up on the class, not on the attrs holder, so the codec path runs them too).'
EXPLANATION += _ADDENDUM
LEVEL_TEXT += _ADDENDUM
_ADD6 = ' Borrowed: R14.11.'
EXPLANATION += _ADD6
LEVEL_TEXT += _ADD6
_ADD11 = ' R15.10: the guards of nested compilations in pack.py and unpack.py are mirror images of each other.'
EXPLANATION += _ADD11
LEVEL_TEXT += _ADD11
_ADD22 = ' Borrowed: R09.6, R13.3, R14.4, R03.1.'
EXPLANATION += _ADD22
LEVEL_TEXT += _ADD22


_run_before_r5 = run


def run(repo, rep, tier):  # noqa: F811 -- round-5 shape rules appended to the rules above
    _run_before_r5(repo, rep, tier)
    if getattr(rep, "borrowed", False):
        return
    from ..core import round5 as _r5
    from ..core.report import Only as _O5
    from . import c13 as _c13b
    _c13b._codecs(repo, _O5(rep, {"R13.5"}))
    _r5.codec_wrapper_shape(repo, rep, "R15.11")


_ADDR5B = " R15.11: the codec encode / decode wrapper returns exactly the registry expression of the root shape (assigned once from <Registry>.get(ValueSpec(type=shape_type, expression='value', could_be_none=could_be_none))), wrapped once in the post-encoder when there is one; nothing is spliced around it."
EXPLANATION += _ADDR5B
LEVEL_TEXT += _ADDR5B
_ADDR5D = ' Borrowed: R13.5.'
EXPLANATION += _ADDR5D
LEVEL_TEXT += _ADDR5D


_run_before_r6b = run


def run(repo, rep, tier):  # noqa: F811 -- round-6 remedies (core/round6.py)
    _run_before_r6b(repo, rep, tier)
    if getattr(rep, "borrowed", False):
        return
    from ..core import round6 as _r6b
    _r6b.format_endpoints_agree(repo, rep, "R15.12")
    _r6b.dispatcher_paths_agree(repo, rep, "R13.12")
    _r6b.flag_lists_owned(repo, rep, "R19.11")
    _r6b.codec_dialect_merge_order(repo, rep, "R04.7")


_ADDR6C = " R15.12: the codec module's default encoder/decoder and the mixin module's are the same call for each format. Borrowed: R13.12, R19.11, R04.7."
EXPLANATION += _ADDR6C
LEVEL_TEXT += _ADDR6C


_run_before_r6c = run


def run(repo, rep, tier):  # noqa: F811 -- round-6 remedies, batch 3
    _run_before_r6c(repo, rep, tier)
    if getattr(rep, "borrowed", False):
        return
    from ..core import round6 as _r6c
    _r6c.codec_binds_from_attrs(repo, rep, "R10.9")


_ADDR6D = ' Borrowed: R10.9.'
EXPLANATION += _ADDR6D
LEVEL_TEXT += _ADDR6D


_run_before_r7df = run


def run(repo, rep, tier):  # noqa: F811 -- round 7: CodeBuilder.dataclass_fields evaluated on inheritance shapes (typepreds.py)
    _run_before_r7df(repo, rep, tier)
    if getattr(rep, "borrowed", False):
        return
    from ..core import typepreds as _tp7df
    _tp7df.builder_method_cases(repo, rep, "R07.9")


_ADDR7DF = (" R07.9: CodeBuilder.dataclass_fields is interpreted from its own source (type-level evaluator, stub builder) on six inheritance shapes "
            "-- two dataclass bases, an own Field, a bare re-annotation, a finished dataclass, a diamond, no ancestor -- and must return, per "
            "name, the Field object of the nearest declaring ancestor, as dataclasses itself does.")
EXPLANATION += _ADDR7DF
LEVEL_TEXT += _ADDR7DF


_run_before_r7a = run


def run(repo, rep, tier):  # noqa: F811 -- round-7 remedies / borrowings
    _run_before_r7a(repo, rep, tier)
    if getattr(rep, "borrowed", False):
        return
    from ..core import round7 as _r7
    _r7.root_pack_specs_carry_no_copy(repo, rep, "R18.10")


_ADD_R7A = " Borrowed: R18.10 (the codec's root spec and the dataclass field's root spec both carry the dialect's no_copy_collections)."
EXPLANATION += _ADD_R7A
LEVEL_TEXT += _ADD_R7A
