"""C06 -- Generated JSON Schema accepts everything the serializer produces."""

from __future__ import annotations

import ast
import collections
import collections.abc
import datetime
import decimal
import enum
import fractions
import ipaddress
import os
import re
import types
import typing
import uuid
import zoneinfo
from typing import Any, Dict, List, Optional, Tuple

from ..core.dispatch import Entry, catalogue
from ..core.pe import Path
from ..core.report import Report
from ..core.scen import make_eval, symbolic_spec
from ..core.schemadisp import SchemaDispatcher, describe
from ..core.srcmodel import AnalysisError, M_BUILDER, M_PACK, M_SCHEMA, Repo, Undecided, walk_no_nested
from ..core.values import Const, Sym, show

TECHNIQUE = "dispatch-table simulation of the schema creator registry joined with the documented result kinds of the packer registry; dominance / sibling / arithmetic rules on schema.py"
EXPLANATION = (
    "R06.1 registry agreement: for every catalogue entry the schema creator registry is partially evaluated in registration "
    "order (nested get_schema resolved recursively) and the resulting schema object must accept the documented basic-form "
    "kind of that type (T-PACK result kinds: integer < number, arrays for sequences/sets/tuples/ChainMap with the element "
    "schema accepting the element kind, objects for mappings with additionalProperties accepting the value kind, anyOf for "
    "Optional); uniqueItems only for set families. R06.2: `required` lists exactly the fields without default / "
    "default_factory under the same (alias) key as `properties`. R06.3: the schema's alias resolution consults the same "
    "sources as the serializer's. R06.4: propertyNames is a string schema. R06.5: enum value lists cover every value the "
    "packer can emit (Flag families). R06.6: minItems <= maxItems for every tuple layout. R06.7: definition names are "
    "injective in (class, module, type arguments). R06.8: Literal value lists keep every listed value (no == de-duplication: "
    "0/False, 1/True). R06.9: the NamedTuple as_dict/as_list decision agrees with the packer's."
)
LEVEL_TEXT = EXPLANATION + " Decides type-level agreement of the two registries and the listed structural clauses; not validation of concrete instances."
LEVEL_NOTE = ("Not decided: validation of concrete instances, `format` keywords, constraint annotations, inlined vs referenced "
              "equivalence beyond R06.7. Trusted base: dispatch.HELPER_MODEL and the result-kind table below (from the README).")
ASSUMPTIONS = ["C02 establishes that each packer emits the documented basic form whose kind is used here"]

STR_TYPES = (datetime.datetime, datetime.date, datetime.time, datetime.timezone, zoneinfo.ZoneInfo, uuid.UUID, decimal.Decimal, fractions.Fraction,
             ipaddress.IPv4Address, ipaddress.IPv6Address, ipaddress.IPv4Network, ipaddress.IPv6Network, ipaddress.IPv4Interface, ipaddress.IPv6Interface,
             bytes, bytearray)


def kind_of(t) -> Any:
    """Documented basic-form kind of a type (T-PACK result kinds)."""
    if t is typing.Any:
        return "any"
    org = typing.get_origin(t)
    if org in (typing.Union, types.UnionType):
        return ("anyOf", [kind_of(a) for a in typing.get_args(t)])
    o = getattr(t, "__origin__", t)
    a = tuple(getattr(t, "__args__", ()) or ())
    if o is type(None):
        return "null"
    if o is bool:
        return "boolean"
    if o is int:
        return "integer"
    if o is float:
        return "number"
    if o is datetime.timedelta:
        return "number"
    try:
        if issubclass(o, enum.Enum):
            return "any"
        if o in STR_TYPES or issubclass(o, (str, os.PathLike)) or o in (re.Pattern, typing.Pattern):
            return "string"
        if issubclass(o, tuple) and hasattr(o, "_fields"):
            return ("array", "any")
        if typing.is_typeddict(o):
            return ("object", "any")
        if issubclass(o, tuple):
            if not a:
                return ("array", "any")
            if len(a) == 2 and a[1] is Ellipsis:
                return ("array", kind_of(a[0]))
            lay = _tuple_layout(a)
            if lay is not None:
                return ("array", "any", lay)
            return ("array", "any")
        if issubclass(o, collections.ChainMap):
            return ("array", ("object", kind_of(a[1]) if len(a) > 1 else "any"))
        if issubclass(o, collections.Counter):
            return ("object", "integer")
        if issubclass(o, collections.abc.Mapping):
            return ("object", kind_of(a[1]) if len(a) > 1 else "any")
        if issubclass(o, collections.abc.Collection):
            return ("array", kind_of(a[0]) if a else "any")
    except TypeError:
        pass
    return "any"


def _tuple_layout(args):
    """(prefix kinds, rest kind or None, suffix kinds) of a tuple layout with Unpack[...] members flattened."""
    prefix, rest, suffix = [], None, []
    for x in args:
        inner = None
        if typing.get_origin(x) is typing.Unpack:
            inner = typing.get_args(x)[0]
        elif getattr(x, "__unpacked__", False):
            inner = x
        if inner is not None:
            ia = tuple(getattr(inner, "__args__", ()) or ())
            io = getattr(inner, "__origin__", inner)
            if not (isinstance(io, type) and issubclass(io, tuple)):
                return None
            if len(ia) == 2 and ia[1] is Ellipsis:
                sub = ([], kind_of(ia[0]), [])
            elif ia == ((),) or not ia:
                sub = ([], None, [])
            else:
                sub = _tuple_layout(ia)
                if sub is None:
                    return None
        elif x is Ellipsis:
            return None
        else:
            sub = ([kind_of(x)], None, [])
        sp, sr, ss = sub
        if rest is None:
            prefix += sp
            if sr is not None:
                rest = sr
                suffix += ss
            else:
                prefix += ss
        else:
            if sr is not None:
                return None  # two variable-length parts: rejected by the packer
            suffix += sp + ss
    return (prefix, rest, suffix)


def _accepts_layout(schema: dict, lay) -> Optional[str]:
    prefix, rest, suffix = lay
    pi = schema.get("prefixItems") or []
    items = schema.get("items")
    lo = len(prefix) + len(suffix)
    hi = None if rest is not None else lo
    if isinstance(schema.get("minItems"), int) and schema["minItems"] > lo:
        return f"minItems {schema['minItems']} exceeds the shortest serialized form ({lo} items)"
    if isinstance(schema.get("maxItems"), int) and (hi is None or schema["maxItems"] < hi):
        return f"maxItems {schema['maxItems']} is below the longest serialized form ({'unbounded' if hi is None else hi} items)"

    def at(j):
        if j < len(pi):
            return pi[j]
        return items if isinstance(items, dict) else None

    for j, k in enumerate(prefix):
        sc = at(j)
        if sc is not None:
            r = accepts(sc, k)
            if r:
                return f"item {j}: {r}"
    span = max(len(pi), len(prefix)) - len(prefix) + len(suffix) + 1
    for m in range(span):
        j = len(prefix) + m
        sc = at(j)
        if sc is None:
            continue
        possible = ([rest] if rest is not None else []) + ([s for i, s in enumerate(suffix) if i <= m] if rest is not None else suffix[m:m + 1])
        for k in possible:
            r = accepts(sc, k)
            if r:
                return f"item {j}: {r}"
    return None


def accepts(schema: Any, kind: Any) -> Optional[str]:
    """None if the described schema accepts every value of ``kind``, else a reason."""
    if not isinstance(schema, dict) or schema.get("<any>") or not schema:
        return None
    if kind == "any":
        if "type" in schema and not schema.get("enum") and False:
            return None
        return None  # value kind unknown: nothing to contradict
    if isinstance(kind, tuple) and kind[0] == "anyOf":
        for k in kind[1]:
            r = accepts(schema, k)
            if r:
                return r
        return None
    if "anyOf" in schema:
        rs = [accepts(s, kind) for s in schema["anyOf"]]
        return None if any(r is None for r in rs) else f"no anyOf branch accepts {kind}: {rs[0]}"
    if "enum" in schema or "const" in schema:
        return None
    st = schema.get("type")
    if st is None:
        return None
    base = kind[0] if isinstance(kind, tuple) else kind
    if not (base == st or (base == "integer" and st == "number")):
        return f"schema type {st!r} does not accept a JSON {base}"
    if base == "array" and isinstance(kind, tuple) and len(kind) == 3:
        return _accepts_layout(schema, kind[2])
    if base == "array" and "items" in schema and isinstance(schema["items"], dict):
        return accepts(schema["items"], kind[1])
    if base == "object" and isinstance(schema.get("additionalProperties"), dict):
        return accepts(schema["additionalProperties"], kind[1])
    return None


EXTRA = [
    Entry("dict[int, str]", dict[int, str], "dict", "intkey"),
    Entry("dict[date, int]", dict[datetime.date, int], "dict", "datekey"),
    Entry("tuple[int, *tuple[str, float], int]", tuple[int, typing.Unpack[tuple[str, float]], int], "unpacktuple", "fixed-inner"),
    Entry("tuple[*tuple[str, float]]", tuple[typing.Unpack[tuple[str, float]]], "unpacktuple", "fixed-inner"),
    Entry("tuple[int, *tuple[str, *tuple[float, ...]]]", tuple[int, typing.Unpack[tuple[str, typing.Unpack[tuple[float, ...]]]]], "unpacktuple", "nested-variadic"),
    Entry("tuple[int, *tuple[str, ...], float]", tuple[int, typing.Unpack[tuple[str, ...]], float], "unpacktuple", "variadic-middle"),
    Entry("tuple[int, *tuple[str, ...]] (builtin star syntax)", tuple[int, *tuple[str, ...]], "unpacktuple", "star-syntax"),
    Entry("tuple[*tuple[int, str], *tuple[float, ...]]", tuple[typing.Unpack[tuple[int, str]], typing.Unpack[tuple[float, ...]]], "unpacktuple", "fixed-then-variadic"),
]


def run(repo: Repo, rep: Report, tier: str) -> None:
    d = SchemaDispatcher(repo)
    unsupported = []
    for e in catalogue(tier) + EXTRA:
        try:
            res = d.schema_of(e)
        except Undecided as ex:
            rep.undecide("R06.1", f"{e.name}: {ex}")
            continue
        descs = []
        for v, q, exc in res:
            if v is None:
                unsupported.append(e.name)
                continue
            descs.append(describe(repo, v, q))
        if not descs:
            continue
        uniq = {repr(x): x for x in descs}
        kind = kind_of(e.type)
        sch = descs[0]
        for sch in uniq.values():  # every generator path's schema must accept the serialized form
            reason = accepts(sch, kind)
            inst = f"{e.name}: serializer emits {kind}, schema {str(sch)[:120]}"
            if reason:
                rep.violation("R06.1", f"{M_SCHEMA}::get_schema", f"{e.name}: {reason}", "the schema rejects the documented serialized form of this type", schema=sch, kind=kind)
            else:
                rep.ok("R06.1", inst, {"type": e.name, "kind": str(kind), "schema": sch})
        # R06.5: a Flag family is closed under |: a list built by iterating the declared members cannot cover it
        if isinstance(e.type, type) and issubclass(e.type, enum.Flag):
            if isinstance(sch, dict) and "enum" in sch:
                rep.violation("R06.5", f"{M_SCHEMA}::on_enum", "enum schema of a Flag family lists only the declared members",
                              "for Flag / IntFlag families the serializer emits combined values (A|B).value that are not among the members: the schema's enum rejects them",
                              loc=repo.func(M_SCHEMA, "on_enum").loc, example=e.name, schema=sch)
            else:
                rep.ok("R06.5", f"{e.name}: schema {sch} is not a member-value list", None)
        # uniqueItems only for sets
        if isinstance(sch, dict) and sch.get("type") == "array":
            is_set = e.family in ("set", "frozenset")
            if bool(sch.get("uniqueItems")) != is_set:
                rep.violation("R06.1", f"{M_SCHEMA}::on_collection", f"{e.name}: uniqueItems={sch.get('uniqueItems')}", "uniqueItems must be set exactly for set families")
        # R06.4 propertyNames
        if isinstance(sch, dict) and isinstance(sch.get("propertyNames"), dict):
            pn = sch["propertyNames"]
            if pn.get("type") not in (None, "string") and "anyOf" not in pn:
                rep.violation("R06.4", f"{M_SCHEMA}::on_collection", "propertyNames is the key type's own schema, not a string schema",
                              "JSON object keys are strings whatever the Python key type: a propertyNames schema of another type rejects every serialized mapping with at least one key",
                              example=e.name, schema=sch, key_schema_type=pn.get("type"))
            else:
                rep.ok("R06.4", f"{e.name}: propertyNames {pn}", None)
        # R06.6 tuple arithmetic
        if isinstance(sch, dict) and isinstance(sch.get("minItems"), int) and isinstance(sch.get("maxItems"), int):
            if sch["minItems"] > sch["maxItems"]:
                rep.violation("R06.6", f"{M_SCHEMA}::on_tuple", "minItems > maxItems for a tuple with an unpacked fixed-size member",
                              f"the schema is unsatisfiable: minItems {sch['minItems']} > maxItems {sch['maxItems']}", example=e.name, schema=sch)
            else:
                rep.ok("R06.6", f"{e.name}: minItems {sch['minItems']} <= maxItems {sch['maxItems']}", None)
    rep.analysed["packable_but_no_schema"] = sorted(set(unsupported))
    rep.notes.append(f"types the packer supports but the schema registry does not (listed, not failed): {sorted(set(unsupported))}")
    rep.floor("R06.1", 120)
    rep.floor("R06.4", 10)
    rep.floor("R06.6", 8)
    rep.floor("R06.5", 1)
    try:
        _dataclass_rules(repo, rep)
    except Undecided as ex:
        rep.undecide("dataclass_rules", str(ex))
    try:
        _enum_literal(repo, rep)
    except Undecided as ex:
        rep.undecide("enum_literal", str(ex))
    try:
        _derive_scope(repo, rep)
    except Undecided as ex:
        rep.undecide("derive_scope", str(ex))
    try:
        _timezone_pattern(repo, rep)
    except Undecided as ex:
        rep.undecide("timezone", str(ex))
    try:
        _owner_option(repo, rep)
    except Undecided as ex:
        rep.undecide("owner_option", str(ex))
    try:
        _override_sibling(repo, rep)
    except Undecided as ex:
        rep.undecide("override_sibling", str(ex))
    try:
        _namedtuple_sibling(repo, rep)
    except Undecided as ex:
        rep.undecide("namedtuple_sibling", str(ex))
    from ..core.report import Only as _OnlyX
    from ..core import corpus as _corpusX
    from . import c14 as _c14x
    _c14x._ownership(repo, _OnlyX(rep, {"R14.8", "R14.9"}))

def _dataclass_rules(repo: Repo, rep: Report) -> None:
    fi = repo.func(M_SCHEMA, "on_dataclass")
    src = ast.unparse(fi.node)
    loop = next((n for n in walk_no_nested(fi.node) if isinstance(n, ast.For) and "instance.fields()" in ast.unparse(n.iter)), None)
    if loop is None:
        rep.undecide("R06.2", "field loop of on_dataclass not found")
        return
    order = {}
    for i, st in enumerate(loop.body):
        t = ast.unparse(st)
        if "f_name = f_instance.alias" in t:
            order["alias"] = i
        if t.startswith("if not has_default") and "required.append(f_name)" in t:
            order["required"] = i
        if t.startswith("properties[f_name] ="):
            order["properties"] = i
    # the alias renaming must apply to every field: a top-level statement of the loop body, not one nested in the branch that
    # generates the schema (fields whose schema is overridden through Config.json_schema["properties"] are renamed too)
    alias_top = [st for st in loop.body if isinstance(st, ast.If) and "f_instance.alias" in ast.unparse(st.test) and any("f_name" in ast.unparse(x) for x in st.body)] + \
                [st for st in loop.body if isinstance(st, ast.Assign) and "f_instance.alias" in ast.unparse(st.value) and ast.unparse(st.targets[0]) == "f_name"]
    alias_any = [n for n in ast.walk(loop) if isinstance(n, ast.Assign) and ast.unparse(n.targets[0]) == "f_name" and "alias" in ast.unparse(n.value)]
    if alias_any and not alias_top:
        rep.violation("R06.2", fi.key, "the alias renaming is nested in a branch of the field loop", "a field whose schema comes from Config.json_schema['properties'] keeps its Python name "
                      "in `properties` / `required` while the serializer emits its alias", loc=fi.loc)
    if set(order) == {"alias", "required", "properties"} and order["alias"] < order["required"] and order["alias"] < order["properties"]:
        rep.ok("R06.2", "required.append(name) iff not has_default, after the alias renaming that also keys `properties`", {"order": order})
    else:
        rep.violation("R06.2", fi.key, f"statement order {order}", "`required` must list exactly the fields without default, under the same (alias) key as `properties`", loc=fi.loc)
    fields = repo.func(M_SCHEMA, "Instance.fields")
    fsrc = " ".join(ast.unparse(fields.node).split())
    if "has_default = f.default is not MISSING or f.default_factory is not MISSING" in fsrc:
        rep.ok("R06.2", "has_default reads both default and default_factory", None)
    else:
        rep.violation("R06.2", fields.key, "has_default", "a field with only a default_factory must not be listed as required (and vice versa)", loc=fields.loc)
    if "if not f or (f and (not f.init))" in fsrc or "if not f or f and (not f.init)" in fsrc or "not f.init" in fsrc:
        rep.ok("R06.2", "init=False fields are not schema properties", None)
    else:
        rep.violation("R06.2", fields.key, "init=False handling", "fields that are not constructor parameters must not be required properties", loc=fields.loc)
    # R06.3 alias sources
    alias = repo.func(M_SCHEMA, "Instance.alias")
    asrc = ast.unparse(alias.node)
    ser = ast.unparse(repo.func(M_BUILDER, "CodeBuilder.__get_field_alias").node)
    srcs_schema = {"metadata": "metadata.get('alias')" in asrc, "annotated": "Alias" in asrc, "config": "aliases" in asrc}
    srcs_ser = {"metadata": "metadata.get('alias')" in ser, "annotated": "Alias" in ser, "config": "aliases" in ser}
    def order(fn):
        pos = {}
        for i, st in enumerate(fn.body):
            t = ast.unparse(st)
            for name, mark in (("metadata", "metadata.get('alias')"), ("annotated", "Alias"), ("config", "aliases")):
                if mark in t and name not in pos:
                    pos[name] = i
        return [k for k, _ in sorted(pos.items(), key=lambda kv: kv[1])]

    o_schema, o_ser = order(alias.node), order(repo.func(M_BUILDER, "CodeBuilder.__get_field_alias").node)
    if srcs_schema == srcs_ser and o_schema != o_ser:
        rep.violation("R06.3", alias.key, f"schema resolves aliases in the order {o_schema}, the serializer in the order {o_ser}",
                      "a field that carries two alias sources gets one name in the document and another in the schema", loc=alias.loc)
    elif srcs_schema == srcs_ser:
        rep.ok("R06.3", f"schema and serializer consult the same alias sources in the same order {o_ser}", None)
    else:
        missing = [k for k in srcs_ser if srcs_ser[k] and not srcs_schema[k]]
        rep.violation("R06.3", alias.key, f"schema alias resolution ignores {missing}", "the schema names the property differently from the key the serializer emits "
                      "(by alias): the document is rejected by additionalProperties / required", loc=alias.loc)
    # R06.7 definition keys
    keys = [n for n in walk_no_nested(fi.node) if isinstance(n, ast.Assign) and ast.unparse(n.targets[0]).startswith("ctx.definitions[")]
    if not keys:
        rep.undecide("R06.7", "no ctx.definitions[...] store in on_dataclass")
    for k in keys:
        kt = ast.unparse(k.targets[0].slice)
        if re.fullmatch(r"instance\.origin_type\.__name__", kt):
            rep.violation("R06.7", fi.key, f"definitions keyed by `{kt}`", "two classes with the same bare name (different modules) or two specialisations of one generic "
                          "dataclass share one definition: the later one overwrites the earlier and both $refs point to it", loc=fi.loc)
        else:
            rep.ok("R06.7", f"definitions keyed by `{kt}`", None)


def _derive_scope(repo: Repo, rep: Report) -> None:
    """R06.10: field-level overrides (metadata: serialize=..., alias, description) belong to the field's own Instance.
    Instance.derive(type=<element type>) keeps `name` and the owner builder (dataclasses.replace), and `metadata` is
    recomputed from (owner, name): unless derive cuts one of the two, the element instances see the field's
    `serialize` callable again and on_type_with_overridden_serialization re-applies its return type at every level."""
    fi = repo.func(M_SCHEMA, "Instance.derive")
    cut = False
    for n in walk_no_nested(fi.node):
        t = ast.unparse(n) if isinstance(n, (ast.Assign, ast.Call, ast.AugAssign)) else ""
        if isinstance(n, ast.Assign) and any(k in ast.unparse(n.targets[0]) for k in ("name", "metadata")):
            cut = True
        if isinstance(n, ast.Call) and isinstance(n.func, ast.Attribute) and n.func.attr in ("setdefault", "pop", "update") and ("name" in t or "metadata" in t or "serialize" in t):
            cut = True
    meta = " ".join(ast.unparse(repo.func(M_SCHEMA, "Instance.metadata").node).split())
    if "self.name and self.__owner_builder" not in meta and "_Instance__owner_builder" not in meta:
        rep.undecide("R06.10", "Instance.metadata is no longer derived from (owner builder, name)")
        return
    if cut:
        rep.ok("R06.10", "Instance.derive cuts the field-level metadata for element instances", None)
    else:
        rep.violation("R06.10", fi.key, "element instances derived from a field inherit the field's metadata (serialize override)",
                      "a field with a callable `serialize` option whose return annotation is a container gets that container type re-applied to its own items at every level: "
                      "the schema nests until the recursion limit and rejects what the serializer emits", loc=fi.loc)


def _override_sibling(repo: Repo, rep: Report) -> None:
    """R06.11: the schema resolves a field's `serialize` override with the same decision list as the packer
    (pack.get_overridden_serialization_method): strategies without a `serialize` entry are skipped, the first one that
    has one wins.  Both functions are partially evaluated over the same abstract strategy lists."""
    import re as _re

    from ..core.schemadisp import INSTANCE
    from ..core.values import Dct, Func, Lst

    dummy = ast.parse("f(x)").body[0].value

    def D(**kw):
        return Dct("dict", {k: (Const(k), v) for k, v in kw.items()})

    scen = {
        "[{deserialize: G}, {serialize: F}]": [D(deserialize=Sym("G")), D(serialize=Sym("F"))],
        "[{serialize: F1}, {serialize: F2}]": [D(serialize=Sym("F1")), D(serialize=Sym("F2"))],
        "[{deserialize: G}]": [D(deserialize=Sym("G"))],
        "[]": [],
    }
    for name, strats in scen.items():
        got = {}
        for side in ("pack", "schema"):
            ev = make_eval(repo, inline_depth=3, allow_inline={"get_overridden_serialization_method"},
                           assume=[(_re.compile(r"__owner_builder"), True)])
            ev.inline_modules = frozenset(set(ev.inline_modules) | {M_SCHEMA})
            ev.models["method:iter_serialization_strategies"] = lambda pe, recv, a, kw, p, e, strats=strats: [(Lst(list(strats)), p)]
            p = Path()
            if side == "pack":
                spec = symbolic_spec(ev, p)
                fc = p.heap[spec.oid]["field_ctx"]
                p.heap[fc.oid]["metadata"] = Dct("dict", {}, name="metadata")
                p.heap[spec.oid]["annotated_type"] = Const(None)
                res = ev.call_func(Func(repo.func(M_PACK, "get_overridden_serialization_method")), [spec], {}, p, dummy, force=True)
            else:
                B = ev.builder_obj(p)
                inst = ev.new_obj(p, INSTANCE, {"type": Sym("T"), "origin_type": Sym("T"), "name": Const("x"), "_Instance__owner_builder": B,
                                                "__owner_builder": B, "metadata": Dct("dict", {}, name="metadata")})
                res = ev.call_func(Func(repo.func(M_SCHEMA, "Instance.get_overridden_serialization_method"), self_v=inst), [], {}, p, dummy, force=True)
            outs = set()
            for v, q in res:
                for w in q.worlds():
                    at = Path._view(w, "A|")
                    outs.add((show(v), tuple(sorted((k, b) for k, b in at.items() if "owner_builder" not in k and "isinstance" not in k))))
            got[side] = outs
        if not got["pack"] or not got["schema"]:
            rep.undecide("R06.11", f"{name}: no outcome")
        elif got["pack"] == got["schema"]:
            rep.ok("R06.11", f"strategies {name}: schema and packer resolve the override identically: {sorted(v for v, _ in got['pack'])}", None)
        else:
            rep.violation("R06.11", f"{M_SCHEMA}::Instance.get_overridden_serialization_method", f"strategies {name}: packer resolves {sorted(got['pack'])}, schema {sorted(got['schema'])}",
                          "the schema describes the type chosen by another serialization override than the one the packer applies (e.g. a higher-priority deserialize-only strategy hides a lower-priority serialize)",
                          loc=repo.func(M_SCHEMA, "Instance.get_overridden_serialization_method").loc)
    rep.floor("R06.11", 4)


def _owner_option(repo: Repo, rep: Report) -> None:
    """R06.12: the schema reads serialization options (namedtuple_as_dict, serialize_by_alias ...) through the owner
    builder's get_dialect_or_config_option -- the very lookup chain the packer uses (call dialect, default dialect,
    Config.dialect, Config) -- and falls back to the given default only without an owner."""
    from ..core.schemadisp import INSTANCE
    from ..core.values import Func

    fi = repo.func(M_SCHEMA, "Instance.get_owner_dialect_or_config_option")
    ev = make_eval(repo, inline_depth=2)
    ev.inline_modules = frozenset(set(ev.inline_modules) | {M_SCHEMA})
    p = Path()
    B = ev.builder_obj(p)
    dummy = ast.parse("f(x)").body[0].value
    outs = set()
    for owner in (B, Const(None)):
        q = p.clone()
        inst = ev.new_obj(q, INSTANCE, {"_Instance__owner_builder": owner, "__owner_builder": owner})
        for v, r in ev.call_func(Func(fi, self_v=inst), [Sym("option"), Sym("default")], {}, q, dummy, force=True):
            if r.ctl != "raise":
                outs.add(("owner" if owner is B else "no owner", show(v)))
    want = {("owner", "B.get_dialect_or_config_option(option, default)"), ("no owner", "default")}
    if outs == want:
        rep.ok("R06.12", "Instance.get_owner_dialect_or_config_option delegates to the owner builder's lookup chain; `default` only without an owner", None)
    else:
        rep.violation("R06.12", fi.key, f"option lookup of the schema: {sorted(outs)}", "the schema must resolve an option exactly as the packer does (call dialect > default dialect > Config.dialect > Config): "
                      "an option set through Config.dialect (namedtuple_as_dict) changes the serialized shape and must change the schema with it", loc=fi.loc)


def _timezone_pattern(repo: Repo, rep: Report) -> None:
    """R06.13: the `pattern` of the timezone schema accepts every string the serializer can emit for a datetime.timezone:
    tzname(None) of a fixed-offset zone is 'UTC' or 'UTC[+-]HH:MM' with HH in 00..23 and MM in 00..59 (offsets are
    strictly within one day).  The regex constant is read from the source and matched against all 2 * 24 * 60 + 1 names."""
    import re as _re

    mi = repo.module(M_SCHEMA)
    pat = None
    for st in mi.tree.body:
        if isinstance(st, ast.Assign) and isinstance(st.targets[0], ast.Name) and st.targets[0].id == "UTC_OFFSET_PATTERN" and isinstance(st.value, ast.Constant):
            pat = st.value.value
    fi = repo.func(M_SCHEMA, "on_timezone")
    if pat is None or "UTC_OFFSET_PATTERN" not in ast.unparse(fi.node):
        rep.undecide("R06.13", "timezone pattern constant not found / not used by on_timezone")
        return
    try:
        rx = _re.compile(pat)
    except _re.error as ex:
        rep.violation("R06.13", f"{M_SCHEMA}::on_timezone", "timezone pattern does not compile", str(ex), loc=fi.loc)
        return
    names = ["UTC"] + [f"UTC{sg}{h:02d}:{m:02d}" for sg in "+-" for h in range(24) for m in range(60) if (h, m) != (0, 0)]
    rejected = [n for n in names if rx.search(n) is None]
    if rejected:
        rep.violation("R06.13", f"{M_SCHEMA}::on_timezone", f"the timezone pattern rejects {len(rejected)} of {len(names)} names the serializer emits (e.g. {rejected[0]}, {rejected[-1]})",
                      "timezone(timedelta(hours=15)) serializes to 'UTC+15:00', which the schema's pattern does not accept", loc=fi.loc, pattern=pat)
    else:
        rep.ok("R06.13", f"timezone pattern {pat!r} accepts all {len(names)} serialized zone names", None)


def _enum_literal(repo: Repo, rep: Report) -> None:
    lit = repo.func(M_SCHEMA, "on_literal")
    loop = next((n for n in walk_no_nested(lit.node) if isinstance(n, ast.For)), None)
    bad = []
    if loop is not None:
        for n in ast.walk(loop):
            if isinstance(n, ast.Compare) and any(isinstance(op, (ast.In, ast.NotIn)) for op in n.ops) and "enum_values" in ast.unparse(n):
                bad.append(ast.unparse(n))
            if isinstance(n, ast.Call) and ast.unparse(n.func) in ("set", "dict.fromkeys"):
                bad.append(ast.unparse(n))
    post = [n for n in walk_no_nested(lit.node) if isinstance(n, ast.Call) and ast.unparse(n.func) in ("set", "dict.fromkeys", "sorted") and "enum_values" in ast.unparse(n)]
    if bad or post:
        rep.violation("R06.8", lit.key, f"literal values de-duplicated by equality (`{(bad + [ast.unparse(p) for p in post])[0][:60]}`)",
                      "Python equates 0 == False and 1 == True, JSON Schema does not: Literal[0, False] loses one of its values and the serialized document is rejected", loc=lit.loc)
    elif loop is None:
        rep.undecide("R06.8", "on_literal has no value loop")
    else:
        rep.ok("R06.8", "every Literal value is listed (no equality-based de-duplication)", None)


def _namedtuple_sibling(repo: Repo, rep: Report) -> None:
    """R06.9: as_dict decision of schema.on_named_tuple == pack_named_tuple (same precedence of the field option over the config option)."""

    def table(tree_fn, opt_var: str) -> Optional[Dict[Tuple, str]]:
        # symbolic evaluation of the straight-line as_dict decision: as_dict = <cfg>; if opt == 'as_dict': True; elif opt == 'as_list': False
        out = {}
        for opt in ("None", "as_dict", "as_list"):
            for cfg in (True, False):
                env = {"as_dict": cfg}
                ok = _run_decision(tree_fn, opt_var, opt, env)
                if ok is None:
                    return None
                out[(opt, cfg)] = str(env["as_dict"])
        return out

    p = table(repo.func(M_PACK, "pack_named_tuple").node, "serialize_option")
    s = table(repo.func(M_SCHEMA, "on_named_tuple").node, "serialize_option")
    if p is None or s is None:
        rep.undecide("R06.9", "cannot evaluate the as_dict decision of pack_named_tuple / on_named_tuple")
        return
    if p == s:
        rep.ok("R06.9", f"as_dict decision table agrees with the packer: {p}", {"table": {str(k): v for k, v in p.items()}})
    else:
        diff = {str(k): (p[k], s[k]) for k in p if p[k] != s[k]}
        rep.violation("R06.9", f"{M_SCHEMA}::on_named_tuple", f"as_dict decision differs from the packer on {sorted(diff)}",
                      f"the serializer emits a {'list' if True else ''}/dict by (packer, schema) = {diff}: the schema describes the other shape", loc=repo.func(M_SCHEMA, "on_named_tuple").loc)


def _run_decision(fn: ast.FunctionDef, opt_var: str, opt: str, env: Dict[str, Any]) -> Optional[bool]:
    """Tiny evaluator for the statements of ``fn`` that assign ``as_dict`` (constant conditions on the option only)."""
    def ev(e: ast.expr):
        if isinstance(e, ast.Constant):
            return e.value
        if isinstance(e, ast.Name):
            if e.id == opt_var:
                return None if opt == "None" else opt
            if e.id == "as_dict":
                return env["as_dict"]
            raise KeyError(e.id)
        if isinstance(e, ast.Compare) and len(e.ops) == 1:
            l, r = ev(e.left), ev(e.comparators[0])
            if isinstance(e.ops[0], ast.Eq):
                return l == r
            if isinstance(e.ops[0], ast.NotEq):
                return l != r
            if isinstance(e.ops[0], ast.IsNot):
                return l is not r
            if isinstance(e.ops[0], ast.Is):
                return l is r
        if isinstance(e, ast.BoolOp):
            vals = [ev(v) for v in e.values]
            if isinstance(e.op, ast.Or):
                for v in vals:
                    if v:
                        return v
                return vals[-1]
            for v in vals:
                if not v:
                    return v
            return vals[-1]
        if isinstance(e, ast.Call) and "get_owner_dialect_or_config_option" in ast.unparse(e.func) or isinstance(e, ast.Call) and "get_dialect_or_config_option" in ast.unparse(e.func):
            return env["as_dict"]
        raise KeyError(ast.unparse(e))

    def run(stmts) -> bool:
        for st in stmts:
            if isinstance(st, ast.Assign) and ast.unparse(st.targets[0]) == "as_dict":
                env["as_dict"] = ev(st.value)
            elif isinstance(st, ast.If) and opt_var in ast.unparse(st.test):
                try:
                    c = ev(st.test)
                except KeyError:
                    return False
                if not run(st.body if c else st.orelse):
                    return False
            elif isinstance(st, ast.Raise):
                return True
        return True

    try:
        return True if run(fn.body) else None
    except KeyError:
        return None
_ADD15 = ' R06.2 also requires the alias renaming to apply to every field (not only to fields whose schema is generated). R06.13: the timezone pattern accepts every zone name the serializer emits (all 2879 enumerated).'
EXPLANATION += _ADD15
LEVEL_TEXT += _ADD15
_ADD22 = ' Borrowed: R14.8 / R14.9 (no module-level caches shared by schema builds).'
EXPLANATION += _ADD22
LEVEL_TEXT += _ADD22


_run_before_r5 = run


def run(repo, rep, tier):  # noqa: F811 -- round-5 shape rules appended to the rules above
    _run_before_r5(repo, rep, tier)
    if getattr(rep, "borrowed", False):
        return
    from ..core import round5 as _r5
    _r5.nonempty_schema_arrays(repo, rep, "R20.9")
    _r5.override_consulted_first(repo, rep, "R06.14")
    _r5.annotation_scans(repo, rep, "R09.8")
    rep.floor("R09.8", 20)


_ADDR5B = ' Borrowed: R20.9 (schemaArray keywords never empty); R06.1 also compares tuple layouts with Unpack members position by position (prefix, variable part, suffix; minItems / maxItems against the shortest / longest serialized form); R06.14: packer, unpacker and schema creators for overridden serialization consult the override look-up before anything else (no type family is exempted on one side only); R09.8: isinstance tests for the Annotated markers (Alias, Discriminator, JSON Schema constraints) are applied to the variable of a scan over the whole metadata sequence, so a marker is honoured at any position.'
EXPLANATION += _ADDR5B
LEVEL_TEXT += _ADDR5B


_run_before_r6b = run


def run(repo, rep, tier):  # noqa: F811 -- round-6 remedies (core/round6.py)
    _run_before_r6b(repo, rep, tier)
    if getattr(rep, "borrowed", False):
        return
    from ..core import round6 as _r6b
    _r6b.numeric_keywords_not_truthy(repo, rep, "R06.15")
    _r6b.own_config_only_sites(repo, rep, "R06.16")


_ADDR6C = ' R06.15: numeric schema keywords are set under `is not None`, never by truthiness. R06.16: get_config(look_in_parents=False) is used by get_discriminator only.'
EXPLANATION += _ADDR6C
LEVEL_TEXT += _ADDR6C


_run_before_r7tp = run


def run(repo, rep, tier):  # noqa: F811 -- round 7: type-level helper contracts borrowed from C02
    _run_before_r7tp(repo, rep, tier)
    if getattr(rep, "borrowed", False):
        return
    from ..core import typepreds as _tp7
    _tp7.model_agreement(repo, rep, "R02.8", tier)
    _tp7.reference_cases(repo, rep, "R02.9")


_ADDR7TP = " Borrowed: R02.8 / R02.9 (the type predicates and type-level helpers, interpreted from their own source over the catalogue types and a reference table, answer as the dispatch model and the documentation say)."
EXPLANATION += _ADDR7TP
LEVEL_TEXT += _ADDR7TP
