"""C04 -- Format codecs are lossless and equal the format encoding of the basic form."""

from __future__ import annotations

import ast
import itertools
import re
from typing import Dict, List, Optional, Set, Tuple

from ..core import corpus as corpus_mod, siblings
from ..core.pe import Path
from ..core.report import Report
from ..core.scen import make_eval
from ..core.srcmodel import AnalysisError, M_BUILDER, M_CONFIG, Repo, walk_no_nested
from ..core.values import Const, Py, Sym, Tmpl, Tup, show

TECHNIQUE = "wiring rules: codec/mixin constructor bodies read as data against a format table, sibling comparison of both directions, injectivity of generated method names, wrapper-only difference between format and dict bodies"
EXPLANATION = (
    "This is the thinnest claim of the set (wiring and naming only). R04.1: every format's decoder and encoder come from "
    "the same library pair with the lossless options of the format table (json.loads/dumps; orjson.loads/dumps; "
    "yaml.load(.., safe loader)/yaml.dump; msgpack.unpackb(raw=False)/packb(use_bin_type=True); tomllib.loads/tomli_w.dumps), "
    "in the codec module, the mixin module and the one-shot functions alike. R04.2: the format dialect is applied on both "
    "directions. R04.3: the format method differs from the dict method only by the encoder(...) wrapper around the "
    "returned mapping / the leading d = decoder(d). R04.4: internal method names and dialect-cache names are pairwise "
    "distinct across formats, directions, encoder presence and generic specialisations. R04.5: every ConfigValue names a "
    "BaseConfig attribute and the public stub names of the mixins are the names the builder installs. R04.6: builders "
    "created for nested / Self-typed dataclasses carry the format name and the format dialect."
)
LEVEL_TEXT = EXPLANATION
LEVEL_NOTE = ("Not decided: everything value-level -- that each library round-trips each value of its representable subset, key-type "
              "restrictions, 64-bit limits, document equality with the basic form.")
ASSUMPTIONS = ["the third-party format libraries are lossless on their documented subsets"]

MIXINS = {
    "mashumaro.mixins.orjson": ("DataClassORJSONMixin", {"packer": ("jsonb", "OrjsonDialect", "orjson.dumps"), "unpacker": ("json", "OrjsonDialect", "orjson.loads")}, {"to_jsonb", "from_json"}),
    "mashumaro.mixins.msgpack": ("DataClassMessagePackMixin", {"packer": ("msgpack", "MessagePackDialect", "default_encoder"), "unpacker": ("msgpack", "MessagePackDialect", "default_decoder")}, {"to_msgpack", "from_msgpack"}),
    "mashumaro.mixins.toml": ("DataClassTOMLMixin", {"packer": ("toml", "TOMLDialect", "tomli_w.dumps"), "unpacker": ("toml", "TOMLDialect", "tomllib.loads")}, {"to_toml", "from_toml"}),
}
HELPERS = {
    ("mashumaro.mixins.msgpack", "default_encoder"): "return msgpack.packb(data, use_bin_type=True)",
    ("mashumaro.mixins.msgpack", "default_decoder"): "return msgpack.unpackb(data, raw=False)",
    ("mashumaro.codecs.msgpack", "_default_encoder"): "return msgpack.packb(data, use_bin_type=True)",
    ("mashumaro.codecs.msgpack", "_default_decoder"): "return msgpack.unpackb(data, raw=False)",
    ("mashumaro.mixins.yaml", "default_encoder"): "return yaml.dump(data, Dumper=DefaultDumper)",
    ("mashumaro.mixins.yaml", "default_decoder"): "return yaml.load(data, DefaultLoader)",
    ("mashumaro.codecs.yaml", "_default_encoder"): "return yaml.dump(data, Dumper=DefaultDumper)",
    ("mashumaro.codecs.yaml", "_default_decoder"): "return yaml.load(data, DefaultLoader)",
}
CODEC_FUNCS = {
    # module -> (decoder class, expected pre-decoder, encoder class, expected post-encoder)
    "mashumaro.codecs.json": ("JSONDecoder", "json.loads", "JSONEncoder", "json.dumps"),
    "mashumaro.codecs.orjson": ("ORJSONDecoder", "orjson.loads", "ORJSONEncoder", "orjson.dumps"),
    "mashumaro.codecs.yaml": ("YAMLDecoder", "_default_decoder", "YAMLEncoder", "_default_encoder"),
    "mashumaro.codecs.msgpack": ("MessagePackDecoder", "_default_decoder", "MessagePackEncoder", "_default_encoder"),
    "mashumaro.codecs.toml": ("TOMLDecoder", "tomllib.loads", "TOMLEncoder", "tomli_w.dumps"),
}


def _builder_params(ci) -> Optional[Dict[str, Dict[str, str]]]:
    for st in ci.node.body:
        if isinstance(st, ast.Assign) and ast.unparse(st.targets[0]).endswith("__mashumaro_builder_params") and isinstance(st.value, ast.Dict):
            out = {}
            for k, v in zip(st.value.keys, st.value.values):
                if isinstance(v, ast.Dict):
                    out[ast.literal_eval(k)] = {ast.literal_eval(a): ast.unparse(b) for a, b in zip(v.keys, v.values)}
            return out
    return None


def run(repo: Repo, rep: Report, tier: str) -> None:
    # ---- R04.1 / R04.2 / R04.5 mixins
    cfg_attrs = {st.target.id for st in repo.cls(M_CONFIG, "BaseConfig").node.body if isinstance(st, ast.AnnAssign)}
    for mod, (cls, want, stubs) in MIXINS.items():
        ci = repo.cls(mod, cls)
        bp = _builder_params(ci)
        if bp is None:
            rep.violation("R04.1", ci.key, f"{cls} has no builder params", "format mixin is not wired")
            continue
        for side, (fmt, dialect, func) in want.items():
            got = bp.get(side, {})
            key = "encoder" if side == "packer" else "decoder"
            inst = f"{cls}.{side}: format={got.get('format_name')} dialect={got.get('dialect')} {key}={got.get(key)}"
            if got.get("format_name") == repr(fmt) and got.get("dialect") == dialect and got.get(key) == func:
                rep.ok("R04.1", inst, None)
            else:
                rep.violation("R04.1", ci.key, inst, f"expected format {fmt!r}, dialect {dialect}, {key} {func}", loc=f"{ci.path}")
        if bp.get("packer", {}).get("dialect") == bp.get("unpacker", {}).get("dialect"):
            rep.ok("R04.2", f"{cls}: same format dialect on both directions", None)
        else:
            rep.violation("R04.2", ci.key, f"{cls}: packer dialect {bp.get('packer', {}).get('dialect')} != unpacker dialect {bp.get('unpacker', {}).get('dialect')}",
                          "what one direction leaves native the other must accept natively")
        # ConfigValue names
        for m in re.finditer(r"ConfigValue\('(\w+)'\)", str(bp)):
            if m.group(1) in cfg_attrs:
                rep.ok("R04.5", f"ConfigValue({m.group(1)!r}) is a BaseConfig attribute", None)
            else:
                rep.violation("R04.5", ci.key, f"ConfigValue({m.group(1)!r})", "names no BaseConfig attribute: compiling the mixin raises AttributeError")
        # public stubs = names the builder installs
        declared = {n.name for n in ci.node.body if isinstance(n, ast.FunctionDef) and any(ast.unparse(d) == "final" for d in n.decorator_list)}
        installs = {f"to_{want['packer'][0]}", f"from_{want['unpacker'][0]}"}
        if installs == stubs and stubs <= declared:
            rep.ok("R04.5", f"{cls}: public stubs {sorted(stubs)} are the installed names", None)
        else:
            rep.violation("R04.5", ci.key, f"{cls}: stubs {sorted(declared)} vs installed {sorted(installs)}", "the public API names must be the names the builder installs")
    for (mod, fn), want in HELPERS.items():
        fi = repo.func(mod, fn)
        body = " ".join(ast.unparse(fi.node.body[-1]).split())
        if body == want:
            rep.ok("R04.1", f"{mod}.{fn}: `{want}`", None)
        else:
            rep.violation("R04.1", fi.key, f"{fn}: `{body}`", f"lossless options of the format table require `{want}`", loc=fi.loc)
    for mod in ("mashumaro.mixins.yaml", "mashumaro.codecs.yaml"):
        src = repo.module(mod).source
        if re.search(r"DefaultLoader\s*=\s*getattr\(yaml,\s*[\"']CSafeLoader[\"'],\s*yaml\.SafeLoader\)", src):
            rep.ok("R04.1", f"{mod}: YAML is read with the safe loader family", None)
        else:
            rep.violation("R04.1", f"{mod}::DefaultLoader", "YAML loader", "documents must be read with yaml.SafeLoader / CSafeLoader")
    # json / yaml mixins: to_x = encoder(self.to_dict(**kw)), from_x = cls.from_dict(decoder(data), **kw)
    for mod, cls, enc, dec in (("mashumaro.mixins.json", "DataClassJSONMixin", "json.dumps", "json.loads"), ("mashumaro.mixins.yaml", "DataClassYAMLMixin", "default_encoder", "default_decoder")):
        for meth, want, dflt in ((f"to_{mod.rsplit('.', 1)[1]}", "return encoder(self.to_dict(**to_dict_kwargs))", enc), (f"from_{mod.rsplit('.', 1)[1]}", "return cls.from_dict(decoder(data), **from_dict_kwargs)", dec)):
            fi = repo.func(mod, f"{cls}.{meth}")
            body = " ".join(ast.unparse(fi.node.body[-1]).split())
            a = fi.node.args
            dv = ast.unparse(a.defaults[0]) if a.defaults else None
            if body == want and dv == dflt:
                rep.ok("R04.3", f"{cls}.{meth} = {'encoder o to_dict' if meth.startswith('to') else 'from_dict o decoder'} (default {dflt})", None)
            else:
                rep.violation("R04.3", fi.key, f"{meth}: `{body}` default {dv}", f"expected `{want}` with default {dflt}", loc=fi.loc)
    # ---- codecs
    for mod, (dcls, dfn, ecls, efn) in CODEC_FUNCS.items():
        for cls, arg, want, meth in ((dcls, "pre_decoder_func", dfn, "add_decode_method"), (ecls, "post_encoder_func", efn, "add_encode_method")):
            init = repo.func(mod, f"{cls}.__init__")
            src = ast.unparse(init.node)
            call = re.search(rf"code_builder\.{meth}\(shape_type, self, ([\w.]+)\)", src)
            third = call.group(1) if call else None
            default = None
            for prm, d in zip(init.node.args.kwonlyargs, init.node.args.kw_defaults):
                if prm.arg == arg and d is not None:
                    default = ast.unparse(d)
            got = default if third == arg else third
            inst = f"{cls}: {meth}(..., {third}) default {default}"
            if got == want:
                rep.ok("R04.1", inst, None)
            else:
                rep.violation("R04.1", init.key, inst, f"the {cls} must use {want}", loc=init.loc)
    rep.floor("R04.1", 20)

    # ---- R04.3 wrapper-only difference (generator level)
    c = corpus_mod.explore_all(repo, tier)
    for e in c.errors:
        rep.undecide("corpus", e)
    by_cfg: Dict[Tuple, Dict[bool, Set[str]]] = {}
    for it in c.items:
        if it.scenario != "pack_lines" or it.bid != "main" or it.path.ctl == "raise":
            continue
        for w in it.path.worlds():
            enc = w.get("A|bool(B.encoder)")
            idn = w.get("I|B.encoder")
            has_enc = (enc is True) or (idn is None and "None" in (w.get("X|B.encoder") or ()))
            no_enc = idn == "None" or enc is False
            if not (has_enc or no_enc):
                continue
            key = tuple(sorted((k, repr(v)) for k, v in w.items() if "B.encoder" not in k))
            ls = [l.tmpl.show() for l in it.lines]
            last = ls[-1] if ls else ""
            m = re.fullmatch(r"return encoder\((.*?)(, \{[^{}]*\}=.*)?\)", last) if has_enc else re.fullmatch(r"return (.*)", last)
            core = m.group(1) if m else "<??> " + last
            by_cfg.setdefault(key, {}).setdefault(bool(has_enc), set()).add("\n".join(ls[:-1]) + "\nRETURN " + core)
    n3 = 0
    for key, arms in by_cfg.items():
        if True in arms and False in arms:
            n3 += 1
            if arms[True] == arms[False]:
                rep.ok("R04.3", f"format body = encoder(dict body) #{n3}", None, nontrivial=False)
            else:
                a, b = sorted(arms[True])[0], sorted(arms[False])[0]
                rep.violation("R04.3", f"{M_BUILDER}::CodeBuilder._add_pack_method_lines", "format body differs from the dict body by more than the encoder wrapper",
                              "to_<format> must be encoder(to_dict under the format dialect)", with_encoder=a[:500], without=b[:500])
    if n3 < 20:
        rep.undecide("R04.3", f"only {n3} (encoder, no encoder) path pairs")
    # unpack: `d = decoder(d)` is the first line iff decoder
    seen = set()
    for it in c.items:
        if it.scenario != "unpack_lines" or it.bid != "main" or it.path.ctl == "raise":
            continue
        ls = [l.tmpl.show() for l in it.lines]
        if not ls or any(l.site[0].endswith("_lines_lazy") for l in it.lines):
            continue
        idn = it.path.ident.get("B.decoder")
        has_dec = idn != "None" and ("None" in it.path.excl.get("B.decoder", ()) or it.path.atoms.get("bool(B.decoder)") is True)
        no_dec = idn == "None"
        if not (has_dec or no_dec):
            continue
        first = ls[0] == "d = decoder(d)"
        k = (has_dec, first)
        if k in seen:
            continue
        seen.add(k)
        if first == has_dec and sum(1 for x in ls if "decoder(d)" in x) == int(has_dec):
            rep.ok("R04.3", f"from_<format> body: decoder present={has_dec}, `d = decoder(d)` first={first}", None)
        else:
            rep.violation("R04.3", f"{M_BUILDER}::CodeBuilder._add_unpack_method_lines", f"decoder present={has_dec} but `d = decoder(d)` first={first}", "from_<format> must be from_dict o decoder")

    _names(repo, rep)
    siblings.check_nested_builders(repo, rep, "R04.6")
    from . import c13

    class _Only:
        def __init__(self, r):
            self._r = r

        def __getattr__(self, n):
            return getattr(self._r, n)

        def ok(self, rule, *a, **k):
            if rule == "R13.3":
                self._r.ok("R04.4", *a, **k)

        def violation(self, rule, *a, **k):
            if rule == "R13.3":
                self._r.violation("R04.4", *a, **k)

        def floor(self, *a):
            pass

    c13._slots(repo, _Only(rep), c)
    # rules of sibling properties that are necessary conditions of this one as well (same rule ids)
    from ..core.report import Only
    from . import c14 as _c14
    _c14._ownership(repo, Only(rep, {"R14.8", "R14.9"}))
    from ..core import siblings as _sib3
    _sib3.check_guard_mirror(repo, rep, "R15.10")
    from ..core.report import Only as _OnlyX
    from ..core import corpus as _corpusX
    from . import c18 as _c18x
    _c18x.run(repo, _OnlyX(rep, {"R18.1"}), tier)

def _names(repo: Repo, rep: Report) -> None:
    """R04.4: injectivity of the internal method names over (direction, format, codec?, specialisation)."""
    names: Dict[str, Tuple] = {}
    n = 0
    for direction, fn, kw in (("pack", "get_pack_method_name", "encoder"), ("unpack", "get_unpack_method_name", "decoder")):
        fi = repo.func(M_BUILDER, f"CodeBuilder.{fn}")
        for fmt in ("dict", "json", "jsonb", "msgpack", "toml", "yaml"):
            for codec in (False, True):
                for typed in (False, True):
                    ev = make_eval(repo, inline_depth=3, allow_inline={fn, "from_public"})
                    p = Path()
                    env = {"cls": Sym("CodeBuilder"), "format_name": Const(fmt), kw: (Py(len, "codec_fn") if codec else Const(None)),
                           "type_args": (Tup([Sym("T1")]) if typed else Tup([]))}
                    paths = ev.run(fi, env, p)
                    rets = {show(q.retv) for q in paths if q.ctl == "return"}
                    if len(rets) != 1:
                        rep.undecide("R04.4", f"{fn}({fmt}, codec={codec}, typed={typed}) has {len(rets)} results")
                        continue
                    name = next(iter(rets))
                    n += 1
                    ident = (direction, fmt, codec if fmt != "dict" else False, typed if not (codec and fmt != "dict") else False)
                    if name in names and names[name] != ident:
                        rep.violation("R04.4", fi.key, f"method name `{name}` for {ident} and {names[name]}",
                                      "two different (direction, format, codec, specialisation) slots share one method name: one format's method overwrites another's", loc=fi.loc)
                    else:
                        names[name] = ident
                        rep.ok("R04.4", f"{ident} -> {name}", None)
    if n < 40:
        rep.error(f"R04.4: only {n} method names computed")
    rep.samples.append({"rule": "R04.4", "names": sorted(names)[:12]})


_ADDENDUM = ' Borrowed: R14.8 / R14.9 (builder inputs such as the shared encoder_kwargs are never mutated in place; per-builder stores are not bound to longer-lived objects).'
EXPLANATION += _ADDENDUM
LEVEL_TEXT += _ADDENDUM
_ADD11 = ' Borrowed: R15.10.'
EXPLANATION += _ADD11
LEVEL_TEXT += _ADD11
_ADD22 = ' Borrowed: R18.1 (no-copy shortcuts only where neither keys nor values need conversion).'
EXPLANATION += _ADD22
LEVEL_TEXT += _ADD22


_run_before_r5 = run


def run(repo, rep, tier):  # noqa: F811 -- round-5 shape rules appended to the rules above
    _run_before_r5(repo, rep, tier)
    if getattr(rep, "borrowed", False):
        return
    from ..core import round5 as _r5
    from ..core.report import Only as _O5
    from . import c07 as _c07b
    _c07b._r07_2(repo, _O5(rep, {"R07.2"}))
    _r5.union_guard_class(repo, rep, "R11.12")


_ADDR5B = " Borrowed: R11.12: pack_union reduces every member type named in the `value.__class__ is/in (...)` guard to its runtime class with get_type_origin() first (no value's class is a generic alias, so a guard naming List[int] never matches)."
EXPLANATION += _ADDR5B
LEVEL_TEXT += _ADDR5B
_ADDR5D = ' Borrowed: R07.2 (the field block stores the decoded value where the constructor call reads it).'
EXPLANATION += _ADDR5D
LEVEL_TEXT += _ADDR5D


_run_before_r6b = run


def run(repo, rep, tier):  # noqa: F811 -- round-6 remedies (core/round6.py)
    _run_before_r6b(repo, rep, tier)
    if getattr(rep, "borrowed", False):
        return
    from ..core import round6 as _r6b
    _r6b.codec_dialect_merge_order(repo, rep, "R04.7")
    _r6b.dispatcher_paths_agree(repo, rep, "R13.12")
    _r6b.format_endpoints_agree(repo, rep, "R15.12")
    _r6b.format_dialect_tables(repo, rep, "R03.8")


_ADDR6C = " R04.7: format codecs merge the user's default_dialect onto the format dialect (`<Format>Dialect.merge(default_dialect)`), encoder and decoder alike. Borrowed: R13.12, R15.12, R03.8."
EXPLANATION += _ADDR6C
LEVEL_TEXT += _ADDR6C


_run_before_r7a = run


def run(repo, rep, tier):  # noqa: F811 -- round-7 remedies / borrowings
    _run_before_r7a(repo, rep, tier)
    if getattr(rep, "borrowed", False):
        return
    from ..core.report import Only as _O7
    from . import c13 as _c13r7
    _c13r7.run(repo, _O7(rep, {"R13.1"}), tier)


_ADD_R7A = ' Borrowed: R13.1 (Dialect.merge: every option of the merged dialect comes from one of the two operands -- the format codecs build their dialect with it).'
EXPLANATION += _ADD_R7A
LEVEL_TEXT += _ADD_R7A
