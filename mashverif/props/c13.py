"""C13 -- Dialects are isolated per call and honoured uniformly by every codec."""

from __future__ import annotations

import ast
import re
from typing import Dict, List, Optional, Set

from ..core import corpus as corpus_mod
from ..core.report import Report
from ..core.skeleton import MARK, Rendered, render
from ..core.srcmodel import AnalysisError, M_BUILDER, M_DIALECT, Repo, walk_no_nested
from ..core.values import Hole, Sym, Tmpl, show

TECHNIQUE = "set/flow rules on Dialect.merge, slot typestate of the dialect caches over all generator paths of add_(un)pack_method, sibling comparison of encoder calls and codec constructors"
EXPLANATION = (
    "R13.1: Dialect.merge transfers every option Dialect declares, on every path (no early return bypasses the transfer). "
    "R13.2: every Dialect option is read through get_dialect_or_config_option. R13.3: on every generator path of "
    "add_pack_method/add_unpack_method a dialect-specific compilation is stored only in cls.<cache>[dialect] (never "
    "setattr on the class), the cache is created in the class's own __dict__ on every path that reads or writes it, and "
    "its name carries the format name, the direction and the specialisation hash. R13.4: the dispatcher looks the cache "
    "up before compiling and returns through the cache entry. R13.5: codecs with a format dialect merge the user's "
    "default_dialect into it on both directions, the others pass it through. R13.6: every `return encoder(...)` of one "
    "builder carries the encoder options iff the builder has them. R13.7: the miss-path CodeBuilder(...) re-instantiation "
    "identifies the same method (class, type arguments, format, default dialect) with only the dialect changed. "
    "R13.8: the dispatcher must not override the call dialect's options with flags defaulted from the dialect-less look-up."
)
LEVEL_TEXT = EXPLANATION
LEVEL_NOTE = ("Not decided: equality of results across call histories as such; the claim is the absence of any shared mutable "
              "slot other than the keyed, per-class, per-format, per-direction, per-specialisation caches.")
ASSUMPTIONS = ["class attributes written by generated setattr / cache lines are the only cross-call state of the library"]

DIALECT_CODECS = {"mashumaro.codecs.orjson": "OrjsonDialect", "mashumaro.codecs.msgpack": "MessagePackDialect", "mashumaro.codecs.toml": "TOMLDialect"}
PLAIN_CODECS = ["mashumaro.codecs.basic", "mashumaro.codecs.json", "mashumaro.codecs.yaml"]


def run(repo: Repo, rep: Report, tier: str) -> None:
    _merge(repo, rep)
    c = corpus_mod.explore_all(repo, tier)
    for e in c.errors:
        rep.undecide("corpus", e)
    _slots(repo, rep, c)
    _who_constructs(repo, rep, c)
    _codecs(repo, rep)
    _helper_names(repo, rep, c)
    # rules of sibling properties that are necessary conditions of this one as well (same rule ids)
    from ..core.report import Only
    from . import c08 as _c08
    _c08._r08_2(repo, Only(rep, {"R08.2"}))
    from . import c10 as _c10
    _c10._r10_3_semantic(repo, Only(rep, {"R10.3"}))
    from ..core.report import Only as _OnlyX
    from ..core import corpus as _corpusX
    from . import c19 as _c19x
    _c19x.run(repo, _OnlyX(rep, {"R19.3"}), tier)

MAIN_DEF_SITES = ("_add_pack_method_definition", "_add_unpack_method_definition", "add_encode_method", "add_decode_method")


def _helper_names(repo: Repo, rep: Report, c) -> None:
    """R13.9: helper functions compiled for one field (union / literal / typed dict / named tuple / discriminator
    helpers) are installed on the class (or attrs holder) next to the helpers of every other compilation of the same
    class -- one per dialect and per format.  Their names must therefore contain a token that is fresh per compilation
    (random_hex / uuid); a name derived only from class, field, format and type arguments is overwritten by the next
    dialect's compilation while the earlier dialect's methods still call it by name."""
    seen = set()
    n = 0
    for it in c.items:
        for l in it.lines:
            sk = l.tmpl.skeleton().lstrip()
            if not sk.startswith("def "):
                continue
            fn = l.site[0].split("::")[-1]
            if fn.split(".")[-1] in MAIN_DEF_SITES:
                continue
            name_part = l.tmpl.show().split("(", 1)[0]
            key = (l.site[0], name_part)
            if key in seen:
                continue
            seen.add(key)
            n += 1
            fresh = any((not isinstance(h, str)) and ("random_hex" in show(h.val) or "uuid" in show(h.val))
                        for h in l.tmpl.parts[: max(1, next((i for i, x in enumerate(l.tmpl.parts) if isinstance(x, str) and "(" in x), len(l.tmpl.parts)) + 1)])
            if fresh:
                rep.ok("R13.9", f"{fn}: helper `{name_part}` carries a per-compilation token", None)
            else:
                rep.violation("R13.9", l.site[0], f"helper definition `{name_part}` has no per-compilation token",
                              "compiling the same class for another dialect / format overwrites this helper on the shared holder: methods compiled earlier then run the later dialect's "
                              "conversions (to_dict() after to_dict(dialect=D) serialises union members with D)", loc=f"{l.site[0]}:{l.site[1]}")
    rep.floor("R13.9", 15)


def _merge(repo: Repo, rep: Report) -> None:
    ci = repo.cls(M_DIALECT, "Dialect")
    declared = [st.target.id for st in ci.node.body if isinstance(st, ast.AnnAssign) and isinstance(st.target, ast.Name)]
    options = [d for d in declared if d != "serialization_strategy"]
    fi = repo.func(M_DIALECT, "Dialect.merge")
    # evaluated semantically: on every path the merged class receives every declared option (from `other` when it sets the
    # option, else from `cls`) and is the value returned
    from ..core.pe import Path as _Path
    from ..core.scen import make_eval as _make_eval
    from ..core.values import Func as _Func, V as _V

    ev = _make_eval(repo, inline_depth=2, empty_loops=True, max_steps=2000000)
    ev.inline_modules = frozenset(set(ev.inline_modules) | {M_DIALECT})
    dummy = ast.parse("f(x)").body[0].value
    res = ev.call_func(_Func(fi, self_v=Sym("cls")), [Sym("other")], {}, _Path(), dummy, force=True)
    n_paths = 0
    missing: Dict[str, int] = {}
    wrong_src: Set[str] = set()
    bad_ret = 0
    for v, q in res:
        if q.ctl == "raise":
            continue
        n_paths += 1
        sets = [(show(e[1]) if isinstance(e[1], _V) else str(e[1]), e[2].v if hasattr(e[2], "v") else show(e[2]), e[3] if len(e) > 3 else None) for e in q.events if e and e[0] == "setattr"]
        targets = {t for t, _, _ in sets}
        keys = {k for t, k, _ in sets if t == show(v)}
        if show(v) not in targets:
            bad_ret += 1
        for o in options:
            if o not in keys:
                missing[o] = missing.get(o, 0) + 1
        for t, k, val in sets:
            if k in options and val is not None:
                txt = show(val) if isinstance(val, _V) else str(val)
                at = {a: b for a, b in q.atoms.items() if f"other, {k}" in a or f"other.{k}" in a}
                if "cls" not in txt and "other" not in txt and "others_value" not in txt:
                    wrong_src.add(f"{k} = {txt[:40]}")
    # both sides are read with getattr (inherited options count): vars(other) / other.__dict__ see only the options a dialect declares itself
    raw = [ast.unparse(n)[:60] for n in ast.walk(fi.node) if (isinstance(n, ast.Call) and ast.unparse(n.func) == "vars")
           or (isinstance(n, ast.Attribute) and n.attr == "__dict__" and isinstance(n.value, ast.Name) and n.value.id in ("other", "cls"))]
    if raw:
        rep.violation("R13.1", fi.key, f"Dialect.merge reads options through `{raw[0]}`", "options a dialect inherits from a parent Dialect subclass are not in its own __dict__: "
                      "they are silently replaced by the other side's values when the dialect is merged into a format dialect", loc=fi.loc)
    if n_paths < 2:
        rep.undecide("R13.1", f"Dialect.merge: only {n_paths} evaluated paths")
    for o in options:
        if o in missing:
            rep.violation("R13.1", fi.key, f"option {o} not transferred by Dialect.merge", f"a default_dialect's {o} is lost in codecs that merge it into a format dialect ({missing[o]} of {n_paths} paths)", loc=fi.loc)
        else:
            rep.ok("R13.1", f"Dialect.merge transfers {o} on all {n_paths} paths", None)
    for w in sorted(wrong_src):
        rep.violation("R13.1", fi.key, f"merged option takes neither side's value: {w}", "a merged option must be the other dialect's value when it sets one, else this dialect's", loc=fi.loc)
    if bad_ret:
        rep.violation("R13.1", fi.key, "Dialect.merge returns something else than the class it filled", "the merged dialect must be returned after transferring every option on every path", loc=fi.loc)
    else:
        rep.ok("R13.1", "merge returns the new dialect after the option transfer", None)
    rep.floor("R13.1", 4)
    # R13.2
    src = "\n".join(m.source for m in repo.modules.values())
    for o in options:
        if re.search(rf"get_(owner_)?dialect_or_config_option\(\s*['\"]{o}['\"]", src):
            rep.ok("R13.2", f"{o} is read through get_dialect_or_config_option", None)
        else:
            rep.violation("R13.2", f"{M_BUILDER}::CodeBuilder.get_dialect_or_config_option", f"{o} is never read through the namespace chain", "the option would be consulted on one namespace only")


def _balanced_args(text: str, start: int) -> str:
    depth = 1
    i = start
    while i < len(text) and depth:
        depth += text[i] in "([{"
        depth -= text[i] in ")]}"
        i += 1
    return text[start:i - 1].strip()


def _cache_names(text: str) -> List[str]:
    return re.findall(r"__dialect_[\w{}.#()<>' ]*?cache[\w{}.#()<>' ]*?__", text)


def _slots(repo: Repo, rep: Report, c) -> None:
    n_paths = 0
    seen: Set[str] = set()
    for it in c.items:
        if it.scenario not in ("pack_method", "unpack_method") or it.bid != "main" or it.kind != "buffer":
            continue
        direction = "packer" if it.scenario == "pack_method" else "unpacker"
        fnkey = f"{M_BUILDER}::CodeBuilder.add_{'pack' if direction == 'packer' else 'unpack'}_method"
        texts = [l.tmpl.show() for l in it.lines]
        skels = [l.tmpl.skeleton() for l in it.lines]
        full = "\n".join(texts)
        if full in seen:
            continue
        seen.add(full)
        n_paths += 1
        at = it.path.atoms
        idn = it.path.ident
        dialect_specific = any(re.search(r"cls\.__dialect_.*\[dialect\] = ", t) for t in texts)
        feature = bool(next((v for k, v in at.items() if "is_code_generation_option_enabled(ADD_DIALECT_SUPPORT)" in k), False))
        setattrs = [t for t in texts if t.startswith("setattr(")]
        cache_stores = [t for t in texts if re.match(r"cls\.__dialect_.*\[dialect\] = ", t)]
        uses = [t for t in texts if "__dialect_" in t]
        creation = [t for t in texts if re.match(r"if not '__dialect_.*' in cls\.__dict__:", t)]
        label = f"{it.scenario} dialect_specific={dialect_specific} feature={feature}"
        # (c) stored only in the cache
        if dialect_specific and setattrs:
            rep.violation("R13.3", fnkey, f"{label}: dialect-specific method also installed with {setattrs[0][:60]}",
                          "a method compiled for one dialect must never become the class's default method", generated=full[:1200])
        elif dialect_specific and len(cache_stores) != 1:
            rep.violation("R13.3", fnkey, f"{label}: {len(cache_stores)} cache stores", "exactly one cls.<cache>[dialect] = <method> is expected", generated=full[:1200])
        else:
            rep.ok("R13.3", f"{label}: install ok #{n_paths}", None, nontrivial=False)
        # cache creation in the class's own namespace whenever the cache is used
        if uses and not creation and not (dialect_specific and not feature):  # (dialect-specific, no ADD_DIALECT_SUPPORT) is excluded by R13.3b
            rep.violation("R13.3", fnkey, f"{label}: cache used without `if not '<cache>' in cls.__dict__` creation",
                          "without creating the cache in the class's own __dict__ a dialect-specific method is written into (or read from) "
                          "an ancestor's cache: results then depend on which class was used first", generated=full[:1200])
        elif uses:
            rep.ok("R13.3", f"{label}: cache created in cls.__dict__ #{n_paths}", None, nontrivial=False)
        # cache name carries format, direction, specialisation hash
        for l in it.lines:
            sk = l.tmpl.skeleton()
            if "__dialect_" not in sk:
                continue
            holes = [show(h.val) for h in l.tmpl.holes()]
            has_fmt = any("format_name" in h for h in holes)
            has_dir = f"_{direction}_cache" in sk
            typed = bool(next((v for k, v in at.items() if k == "bool(B.initial_type_args)"), False))
            has_hash = any("hash_type_args" in h for h in holes)
            if not has_fmt or not has_dir or (typed and not has_hash):
                rep.violation("R13.3", l.site[0], f"cache name `{re.sub(r'\{[^}]*\}', '{}', ' '.join(_cache_names(l.tmpl.show()))[:120])}` (format={has_fmt}, direction={has_dir}, specialisation hash={has_hash}, specialised={typed})",
                              "the dialect cache must be per class, per format, per direction and per generic specialisation: otherwise the first "
                              "format / specialisation used with a dialect decides what the others get")
                break
        else:
            if uses:
                rep.ok("R13.3", f"{label}: cache name is per format/direction/specialisation #{n_paths}", None, nontrivial=False)
        # R13.4 / R13.6 / R13.7 / R13.8 on dispatcher bodies
        if feature and not dialect_specific and any(".get(dialect)" in t for t in texts):
            i_get = next(i for i, t in enumerate(texts) if ".get(dialect)" in t)
            i_new = next((i for i, t in enumerate(texts) if t.startswith("CodeBuilder(")), None)
            i_ret = [i for i, t in enumerate(texts) if t.startswith("return") and "[dialect](" in t]
            if i_new is None or not i_ret or not (i_get < i_new < i_ret[-1]):
                rep.violation("R13.4", fnkey, f"{label}: dispatcher order get={i_get} compile={i_new} return={i_ret}",
                              "the dispatcher must look the cache up, compile on a miss and return through the cache entry", generated=full[:1200])
            else:
                rep.ok("R13.4", f"{label}: lookup < compile < return-through-cache #{n_paths}", None, nontrivial=False)
            if i_new is not None:
                call = texts[i_new]
                sk = skels[i_new]
                need = {"dialect=dialect": "dialect=dialect" in call, "format_name": "format_name=" in call, "default_dialect": "default_dialect=" in call,
                        "type arguments": bool(re.match(r"CodeBuilder\((cls|self\.__class__),\s*__type_args", call))}
                missing = [k for k, v in need.items() if not v]
                if missing:
                    rep.violation("R13.7", f"{M_BUILDER}::CodeBuilder._add_{'pack' if direction == 'packer' else 'unpack'}_method_with_dialect_lines",
                                  f"miss-path CodeBuilder(...) lacks {missing}", "the dialect-specific compilation must identify the same method "
                                  "(class, type arguments, format, default dialect) with only the dialect changed", template=call[:300])
                else:
                    rep.ok("R13.7", f"{label}: miss-path builder carries class, type args, dialect, format, default dialect #{n_paths}", None, nontrivial=False)
            # R13.10: the cache-hit call and the post-compilation call pass the same arguments
            hit_args = next((_balanced_args(t, m.end()) for t in texts for m in [re.search(r"\b" + direction + r"\(", t)] if m and t.startswith("return")), None)
            miss_args = next((_balanced_args(t, m.end()) for t in texts for m in [re.search(r"\[dialect\]\(", t)] if m and t.startswith("return")), None)
            if hit_args is None or miss_args is None:
                rep.undecide("R13.10", f"{label}: cannot find the cache-hit / post-compilation calls of the dispatcher")
            elif hit_args != miss_args:
                rep.violation("R13.10", f"{M_BUILDER}::CodeBuilder._add_{'pack' if direction == 'packer' else 'unpack'}_method_with_dialect_lines",
                              f"{label}: cache-hit call passes ({hit_args[:80]}) but the first call passes ({miss_args[:80]})",
                              "the result of a call with a dialect then depends on whether that dialect was used before (nested values lose "
                              "the dialect / flags / context on one of the two paths)", generated=full[:1200])
            else:
                rep.ok("R13.10", f"{label}: cache-hit and first call pass the same arguments #{n_paths}", None, nontrivial=False)
            if direction == "packer":
                has_kwargs = bool(next((v for k, v in at.items() if "bool(B.encoder_kwargs)" in k), False))
                enc = bool(next((v for k, v in at.items() if k == "bool(B.encoder)"), idn.get("B.encoder") not in (None, "None") and "B.encoder" in idn)) or any(t.startswith("return encoder(") for t in texts)
                for t, sk in zip(texts, skels):
                    if not t.startswith("return encoder("):
                        continue
                    with_opts = bool(re.search(r"\), \{\}=\{\}", sk)) or bool(re.search(r"\)\), ", sk)) or ", {}={}" in sk.split("](")[-1] if "](" in sk else ", {}={}" in sk
                    if with_opts != has_kwargs:
                        rep.violation("R13.6", f"{M_BUILDER}::CodeBuilder._add_pack_method_with_dialect_lines", f"`{sk[:100]}` options={with_opts} but builder has encoder options={has_kwargs}",
                                      "the dialect path must call the encoder with the same options as the default path", template=t[:300])
                    else:
                        rep.ok("R13.6", f"dispatcher encoder call carries options={with_opts} #{n_paths}", None, nontrivial=False)
                for t in texts:
                    m = re.search(r"packer\(self([^)]*)\)", t)
                    if m:
                        fw = sorted(set(re.findall(r"(omit_none|by_alias)=\1", m.group(1))))
                        inst = f"dispatcher forwards {fw or 'no option flags'} to the dialect-specific packer"
                        if fw:
                            rep.violation("R13.8", f"{M_BUILDER}::CodeBuilder._add_pack_method_with_dialect_lines", "dispatcher forwards option flags defaulted without the call dialect",
                                          "to_dict(dialect=D) passes omit_none/by_alias whose defaults were resolved without D, so D.omit_none / "
                                          "D.serialize_by_alias are overridden: the call differs from a class whose default dialect is D", forwards=fw)
                        else:
                            rep.ok("R13.8", inst + f" #{n_paths}", None, nontrivial=False)
                        break
    rep.analysed["method_level_paths"] = n_paths
    rep.distinct.add(("R13.3", f"{n_paths} distinct method-level buffers"))
    if n_paths < 40:
        rep.error(f"only {n_paths} method-level generator paths")
    # R13.6 default body: encoder options present iff builder has them
    seenb = set()
    for it in c.items:
        if it.scenario != "pack_lines" or it.bid != "main":
            continue
        for l in it.lines:
            sk = l.tmpl.skeleton()
            if not sk.startswith("return encoder("):
                continue
            has_kwargs = bool(next((v for k, v in it.path.atoms.items() if "bool(B.encoder_kwargs)" in k), False))
            with_opts = sk.rstrip(")").endswith("{...}") or bool(re.search(r", \{\}=\{\}", sk))
            k = (has_kwargs, with_opts)
            if k in seenb:
                continue
            seenb.add(k)
            if has_kwargs == with_opts:
                rep.ok("R13.6", f"default body encoder call options={with_opts}", {"template": l.tmpl.show()[:200]})
            else:
                rep.violation("R13.6", l.site[0], f"default body `{sk[:80]}` options={with_opts}, builder has options={has_kwargs}", "encoder options dropped")
    rep.floor("R13.6", 2)
    rep.floor("R13.10", 4)
    # sibling agreement: if the default body can pass encoder options, the dispatcher must be able to as well
    body_opts = any(k[1] for k in seenb)
    disp_opts = False
    disp_seen = False
    for it in c.items:
        if it.scenario != "pack_method" or it.bid != "main":
            continue
        for l in it.lines:
            sk = l.tmpl.skeleton()
            if sk.startswith("return encoder(") and ("packer(" in sk or "[dialect](" in sk):
                disp_seen = True
                if re.search(r"\), \{\}=\{\}", sk):
                    disp_opts = True
    if disp_seen and body_opts and not disp_opts:
        rep.violation("R13.6", f"{M_BUILDER}::CodeBuilder._add_pack_method_with_dialect_lines", "dialect dispatcher never passes the encoder options the default body passes",
                      "to_<format>(dialect=D) ignores the encoder options (e.g. orjson_options)")
    elif disp_seen:
        rep.ok("R13.6", f"default body and dialect dispatcher agree on encoder options (both can pass them: {body_opts})", None)


def _who_constructs(repo: Repo, rep: Report, c) -> None:
    """R13.3b: a builder with a dialect is only ever created for the class whose dispatcher / lazy stub asks for it
    (that class generated the dialect keyword, i.e. has ADD_DIALECT_SUPPORT): no Python-level construction passes
    ``dialect=``, and the only templates that do are the dispatcher miss path and the lazy stub."""
    n = 0
    for fi in repo.funcs.values():
        for node in walk_no_nested(fi.node):
            if not isinstance(node, ast.Call):
                continue
            f = ast.unparse(node.func)
            if not (f.endswith("CodeBuilder") or f.endswith("builder.__class__") or f.endswith("CodecCodeBuilder.new") or f == "cls"):
                continue
            if f == "cls" and fi.cls != "CodecCodeBuilder":
                continue
            n += 1
            kws = {k.arg for k in node.keywords}
            if "dialect" in kws:
                rep.violation("R13.3b", fi.key, f"`{f}(...)` is constructed with dialect={ast.unparse(next(k.value for k in node.keywords if k.arg == 'dialect'))[:40]}",
                              "a builder for another class must compile that class's default method: with a dialect the method is stored only in that "
                              "class's dialect cache, which exists only if that class enabled ADD_DIALECT_SUPPORT (first call fails / depends on call order)",
                              loc=f"{fi.loc.rsplit(':', 1)[0]}:{node.lineno}")
            else:
                rep.ok("R13.3b", f"{fi.key}: {f}(...) without dialect", None)
    if n < 8:
        rep.error(f"R13.3b found only {n} builder constructions")
    ok_sites = {"_add_pack_method_with_dialect_lines", "_add_unpack_method_with_dialect_lines", "_add_pack_method_lines_lazy", "_add_unpack_method_lines_lazy"}
    seen = set()
    for it in c.items:
        if it.kind != "buffer":
            continue
        for l in it.lines:
            t = l.tmpl.show()
            if "CodeBuilder(" in t and re.search(r"\bdialect=", t.replace("default_dialect=", "")):
                fn = l.site[0].split(".")[-1]
                k = (fn,)
                if k in seen:
                    continue
                seen.add(k)
                if fn in ok_sites:
                    rep.ok("R13.3b", f"template in {fn} passes the dialect for the same class", {"template": t[:200]})
                else:
                    rep.violation("R13.3b", l.site[0], f"generated `CodeBuilder(..., dialect=...)` in {fn}",
                                  "generated code compiles another class with the caller's dialect (see R13.3b)", template=t[:300])


def _codecs(repo: Repo, rep: Report) -> None:
    for mod, dialect in DIALECT_CODECS.items():
        for ci in [c for c in repo.classes.values() if c.module == mod and c.name.endswith(("Encoder", "Decoder"))]:
            init = repo.funcs.get(f"{mod}::{ci.name}.__init__")
            if init is None:
                rep.undecide("R13.5", f"{ci.name} has no __init__")
                continue
            src = ast.unparse(init.node)
            merged = f"default_dialect = {dialect}.merge(default_dialect)" in src and f"default_dialect = {dialect}" in src
            passed = "default_dialect=default_dialect" in src
            if merged and passed:
                rep.ok("R13.5", f"{ci.name}: user dialect merged into {dialect} and handed to the builder", None)
            else:
                rep.violation("R13.5", init.key, f"{ci.name}: merged={merged} passed={passed}",
                              f"a codec with a format dialect must merge the user's default_dialect into {dialect} (both directions)", loc=init.loc)
    for mod in PLAIN_CODECS:
        for ci in [c for c in repo.classes.values() if c.module == mod and c.name.endswith(("Encoder", "Decoder"))]:
            init = repo.funcs.get(f"{mod}::{ci.name}.__init__")
            src = ast.unparse(init.node) if init else ""
            if "default_dialect=default_dialect" in src and ".merge(" not in src:
                rep.ok("R13.5", f"{ci.name}: default_dialect passed through", None)
            else:
                rep.violation("R13.5", init.key if init else ci.key, f"{ci.name}: default_dialect not passed through unchanged", "codecs without a format dialect hand the user's dialect to the builder as is")
    rep.floor("R13.5", 12)


_ADDENDUM = ' R13.9: helper definitions installed on a shared holder carry a per-compilation token. Borrowed: R08.2 (option lookup chain call dialect > default dialect > Config.dialect > Config).'
EXPLANATION += _ADDENDUM
LEVEL_TEXT += _ADDENDUM
_ADD8 = ' Borrowed: R10.3 (strategy levels in the documented order, decided on the evaluated generator).'
EXPLANATION += _ADD8
LEVEL_TEXT += _ADD8
_ADD22 = ' Borrowed: R19.3 (flags, dialect included, are forwarded to nested and Self calls).'
EXPLANATION += _ADD22
LEVEL_TEXT += _ADD22
_ADDR5 = ' R13.10: in both dialect dispatchers the cache-hit call and the call made right after compiling pass identical arguments.'
EXPLANATION += _ADDR5
LEVEL_TEXT += _ADDR5


_run_before_r5 = run


def run(repo, rep, tier):  # noqa: F811 -- round-5 shape rules appended to the rules above
    _run_before_r5(repo, rep, tier)
    if getattr(rep, "borrowed", False):
        return
    from ..core import round5 as _r5
    _r5.option_defaults(repo, rep, "R13.11")


_ADDR5B = " R13.11: every option read through get_dialect_or_config_option defaults to Sentinel.MISSING on BaseConfig and on Dialect (a concrete class-level default would shadow the namespaces consulted later, e.g. a codec's default_dialect)."
EXPLANATION += _ADDR5B
LEVEL_TEXT += _ADDR5B


_run_before_r6b = run


def run(repo, rep, tier):  # noqa: F811 -- round-6 remedies (core/round6.py)
    _run_before_r6b(repo, rep, tier)
    if getattr(rep, "borrowed", False):
        return
    from ..core import round6 as _r6b
    _r6b.dispatcher_paths_agree(repo, rep, "R13.12")
    _r6b.default_dialect_is_default(repo, rep, "R13.13")
    _r6b.flag_lists_owned(repo, rep, "R19.11")
    _r6b.codec_dialect_merge_order(repo, rep, "R04.7")
    _r6b.shared_options_read_through_chain(repo, rep, "R08.9")
    _r6b.own_config_only_sites(repo, rep, "R06.16")


_ADDR6C = ' R13.12: both exits of the dialect dispatcher (cache hit / compile-then-call) forward one argument list through one return template, and the emitted CodeBuilder(...) calls of the pack and unpack dispatchers carry the same keywords. R13.13: whatever is passed as default_dialect= to a CodeBuilder (real or emitted call) never mentions the call dialect. Borrowed: R19.11, R04.7, R08.9, R06.16.'
EXPLANATION += _ADDR6C
LEVEL_TEXT += _ADDR6C
