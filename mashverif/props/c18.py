"""C18 -- No hidden sharing or mutation."""

from __future__ import annotations

import ast
import re
from typing import Dict, List

from ..core import conformance, corpus as corpus_mod, genfuncs
from ..core.report import Report
from ..core.skeleton import MARK
from ..core.srcmodel import M_BUILDER, M_CODEC_BUILDER, M_PACK, M_UNPACK, Repo, walk_no_nested
from .c02 import T_FORMAT, check_rows

TECHNIQUE = "dispatch-table simulation under the default and the no-copy configuration vs a copy/identity reference; mutation scan of generated functions; who-reads-no_copy_collections"
EXPLANATION = (
    "R18.1: for every catalogue container the emitted packer returns its argument itself only when the origin class is "
    "listed in no_copy_collections and its elements/keys/values need no conversion; X.copy() only for exactly list/dict "
    "with trivial elements; everything else is rebuilt by a comprehension (checked under no_copy=() and no_copy=(list, "
    "dict), for trivial, converting, Optional, Any and nested elements). R18.3: no unpacker of a typed container is the "
    "bare input or a wrapper around it -- every container unpacker builds a new container by a comprehension over the "
    "input. R18.4: no generated pack/unpack statement mutates self, d or value in place. R18.2: no_copy_collections "
    "reaches the ValueSpec on both pack entry paths from get_dialect_or_config_option and is never consulted on the "
    "unpack path. R18.5: the format dialects' no-copy lists are (list, dict)."
)
LEVEL_TEXT = EXPLANATION + " Exhaustive over the catalogue x {default, no-copy} and the emission corpus."
LEVEL_NOTE = (
    "Not decided: aliasing introduced by user hooks/strategies and Any/pass_through positions (excluded by the property); "
    "identity graphs of concrete values. Trusted base as for C02/C03."
)
ASSUMPTIONS = ["a comprehension over the input builds a new container", "list.copy()/dict.copy() return new containers"]

CONTAINER_FAMILIES = {"list", "deque", "set", "frozenset", "sequence", "vartuple", "fixtuple", "dict", "mapping", "ordereddict",
                      "defaultdict", "chainmap", "mappingproxy", "counter", "namedtuple", "typeddict", "namedtuple-defaults"}


def _no_copy_sources(repo: Repo, rep: Report) -> None:
    """R18.7: `no_copy_collections` of a ValueSpec comes from exactly one place -- the dialect / Config option lookup when
    the root spec of a field or codec shape is created.  Any other keyword `no_copy_collections=` (a spec.copy(...) that
    forces it for an intermediate value) makes results alias the object's own containers under the default dialect."""
    from ..core.srcmodel import walk_no_nested

    n = 0
    for key, fi in sorted(repo.funcs.items()):
        if not fi.module.startswith("mashumaro") or fi.module.startswith("mashumaro.jsonschema"):
            continue
        for node in walk_no_nested(fi.node):
            if isinstance(node, ast.Call):
                for k in node.keywords:
                    if k.arg == "no_copy_collections":
                        n += 1
                        v = ast.unparse(k.value)
                        if "get_dialect_or_config_option('no_copy_collections'" in v.replace('"', "'") or v in ("spec.no_copy_collections",):
                            rep.ok("R18.7", f"{fi.qualname}: no_copy_collections={v[:60]}", None)
                        else:
                            rep.violation("R18.7", fi.key, f"{fi.qualname} forces no_copy_collections={v[:60]}",
                                          "collections at and below this position are handed out without a copy whatever the dialect says: the result shares containers with the object "
                                          "(or the input) and mutating one mutates the other", loc=f"{fi.loc.split(':')[0]}:{node.lineno}")
    if n < 2:
        rep.error(f"R18.7: only {n} no_copy_collections keyword sites")


def run(repo: Repo, rep: Report, tier: str) -> None:
    # R18.1
    for no_copy in ((), (list, dict)):
        rows = conformance.run_catalogue(repo, "PACK", no_copy=no_copy, cbn=False, tier=tier)
        for r in rows:
            if r.entry.family not in CONTAINER_FAMILIES:
                continue
            inst = f"PACK {r.entry.name} no_copy={[t.__name__ for t in no_copy]}"
            if r.ok:
                shared = r.actual[0] == "X"
                rep.ok("R18.1", inst, {"type": r.entry.name, "no_copy": [t.__name__ for t in no_copy], "emitted": r.actual[0][:160], "shares_input": shared})
            else:
                rep.violation("R18.1", f"{M_PACK}::pack_collection", inst,
                              f"copy/identity decision differs from the documented one: emitted `{' | '.join(r.actual)[:240]}`, expected `{r.ref[0][:240]}`",
                              actual=r.actual, reference=r.ref)
    rep.floor("R18.1", 150)
    # R18.3 unpackers rebuild
    rows = conformance.run_catalogue(repo, "UNPACK", cbn=False, tier=tier)
    for r in rows:
        if r.entry.family not in CONTAINER_FAMILIES:
            continue
        inst = f"UNPACK {r.entry.name}"
        act = r.actual[0] if r.actual else ""
        try:
            tree = ast.parse(act, mode="eval")
            comps = [n for n in ast.walk(tree) if isinstance(n, (ast.ListComp, ast.DictComp, ast.SetComp, ast.GeneratorExp))]
            # positions where the bare input is handed to a call / returned (not iterated, not subscripted)
            bare = []
            parents = {}
            for n in ast.walk(tree):
                for ch in ast.iter_child_nodes(n):
                    parents[id(ch)] = n
            for n in ast.walk(tree):
                if isinstance(n, ast.Name) and n.id == "X":
                    par = parents.get(id(n))
                    if isinstance(par, ast.comprehension) or isinstance(par, (ast.Subscript, ast.Attribute)):
                        continue
                    bare.append(ast.unparse(par) if par is not None else "X")
        except SyntaxError:
            comps, bare = [1], []
        helper = act.startswith("<") and "helper" in act
        if r.ok and (helper or (comps and not bare) or r.entry.family in ("fixtuple", "namedtuple")):
            rep.ok("R18.3", inst, {"emitted": act[:160]})
        elif not r.ok:
            rep.violation("R18.3", f"{M_UNPACK}::unpack_collection", inst,
                          f"container unpacker differs from the documented rebuild: `{act[:240]}` vs `{r.ref[0][:240]}`", actual=r.actual, reference=r.ref)
        else:
            rep.violation("R18.3", f"{M_UNPACK}::unpack_collection", inst,
                          f"the deserialized container is (a view of) the input object itself: `{act[:200]}` uses the input {bare} without rebuilding it")
    rep.floor("R18.3", 60)
    # R18.4 mutation scan (pack and unpack helpers and bodies)
    c = corpus_mod.explore_all(repo, tier)
    for e in c.errors:
        rep.undecide("corpus", e)
    n = 0
    seen = set()
    for it, r, tree in genfuncs.parsed_items(c):
        if it.kind != "buffer":
            continue
        site0 = it.lines[0].site[0] if it.lines else it.entry
        for fn in genfuncs.functions_of(tree):
            params = {a.arg for a in fn.args.args} & {"self", "d", "value"}
            if fn.name == "_skeleton_":
                params = {"self", "d", "value"}
            n += 1
            for mut in genfuncs.param_mutations(fn, params):
                inst = f"`{MARK.sub('{}', mut)[:100]}` generated by {site0.split('::')[-1]}"
                if inst in seen:
                    continue
                seen.add(inst)
                rep.violation("R18.4", site0, inst, "generated code mutates the object being serialized / the input being deserialized in place")
    rep.ok("R18.4", f"{n} generated functions contain no in-place mutation of self / d / value", {"functions": n})
    if n < 100:
        rep.error(f"R18.4 examined only {n} generated functions")
    # R18.2 threading of no_copy_collections
    for mod, qn in ((M_BUILDER, "CodeBuilder._get_field_packer"), (M_CODEC_BUILDER, "CodecCodeBuilder.add_encode_method")):
        fi = repo.func(mod, qn)
        ok = False
        for node in walk_no_nested(fi.node):
            if isinstance(node, ast.Call) and ast.unparse(node.func) == "ValueSpec":
                kw = {k.arg: ast.unparse(k.value) for k in node.keywords}
                v = kw.get("no_copy_collections", "")
                ok = bool(re.fullmatch(r"self\.get_dialect_or_config_option\(['\"]no_copy_collections['\"], \(\)\)", v))
        if ok:
            rep.ok("R18.2", f"{qn} passes no_copy_collections from the dialect/config look-up", None)
        else:
            rep.violation("R18.2", fi.key, "ValueSpec(no_copy_collections=...)", "the no-copy list does not reach the packers from get_dialect_or_config_option('no_copy_collections', ())", loc=fi.loc)
    for fi in repo.module_funcs(M_UNPACK):
        if "no_copy_collections" in ast.unparse(fi.node):
            rep.violation("R18.2", fi.key, "no_copy_collections read on the unpack path", "deserialization must always build new containers", loc=fi.loc)
    rep.ok("R18.2", "unpack.py never consults no_copy_collections", None)
    # ValueSpec.copy keeps the field (dataclasses.replace) -- checked by scen._m_copy on every run
    for (mod, cls), want in T_FORMAT.items():
        ci = repo.cls(mod, cls)
        got = None
        for st in ci.node.body:
            if isinstance(st, ast.Assign) and ast.unparse(st.targets[0]) == "no_copy_collections":
                got = [ast.unparse(e) for e in st.value.elts] if isinstance(st.value, (ast.Tuple, ast.List)) else ast.unparse(st.value)
        if got == want["no_copy"]:
            rep.ok("R18.5", f"{cls}.no_copy_collections = {got}", None)
        else:
            rep.violation("R18.5", ci.key, f"{cls}.no_copy_collections = {got}", f"documented no-copy list is {want['no_copy']}")
    if getattr(rep, "borrowed", False):
        return  # another property borrows main-body rules only
    # rules of sibling properties that are necessary conditions of this one as well (same rule ids)
    from ..core.report import Only
    from . import c14 as _c14
    _c14._ownership(repo, Only(rep, {"R14.8", "R14.9"}))
    _no_copy_sources(repo, rep)
    from ..core.report import Only as _OnlyX
    from ..core import corpus as _corpusX
    from ..core import helper_contracts as _hcx
    from . import c13 as _c13x, c08 as _c08x
    _hcx.report(repo, rep, "R09.6", _hcx.dataclass_fields_contract(repo), "mashumaro.core.meta.code.builder::CodeBuilder.dataclass_fields")
    _c13x._slots(repo, _OnlyX(rep, {"R13.3"}), _corpusX.explore_all(repo, tier))
    _c08x._r08_2(repo, _OnlyX(rep, {"R08.2"}))

_ADDENDUM = ' Borrowed: R14.8 / R14.9 (no write into borrowed containers, no builder store shared across codecs).'
EXPLANATION += _ADDENDUM
LEVEL_TEXT += _ADDENDUM
_ADD13 = ' R18.7: no_copy_collections reaches a ValueSpec only from the dialect / Config option lookup.'
EXPLANATION += _ADD13
LEVEL_TEXT += _ADD13
_ADD22 = ' Borrowed: R09.6, R13.3, R08.2 (the option chain that selects no_copy_collections).'
EXPLANATION += _ADD22
LEVEL_TEXT += _ADD22


_run_before_r5 = run


def run(repo, rep, tier):  # noqa: F811 -- round-5 shape rules appended to the rules above
    _run_before_r5(repo, rep, tier)
    if getattr(rep, "borrowed", False):
        return
    from ..core import round5 as _r5
    _r5.valuespec_ownership(repo, rep, "R18.8")
    _r5.positional_annotation_lookup(repo, rep, "R18.9")


_ADDR5B = " R18.8: ValueSpec(...) is constructed only at the five root sites (field pack / unpack, codec encode / decode, class-level discriminator); nested positions derive their spec with spec.copy(...), which carries no_copy_collections and the other options down. R18.9: the input annotation of a user's deserialize callable is looked up by position 0, never by parameter name."
EXPLANATION += _ADDR5B
LEVEL_TEXT += _ADDR5B


_run_before_r6b = run


def run(repo, rep, tier):  # noqa: F811 -- round-6 remedies (core/round6.py)
    _run_before_r6b(repo, rep, tier)
    if getattr(rep, "borrowed", False):
        return
    from ..core import round6 as _r6b
    _r6b.default_dialect_is_default(repo, rep, "R13.13")


_ADDR6C = '  Borrowed: R13.13.'
EXPLANATION += _ADDR6C
LEVEL_TEXT += _ADDR6C


_run_before_r7df = run


def run(repo, rep, tier):  # noqa: F811 -- round 7: CodeBuilder.dataclass_fields evaluated on inheritance shapes (typepreds.py)
    _run_before_r7df(repo, rep, tier)
    if getattr(rep, "borrowed", False):
        return
    from ..core import typepreds as _tp7df
    _tp7df.builder_method_cases(repo, rep, "R07.9")


_ADDR7DF = (" R07.9: CodeBuilder.dataclass_fields is interpreted from its own source (type-level evaluator, stub builder) on six inheritance shapes "
            "-- two dataclass bases, an own Field, a bare re-annotation, a finished dataclass, a diamond, no ancestor -- and must return, per "
            "name, the Field object of the nearest declaring ancestor, as dataclasses itself does.")
EXPLANATION += _ADDR7DF
LEVEL_TEXT += _ADDR7DF


_run_before_r7a = run


def run(repo, rep, tier):  # noqa: F811 -- round-7 remedies / borrowings
    _run_before_r7a(repo, rep, tier)
    if getattr(rep, "borrowed", False):
        return
    from ..core import round7 as _r7
    _r7.root_pack_specs_carry_no_copy(repo, rep, "R18.10")


_ADD_R7A = " R18.10: every root ValueSpec handed to PackerRegistry.get (dataclass field, codec shape) passes no_copy_collections=get_dialect_or_config_option('no_copy_collections', ()); nested positions inherit it through spec.copy."
EXPLANATION += _ADD_R7A
LEVEL_TEXT += _ADD_R7A
