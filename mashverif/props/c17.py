"""C17 -- Generated code is closed and binds every type by identity."""

from __future__ import annotations

import ast
import builtins
import re
import symtable
from typing import Dict, List, Optional, Set, Tuple

from ..core import corpus as corpus_mod
from ..core.report import Report
from ..core.skeleton import MARK, Rendered, render, render_tmpl
from ..core.srcmodel import AnalysisError, M_BUILDER, M_CODEC_BUILDER, M_COMMON, M_PACK, M_UNPACK, Repo, walk_no_nested
from ..core.values import ClsRef, Const, Func, Hole, Obj, Py, Sym, Tmpl, V, show, to_tmpl

TECHNIQUE = "free-name closedness analysis of emitted templates on every generator path + type-reference kind analysis"
EXPLANATION = (
    "Every emitted buffer and returned expression template of the generator corpus (all emission sites, all generator "
    "paths of each scenario) is rendered with hole markers, parsed, and scoped with symtable; every free name must be a "
    "builtin, a module-level name of builder.py (generated code runs in a copy of builder.py's globals), a builder "
    "attribute (top-level statements run with builder.__dict__ as locals), a parameter the generated definition "
    "provides on that path, or a name that an ensure_object_imported / ensure_module_imported call registers on the "
    "same generator path. Type-reference holes must come from get_type_name_identifier (not bare type_name) and the "
    "binding discipline of the namespace is classified."
)
LEVEL_TEXT = (
    "Decides: (a) closedness -- no NameError of the library's own making on any generated path, including error-reporting "
    "lines; (b) type references are rendered by the sanctioned identifier function; (c) the namespace binds registered "
    "objects under collision-free keys. (a) is complete over the corpus; (b),(c) classify every type-reference hole and "
    "the registration functions. Genuine findings of (b),(c) on the pinned tree are listed in known_findings.json."
)
LEVEL_NOTE = (
    "Not decided: AttributeError inside user code, dynamic attributes, and whether a dotted type name resolves in the "
    "module objects registered by add_type_modules (value-level reflection). Assumes the exec sinks use "
    "builder.globals / builder.__dict__ (re-checked as F-exec/F-globals on every run)."
)
ASSUMPTIONS = [
    "F-globals: CodeBuilder.reset sets self.globals = globals().copy() (re-checked)",
    "F-exec: generated text is exec'd with (builder.globals, builder.__dict__) (re-checked by C16 R16.3)",
    "type-reference holes are expressions evaluated in modules registered by add_type_modules (not decided here)",
]

# parameters the generated definitions provide (name -> generator option that guards it, or None = always)
PACK_FLAG_PARAMS = {
    "omit_none": "TO_DICT_ADD_OMIT_NONE_FLAG", "by_alias": "TO_DICT_ADD_BY_ALIAS_FLAG",
    "dialect": "ADD_DIALECT_SUPPORT", "context": "ADD_SERIALIZATION_CONTEXT",
}
AMBIENT = {
    # body-only buffers: names bound by the definition line emitted in another function
    "pack_lines": {"self", "encoder"},
    "unpack_lines": {"cls", "d", "decoder", "dialect"},
    "build": {"cls", "d", "kwargs"},
}
TYPEREF_RAW_ALLOWED = {
    # (function key, reason)
    "mashumaro.core.meta.types.unpack::unpack_number": "type_name(int/float) of a builtin: renders 'int'/'float'",
    "mashumaro.core.meta.types.unpack::unpack_pathlike": "type_name(pathlib.PurePath), a fixed library class whose module is registered",
    "mashumaro.core.meta.code.builder::CodeBuilder._add_unpack_method_lines_lazy": "decoder / default_dialect objects whose modules add_type_modules registers",
    "mashumaro.core.meta.code.builder::CodeBuilder._add_pack_method_lines_lazy": "encoder / default_dialect objects whose modules add_type_modules registers",
    "mashumaro.core.meta.code.builder::CodeBuilder._add_unpack_method_with_dialect_lines": "default_dialect, module registered by add_type_modules",
    "mashumaro.core.meta.code.builder::CodeBuilder._add_pack_method_with_dialect_lines": "default_dialect, module registered by add_type_modules",
    "mashumaro.core.meta.code.builder::CodeBuilder._add_unpack_method_lines": "type_name(self.cls) inside a string literal of the ValueError message",
    "mashumaro.core.meta.code.builder::CodeBuilder._add_unpack_method_definition": "default value of the decoder parameter: a library-fixed function whose module add_type_modules(self.decoder) registers",
    "mashumaro.core.meta.code.builder::CodeBuilder._add_pack_method_definition": "default value of the encoder parameter: a library-fixed function whose module add_type_modules(self.encoder) registers",
    "mashumaro.core.meta.types.unpack::DiscriminatedUnionUnpackerBuilder._get_call_expr": "clean_id(type_name(dialect)) registered by object in _add_body",
}


def builder_globals(repo: Repo) -> Set[str]:
    mi = repo.module(M_BUILDER)
    names: Set[str] = set()
    for node in ast.walk(mi.tree):
        if isinstance(node, (ast.Import, ast.ImportFrom)):
            for a in node.names:
                names.add((a.asname or a.name).split(".")[0])
    for node in mi.tree.body:
        if isinstance(node, (ast.FunctionDef, ast.ClassDef)):
            names.add(node.name)
        elif isinstance(node, ast.Assign):
            for t in node.targets:
                if isinstance(t, ast.Name):
                    names.add(t.id)
        elif isinstance(node, ast.Try):
            for sub in ast.walk(node):
                if isinstance(sub, ast.Assign):
                    for t in sub.targets:
                        if isinstance(t, ast.Name):
                            names.add(t.id)
    # F-globals
    reset = repo.func(M_BUILDER, "CodeBuilder.reset")
    if "self.globals = globals().copy()" not in ast.unparse(reset.node):
        raise AnalysisError("F-globals: CodeBuilder.reset no longer sets self.globals = globals().copy()")
    codec = repo.cls(M_CODEC_BUILDER, "CodecCodeBuilder")
    if any(isinstance(n, ast.FunctionDef) and n.name == "reset" for n in codec.node.body):
        raise AnalysisError("F-globals: CodecCodeBuilder overrides reset")
    return names


def builder_attrs(repo: Repo) -> Set[str]:
    init = repo.func(M_BUILDER, "CodeBuilder.__init__")
    out = set()
    for n in ast.walk(init.node):
        if isinstance(n, ast.Attribute) and isinstance(n.ctx, ast.Store) and isinstance(n.value, ast.Name) and n.value.id == "self":
            out.add(n.attr)
    if len(out) < 10 or "cls" not in out:
        raise AnalysisError("CodeBuilder.__init__ attributes not found")
    return out


def registered_names(path, r: Rendered) -> Tuple[Set[str], List[str]]:
    """Names the ensure_* events of this path put into builder.globals (rendered with r's markers)."""
    names: Set[str] = set()
    unknown: List[str] = []
    for ev in path.events:
        if not ev or ev[0] not in ("ensure_object", "ensure_module"):
            continue
        obj, name = ev[1], ev[2]
        if ev[0] == "ensure_module":
            if isinstance(obj, Py) and hasattr(obj.obj, "__name__"):
                mod = obj.obj.__name__
                names.add(mod)
                names.add(mod.split(".")[0])
            elif isinstance(obj, Sym):
                # a module object held in a variable (ciso8601 / pendulum): registered under its own name
                names.add(obj.name.split(".")[0])
            continue
        if name is not None and not (isinstance(name, Const) and name.v is None):
            names.add(render_tmpl(to_tmpl(name), r))
            continue
        # name=None -> obj.__name__
        if isinstance(obj, Py) and hasattr(obj.obj, "__name__"):
            names.add(obj.obj.__name__)
        elif isinstance(obj, Func):
            names.add(obj.fi.node.name)
        elif isinstance(obj, ClsRef):
            names.add(obj.ci.name)
        elif isinstance(obj, Sym) and obj.name.endswith(".__class__"):
            names.add("CodeBuilder")
            names.add("CodecCodeBuilder")
        elif isinstance(obj, Sym):
            # obj.__name__ of an opaque object: the same text must be used at the use site
            names.add(render_tmpl(Tmpl([Hole(Sym(obj.name + ".__name__", {"IDENT"}))]), r))
            unknown.append(obj.name)
        elif isinstance(obj, Obj):
            unknown.append(show(obj))
    return names, unknown


def free_names_of(src: str) -> List[Tuple[str, str, int]]:
    """(scope, name, lineno) for names that resolve outside their function (module globals) or are
    loaded at top level without a top-level binding."""
    out = []
    st = symtable.symtable(src, "<generated>", "exec")

    def walk(tab, top):
        for sym in tab.get_symbols():
            if not sym.is_referenced():
                continue
            nm = sym.get_name()
            if tab.get_type() == "module":
                if not sym.is_assigned() and not sym.is_imported() and not sym.is_namespace():
                    out.append(("top", nm, tab.get_lineno()))
            else:
                if sym.is_global() or (sym.is_free() and False):
                    out.append((tab.get_name(), nm, tab.get_lineno()))
        for ch in tab.get_children():
            walk(ch, False)

    walk(st, True)
    return out


def _holder_agreement(repo: Repo, rep: Report) -> None:
    """R17.9: a helper installed at generation time with `setattr(<S>.attrs, <name>, fn)` is referenced in the generated
    expression through the same spec's holder name (`{<S>.cls_attrs_name}.{<name>}` / `{<S>.self_attrs_name}.{<name>}`).
    In mixin mode every spec's holder is the class, so a mismatch only shows through codecs: the generated code calls an
    attribute that was installed on another AttrsHolder."""
    from ..core.srcmodel import M_PACK, M_UNPACK, walk_no_nested

    n = 0
    for mod in (M_PACK, M_UNPACK):
        for key, fi in sorted(repo.funcs.items()):
            if fi.module != mod:
                continue
            installs = []
            for st in walk_no_nested(fi.node):
                if isinstance(st, ast.Call) and isinstance(st.func, ast.Name) and st.func.id == "setattr" and len(st.args) == 3 \
                        and isinstance(st.args[0], ast.Attribute) and st.args[0].attr == "attrs" and isinstance(st.args[1], ast.Name):
                    installs.append((ast.unparse(st.args[0].value), st.args[1].id, st.lineno))
            for holder, name, ln in installs:
                refs = []
                for js in walk_no_nested(fi.node):
                    if not isinstance(js, ast.JoinedStr):
                        continue
                    vals = js.values
                    for i, v in enumerate(vals):
                        if isinstance(v, ast.FormattedValue) and isinstance(v.value, ast.Name) and v.value.id == name and i >= 2:
                            dot = vals[i - 1]
                            prev = vals[i - 2]
                            if isinstance(dot, ast.Constant) and str(dot.value).endswith(".") and isinstance(prev, ast.FormattedValue) and isinstance(prev.value, ast.Attribute) \
                                    and prev.value.attr in ("cls_attrs_name", "self_attrs_name"):
                                refs.append(ast.unparse(prev.value.value))
                if not refs:
                    rep.undecide("R17.9", f"{fi.qualname}: helper `{name}` installed on {holder}.attrs is never referenced through a holder name")
                    continue
                n += 1
                bad = [r for r in refs if r != holder]
                if bad:
                    rep.violation("R17.9", fi.key, f"helper `{name}` is installed on `{holder}.attrs` but referenced through `{bad[0]}`'s holder",
                                  "through a codec the two specs have different AttrsHolders (the holder is chosen by the spec's type): the generated code looks the helper up where it was "
                                  "never installed (AttributeError, reported as InvalidFieldValue)", loc=f"{fi.loc.split(':')[0]}:{ln}")
                else:
                    rep.ok("R17.9", f"{fi.qualname}: `{name}` installed on and referenced through {holder}'s holder", None)
    if n < 4:
        rep.error(f"R17.9: only {n} generation-time helper installations found")


def _namespace_leaks(repo: Repo, rep: Report) -> None:
    """R17.11: every generated namespace starts as a copy of builder.py's globals, and user modules are added with
    setdefault -- so a *module object* bound at builder.py's top level under a short name (`from mashumaro.core import const`,
    `import mashumaro.helper as helper`) occupies that name in every generated function and shadows a user module of the same
    name.  Only the standard-library modules the generated code itself uses may be bound there."""
    from ..core.srcmodel import M_BUILDER

    mi = repo.module(M_BUILDER)
    n = 0
    for st in mi.tree.body:
        names = []
        if isinstance(st, ast.ImportFrom) and st.module and st.module.startswith("mashumaro"):
            for a in st.names:
                full = f"{st.module}.{a.name}"
                if full in repo.modules:
                    names.append((a.asname or a.name, full))
                n += 1
        elif isinstance(st, ast.Import):
            for a in st.names:
                n += 1
                if a.name.startswith("mashumaro"):
                    names.append((a.asname or a.name.split(".")[0], a.name))
        for short, full in names:
            rep.violation("R17.11", f"{M_BUILDER}::<module>", f"builder.py binds the module {full} as `{short}`",
                          f"`{short}` is then a global of every generated (de)serializer; a type rendered by dotted name from a user module called `{short}` resolves to the "
                          "library's module instead (AttributeError / wrong class)", loc=f"mashumaro/core/meta/code/builder.py:{st.lineno}")
    if n < 20:
        rep.error(f"R17.11: only {n} imports seen in builder.py")
    else:
        rep.ok("R17.11", f"none of the {n} names imported by builder.py from the library is a module object", None)


def _type_name_lossless(repo: Repo, rep: Report) -> None:
    """R17.12: type_name() and its helpers render a type completely: the text is spliced into generated code as an expression
    (`raise InvalidFieldValue('x', typing.Literal['...'], value, cls)`), so truncating or abbreviating any part (a long
    Literal value, a long argument list) yields code that does not compile or names another type."""
    from ..core.srcmodel import M_HELPERS

    names = ["_get_literal_values_str"]  # the only helper that renders user-supplied values (Literal strings) into the type text
    n = 0
    for nm in dict.fromkeys(names):
        fi = repo.funcs.get(f"{M_HELPERS}::{nm}")
        if fi is None:
            continue
        n += 1
        lossy = []
        for node in ast.walk(fi.node):
            if isinstance(node, ast.Subscript) and isinstance(node.slice, ast.Slice):
                lossy.append(ast.unparse(node)[:50])
            if isinstance(node, ast.Constant) and isinstance(node.value, str) and node.value in ("...", "…"):
                lossy.append("'...' marker")
            if isinstance(node, ast.Compare) and any(isinstance(x, ast.Call) and ast.unparse(x.func) == "len" for x in ast.walk(node)):
                lossy.append(ast.unparse(node)[:50])
            if isinstance(node, ast.Call) and ast.unparse(node.func).split(".")[-1] in ("shorten", "ljust", "rjust", "truncate"):
                lossy.append(ast.unparse(node)[:50])
        if lossy:
            rep.violation("R17.12", fi.key, f"{nm} abbreviates the rendered type ({lossy[0]})", "the rendered text is evaluated as an expression inside generated code: an abbreviated "
                          "Literal / argument list is a syntax error or another type", loc=fi.loc)
        else:
            rep.ok("R17.12", f"{nm} renders its argument without slicing or abbreviation", None)
    if n < 1:
        rep.undecide("R17.12", "_get_literal_values_str not found")


def run(repo: Repo, rep: Report, tier: str) -> None:
    c = corpus_mod.explore_all(repo, tier)
    for e in c.errors:
        rep.undecide("corpus", e)
    for m in c.missing_sites():
        rep.error(f"emission site not reached by any scenario: {m[0]} line {m[1]}")
    G = builder_globals(repo) | set(dir(builtins))
    L0 = builder_attrs(repo)
    rep.analysed.update({"builder_globals": len(G), "builder_attrs": len(L0), "scenarios": len(c.stats),
                         "paths": sum(s["paths"] for s in c.stats.values()), "emission_sites": len(c.sites_all)})
    seen_src: Dict[Tuple[str, str], bool] = {}
    n_buffers = 0
    resolved_names: Set[str] = set()
    n_reg = 0
    for it in c.items:
        r = Rendered()
        if it.kind == "buffer" and not it.compiled:
            continue  # abandoned buffer: this generator path returned before compiling it
        if it.kind == "buffer" and it.scenario == "unpack_lines" and it.bid != "main":
            continue  # field blocks are spliced into the main buffer, which is checked
        if it.kind == "buffer":
            base = it.scenario.split("#")[0]
            body_only = base in AMBIENT and it.bid == "main" if base != "build" else base in AMBIENT
            render(it.lines, wrap=body_only, r=r)
            what = f"{it.scenario}:{it.bid}"
        else:
            if not isinstance(it.value, Tmpl):
                continue
            r.src = "_ret_ = " + render_tmpl(it.value, r) + "\n"
            what = f"{it.scenario}:return"
            base = it.scenario
        reg, _unk = registered_names(it.path, r)
        n_reg += len(reg)
        key = (r.src, ",".join(sorted(reg)))
        if key in seen_src:
            continue
        seen_src[key] = True
        n_buffers += 1
        # path-dependent parameters
        ambient = set(AMBIENT.get(base, set())) if it.kind == "buffer" else set()
        atoms = it.path.atoms
        if base == "pack_lines":
            for nm, opt in PACK_FLAG_PARAMS.items():
                if any(opt in k and v for k, v in atoms.items()):
                    ambient.add(nm)
            # encoder keyword parameters: names are holes (value[0]); nothing literal to add
        try:
            frees = free_names_of(r.src)
        except SyntaxError as e:
            # e.g. a returned '*expr' (unpacked tuple member): retry inside a list display
            if it.kind == "return":
                r.src = "_ret_ = [" + render_tmpl(it.value, r) + "]\n"
                try:
                    frees = free_names_of(r.src)
                except SyntaxError as e2:
                    rep.violation("R17.0", it.entry, f"returned template `{it.value.skeleton()}`",
                                  f"returned expression template is not a Python expression: {e2}")
                    continue
            else:
                site = it.lines[0].site[0] if it.lines else it.entry
                rep.violation("R17.0", site, f"buffer of {it.scenario.split('#')[0]} skeleton `{_skel(it)[:200]}`",
                              f"emitted text does not parse on generator path {_atoms(it.path)}: {e}", source=r.src[:1500])
                continue
        src_lines = r.src.splitlines()
        for scope, nm, _ in frees:
            if MARK.fullmatch(nm):
                continue
            # names that contain a marker: library-made identifiers with a hole (method names etc.)
            ok = nm in G or nm in reg or nm in ambient or (scope == "top" and nm in L0) or nm in ("METHOD_BODY", "FIELD_BLOCK_VALUE")
            if not ok and MARK.search(nm):
                ok = nm in reg or scope != "top" or True  # helper names are bound by their own def / registered Tmpl
            if it.kind == "return" and not ok:
                # expression fragments refer to the variables of the function they will be spliced into
                ok = nm in ("value", "key", "m", "self", "cls", "d", "key_value", "_cls", "variant", "_ret_")
            if ok:
                resolved_names.add(nm)
                rep.ok("R17.1", f"{base}:{nm}", None, nontrivial=nm not in dir(builtins))
                continue
            site_fn = _site_of_name(it, r, nm)
            rep.violation(
                "R17.1", site_fn, f"free name `{nm}` in scenario {base}",
                f"generated code loads `{nm}` which is neither a builtin, a builder.py global, a builder attribute, a "
                f"parameter of the generated function nor registered on this generator path "
                f"({_atoms(it.path)})",
                generated=r.describe("\n".join(l for l in src_lines if nm in l)[:600]), registered=sorted(reg)[:30],
            )
    rep.analysed.update({"distinct_buffers": n_buffers, "distinct_free_names_resolved": len(resolved_names), "registrations_seen": n_reg})
    rep.samples.append({"rule": "R17.1", "resolved_free_names": sorted(resolved_names)[:80]})
    rep.floor("R17.1", 400)
    if len(resolved_names) < 40:
        rep.error(f"only {len(resolved_names)} distinct free names resolved; expected >= 40 (extractor broken?)")

    # ---- R17.2 type references must come from get_type_name_identifier
    seen = set()
    for it in c.items:
        tmpls = [l.tmpl for l in it.lines] if it.kind == "buffer" else ([it.value] if isinstance(it.value, Tmpl) else [])
        sites = [l.site[0] for l in it.lines] if it.kind == "buffer" else [it.entry]
        for t, site in zip(tmpls, sites):
            for i, h in enumerate(t.holes()):
                tags = set(h.val.tags)
                if not ({"TYPEREF_RAW", "TYPEREF_ID"} & tags) or h.more:
                    continue
                if show(h.val) == "type_name(None)":
                    continue  # renders the constant 'None'

                import re as _re

                hname = _re.sub(r"\d+", "N", show(h.val))
                k = (site, hname, "TYPEREF_RAW" in tags)
                if k in seen:
                    continue
                seen.add(k)
                inst = f"type reference {{{hname}}}"
                if "TYPEREF_RAW" in tags and "TYPEREF_ID" not in tags and h.conv != "r":
                    if site in TYPEREF_RAW_ALLOWED:
                        rep.ok("R17.2", f"{site} {inst} (allow-listed: {TYPEREF_RAW_ALLOWED[site]})", {"site": site, "hole": show(h.val)[:100]})
                    else:
                        rep.violation("R17.2", site, inst,
                                      "a schema type is rendered with bare type_name(): for local / dynamically created classes "
                                      "and for Optional/Union arguments the text is not an expression that evaluates to the type",
                                      hole=show(h.val), template=t.show())
                else:
                    rep.ok("R17.2", f"{site} {inst}", {"site": site, "hole": show(h.val)[:100], "kind": sorted(tags)})
    rep.floor("R17.2", 20)

    # ---- R17.4 raw references to the builder's own objects need their module registered on the same path
    body_level = {"pack_lines", "unpack_lines"}
    method_reg = {}
    for it in c.items:
        if it.scenario in ("pack_method", "unpack_method") and it.bid == "main":
            regd = {show(ev[1]) for ev in it.path.events if ev and ev[0] == "add_type_modules"}
            for attr in ("B.encoder", "B.decoder"):
                used = any(f"type_name({attr})" in show(h.val) for l in it.lines for h in l.tmpl.holes())
                if used:
                    method_reg.setdefault(attr, []).append(attr in regd)
    seen4 = set()
    n4 = 0
    for it in c.items:
        if it.kind != "buffer" or not it.compiled:
            continue
        regd = {show(ev[1]) for ev in it.path.events if ev and ev[0] == "add_type_modules"}
        base = it.scenario.split("#")[0]
        for l in it.lines:
            for h in l.tmpl.holes():
                m = re.fullmatch(r"type_name\((B\.(decoder|encoder|default_dialect|dialect))\)", show(h.val))
                if not m:
                    continue
                attr = m.group(1)
                # the reference is only evaluated when the object is not None
                none = it.path.ident.get(attr) == "None" or it.path.atoms.get(f"bool({attr})") is False
                k = (l.site[0], attr, attr in regd, none)
                if k in seen4:
                    continue
                seen4.add(k)
                n4 += 1
                ok = attr in regd or none
                if not ok and base in body_level and attr in ("B.encoder", "B.decoder"):
                    # registered by add_(un)pack_method before the body is generated: checked on the method-level scenario
                    ok = bool(method_reg.get(attr)) and all(method_reg[attr])
                inst = f"{l.site[0].split('::')[-1]}: `{{type_name({attr})}}` module registered={attr in regd}"
                if ok:
                    rep.ok("R17.4", inst, None)
                else:
                    rep.violation("R17.4", l.site[0], f"raw reference to {attr} without add_type_modules({attr.replace('B.', 'self.')}) on the same generator path",
                                  "the generated code names this object by its dotted module path; without registering its module in the namespace the "
                                  "first execution of that line raises NameError", template=l.tmpl.show()[:300], path=_atoms(it.path))
    rep.floor("R17.4", 6)

    # ---- R17.5 sites that bind a schema class by object must keep doing so (confirmed instances are the reference)
    seen5 = set()
    for it in c.items:
        if it.kind != "return" or it.scenario != "unpack.unpack_dataclass" or not isinstance(it.value, Tmpl):
            continue
        if it.path.atoms.get("bool(B.is_nailed)") is not True:
            continue
        first = it.value.parts[0] if it.value.parts and isinstance(it.value.parts[0], Hole) else None
        if first is None or "__unpack" in show(first.val):
            continue
        by_obj = any(ev and ev[0] == "ensure_object" and show(ev[1]) == "spec.origin_type" and ev[2] is not None and show(ev[2]) == show(first.val) for ev in it.path.events)
        k = (show(first.val), by_obj)
        if k in seen5:
            continue
        seen5.add(k)
        inst = f"unpack_dataclass (mixin path) refers to the nested class as {{{re.sub(chr(92) + 'd+', 'N', show(first.val))[:60]}}}"
        if by_obj:
            rep.ok("R17.5", inst + " bound to the class object", None)
        else:
            rep.violation("R17.5", it.entry, "nested dataclass referenced by name instead of by object",
                          "this site used to bind the nested class object itself into the generated namespace; a dotted name is resolved at call time and "
                          "finds whatever the module attribute holds then (rebound, deleted or differently named classes)", template=it.value.show()[:300])
    rep.floor("R17.5", 1)

    # ---- R17.3 binding discipline of the namespace
    ens = repo.func(M_BUILDER, "CodeBuilder.ensure_object_imported")
    txt = ast.unparse(ens.node)
    if "setdefault" in txt and "id(" not in txt:
        rep.violation("R17.3", ens.key, "self.globals.setdefault(name or obj.__name__, obj)",
                      "objects are bound under a name derived from __name__/__qualname__ with setdefault: a second, distinct "
                      "object with the same name silently resolves to the first one (type references are by name, not by identity)",
                      loc=ens.loc)
    else:
        rep.ok("R17.3", "ensure_object_imported binds by object", {"body": txt[:200]})
    gti = repo.func(M_BUILDER, "CodeBuilder.get_type_name_identifier")
    gtxt = ast.unparse(gti.node)
    if "is_local_type_name" in gtxt and "clean_id" in gtxt:
        rep.ok("R17.3", "get_type_name_identifier sanitises and registers local type names", {"body": gtxt[:160]})
    else:
        rep.undecide("R17.3", "get_type_name_identifier has a shape the rule does not know")
    from ..core import regget
    regget.report(repo, rep, "R17.6", {"modules-final-type"})
    # rules of sibling properties that are necessary conditions of this one as well (same rule ids)
    from ..core.report import Only
    from . import c15 as _c15
    _c15._aliases(repo, Only(rep, {"R15.7"}))
    from ..core import helper_contracts as _hc
    _hc.report(repo, rep, "R17.7", _hc.type_name_identifier_contract(repo), "mashumaro.core.meta.code.builder::CodeBuilder.get_type_name_identifier")
    _hc.report(repo, rep, "R17.8", _hc.add_type_modules_contract(repo), "mashumaro.core.meta.code.builder::CodeBuilder.add_type_modules")
    _holder_agreement(repo, rep)
    _hc.report(repo, rep, "R17.10", _hc.forward_ref_contract(repo), "mashumaro.core.meta.code.builder::CodeBuilder.evaluate_forward_ref")
    _namespace_leaks(repo, rep)
    _type_name_lossless(repo, rep)

def _skel(it) -> str:
    return " | ".join(l.tmpl.skeleton() for l in it.lines)


def _atoms(p) -> str:
    a = p.atoms
    return "{" + ", ".join(f"{k}={v}" for k, v in list(a.items())[:12]) + ("..." if len(a) > 12 else "") + "}"


def _site_of_name(it, r: Rendered, nm: str) -> str:
    if it.kind == "buffer":
        for l in it.lines:
            if nm in render_tmpl(l.tmpl, r):
                return l.site[0]
        return it.lines[0].site[0] if it.lines else it.entry
    return it.entry


_ADDENDUM = ' R17.6: add_type_modules receives the final, substituted type on every path of Registry.get. Borrowed: R15.7 (aliases of nested classes are module-qualified).'
EXPLANATION += _ADDENDUM
LEVEL_TEXT += _ADDENDUM
_ADD2 = ' R17.7: contract of get_type_name_identifier (local types are bound by identity under a sanitised name, others referred to by dotted name).'
EXPLANATION += _ADD2
LEVEL_TEXT += _ADD2
_ADD4 = ' R17.8: contract of add_type_modules (the module of every type, of its arguments, Literal values, TypeVar constraints and bound is registered; nothing else cuts the walk).'
EXPLANATION += _ADD4
LEVEL_TEXT += _ADD4
_ADD5 = " R17.9: a helper installed with setattr(<spec>.attrs, name, fn) is referenced through the same spec's holder name. R17.10: contract of evaluate_forward_ref (module globals of the referencing type, builder attributes as locals)."
EXPLANATION += _ADD5
LEVEL_TEXT += _ADD5
_ADD13 = ' R17.11: builder.py (whose globals seed every generated namespace) binds no library module object under a short name.'
EXPLANATION += _ADD13
LEVEL_TEXT += _ADD13
_ADD20 = ' R17.12: type_name and its helpers render types without truncation.'
EXPLANATION += _ADD20
LEVEL_TEXT += _ADD20


_run_before_r5 = run


def run(repo, rep, tier):  # noqa: F811 -- round-5 borrowings appended to the rules above
    _run_before_r5(repo, rep, tier)
    if getattr(rep, "borrowed", False):
        return
    from ..core import round5 as _r5
    from ..core.report import Only as _O5
    from . import c13 as _c13b, c08 as _c08b
    from ..core import corpus as _corp5
    _c13b._who_constructs(repo, _O5(rep, {"R13.3b"}), _corp5.explore_all(repo, tier))
    _c08b._default_literal(repo, _O5(rep, {"R08.7"}))

_ADDR5D = " Borrowed: R13.3b (no generated CodeBuilder(...) for another class carries the caller's dialect: the variant would be stored into a cache it does not have), R08.7 (default literals are rendered as text only where the text evaluates to the default)."
EXPLANATION += _ADDR5D
LEVEL_TEXT += _ADDR5D


_run_before_r6b = run


def run(repo, rep, tier):  # noqa: F811 -- round-6 remedies (core/round6.py)
    _run_before_r6b(repo, rep, tier)
    if getattr(rep, "borrowed", False):
        return
    from ..core import round6 as _r6b
    _r6b.short_names_not_identifiers(repo, rep, "R17.13")


_ADDR6C = ' R17.13: type_name(..., short=True) feeds messages only, never a bound name.'
EXPLANATION += _ADDR6C
LEVEL_TEXT += _ADDR6C


_run_before_r6c = run


def run(repo, rep, tier):  # noqa: F811 -- round-6 remedies, batch 3
    _run_before_r6c(repo, rep, tier)
    if getattr(rep, "borrowed", False):
        return
    from ..core import round6 as _r6c
    _r6c.no_memo_across_literal_values(repo, rep, "R17.14")


_ADDR6D = ' R17.14: the Literal packer / unpacker render every literal value from its own type (no memo across iterations).'
EXPLANATION += _ADDR6D
LEVEL_TEXT += _ADDR6D


_run_before_r7tp = run


def run(repo, rep, tier):  # noqa: F811 -- round 7: type-level helper contracts borrowed from C02
    _run_before_r7tp(repo, rep, tier)
    if getattr(rep, "borrowed", False):
        return
    from ..core import typepreds as _tp7
    _tp7.model_agreement(repo, rep, "R02.8", tier)
    _tp7.reference_cases(repo, rep, "R02.9")


_ADDR7TP = " Borrowed: R02.8 / R02.9 (the type predicates and type-level helpers, interpreted from their own source over the catalogue types and a reference table, answer as the dispatch model and the documentation say)."
EXPLANATION += _ADDR7TP
LEVEL_TEXT += _ADDR7TP


_run_before_r7n = run


def run(repo, rep, tier):  # noqa: F811 -- round-7 remedies / borrowings
    _run_before_r7n(repo, rep, tier)
    if getattr(rep, "borrowed", False):
        return
    from ..core import round7 as _r7n
    _r7n.type_refs_not_by_bare_name(repo, rep, "R17.15")


_ADD_R7N = ' R17.15: a type reference spliced into generated code is rendered through get_type_name_identifier / type_name or bound with ensure_object_imported, never as `<type>.__name__` (a free variable for NewType / subclass / Annotated / local members); `__name__` as part of a helper identifier is accepted.'
EXPLANATION += _ADD_R7N
LEVEL_TEXT += _ADD_R7N
