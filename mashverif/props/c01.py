"""C01 -- Basic-form round trip is the identity."""

from __future__ import annotations

import ast
import collections
import collections.abc
import re
import types
import typing
from typing import Dict, List, Optional

from ..core import conformance, oracle
from ..core.report import Report
from ..core.srcmodel import AnalysisError, M_CORE_HELPERS, M_HELPERS, M_PACK, M_UNPACK, Repo, walk_no_nested
from .c02 import check_rows

TECHNIQUE = "inverse pairing of the simulated packer/unpacker dispatch tables; sign-domain abstract interpretation of parse_timezone; tuple index agreement"
EXPLANATION = (
    "R01.1 inverse pairing: every catalogue entry is handled by both registries, the emitted packer equals REF_PACK and "
    "the emitted unpacker equals REF_UNPACK (two tables written as mutual inverses from the README), and the unpacker "
    "rebuilds the very class of the annotation (canonical class for ABCs) -- 'built from the same concrete classes'. "
    "R01.2: a sign-domain abstract interpretation of parse_timezone proves that the sign of the parsed offset is the "
    "sign character of the text for every offset the regex admits (including -00:mm). R01.3: pack_tuple and unpack_tuple "
    "address the same element positions for fixed, variadic and unpacked tuples (five unpack layouts). R01.4: both "
    "sides apply the None short-circuit at the same (nullable) positions. R01.5: the method-name hash of a generic "
    "specialisation is computed from module-qualified type names (distinct classes never share a compiled method)."
)
LEVEL_TEXT = EXPLANATION + " Decides the structural pairing per type family, not value equality through the stdlib conversions."
LEVEL_NOTE = (
    "Not decided: equality of values through the named stdlib conversions (float precision of total_seconds, "
    "fromisoformat coverage), generic parameter resolution (resolve_type_params), nesting depth (follows from Registry.get "
    "composing family templates), the lossy exclusions. Trusted base as for C02/C03."
)
ASSUMPTIONS = ["T-PACK and T-UNPACK of mashverif/core/oracle.py are mutual inverses (documented pairs)",
               "helper type predicates behave as the stdlib-only model on types outside the probe set of R02.8"]


def result_class(canon: str) -> Optional[str]:
    try:
        n = ast.parse(canon, mode="eval").body
    except SyntaxError:
        return None
    if isinstance(n, ast.IfExp):
        n = n.body
    if isinstance(n, ast.ListComp) or isinstance(n, ast.List):
        return "list"
    if isinstance(n, ast.DictComp) or isinstance(n, ast.Dict):
        return "dict"
    if isinstance(n, ast.SetComp):
        return "set"
    if isinstance(n, ast.Call) and isinstance(n.func, ast.Name):
        return n.func.id
    if isinstance(n, ast.Constant):
        return "NoneType" if n.value is None else type(n.value).__name__
    return None


def expected_class(t) -> Optional[str]:
    o = getattr(t, "__origin__", t)
    if o is type(None):
        return "NoneType"
    abc_map = [(collections.abc.MutableSequence, list), (collections.abc.Sequence, list), (collections.abc.MutableSet, set),
               (collections.abc.Set, set), (collections.abc.MutableMapping, dict), (collections.abc.Mapping, dict)]
    for abc_, conc in abc_map:
        if o is abc_:
            return conc.__name__
    if typing.is_typeddict(o):
        return None
    import os
    import re as _re

    if o is os.PathLike:
        import pathlib
        return oracle.tok(pathlib.PurePath)
    if o in (_re.Pattern, typing.Pattern):
        return oracle.tok(_re.compile)
    import datetime as _dt

    if o in (_dt.datetime, _dt.date, _dt.time):
        return oracle.tok(o.fromisoformat)
    if o is _dt.timezone:
        return "FUNC_parse_timezone"
    if o is bytes:
        import base64
        return oracle.tok(base64.decodebytes)
    if isinstance(o, type) and issubclass(o, str) and o is not str and not issubclass(o, __import__("enum").Enum):
        return "str"  # documented: str subclasses are read back as str
    return oracle.tok(o) if isinstance(o, type) else None


def run(repo: Repo, rep: Report, tier: str) -> None:
    for cbn in (False, True):
        pk = conformance.run_catalogue(repo, "PACK", cbn=cbn, tier=tier)
        up = conformance.run_catalogue(repo, "UNPACK", cbn=cbn, tier=tier)
        rule = "R01.4" if cbn else "R01.1"
        for a, b in zip(pk, up):
            inst = f"{a.entry.name}" + (" (nullable position)" if cbn else "")
            if a.ok and b.ok:
                rep.ok(rule, inst, {"type": a.entry.name, "pack": a.actual[0][:120], "unpack": b.actual[0][:120]})
            else:
                side = "packer" if not a.ok else "unpacker"
                bad = a if not a.ok else b
                rep.violation(rule, f"{M_PACK if not a.ok else M_UNPACK}::{bad.funcs[0] if bad.funcs else '-'}", inst,
                              f"the {side} for this type is not the documented operation, so packer and unpacker are no longer inverse: "
                              f"`{' | '.join(bad.actual)[:240]}` vs `{bad.ref[0][:240]}`", actual=bad.actual, reference=bad.ref)
            if not cbn and b.ok and b.entry.family not in ("optional", "none-nongeneric"):  # user subclasses of list/dict are outside the documented grammar
                want = expected_class(b.entry.type)
                got = result_class(b.actual[0])
                if want is None or got is None:
                    continue
                inst2 = f"{b.entry.name}: rebuilt as {got}"
                if got == want:
                    rep.ok("R01.1c", inst2, None)
                else:
                    rep.violation("R01.1c", f"{M_UNPACK}::{b.funcs[0] if b.funcs else '-'}", inst2,
                                  f"deserialization builds `{got}` where the annotation prescribes `{want}` (not the same concrete class)")
    rep.floor("R01.1", 150)
    rep.floor("R01.1c", 80)
    # R01.3: tuple layouts (subset of the catalogue) -- index expressions must agree between the two sides
    pk = conformance.run_catalogue(repo, "PACK", cbn=False, tier=tier)
    up = conformance.run_catalogue(repo, "UNPACK", cbn=False, tier=tier)
    n3 = 0
    for a, b in zip(pk, up):
        if a.entry.family not in ("fixtuple", "unpacktuple", "namedtuple"):
            continue
        ia = sorted(re.findall(r"X\[[^\]]*\]", a.actual[0]))
        ib = sorted(re.findall(r"X\[[^\]]*\]", b.actual[0]))
        n3 += 1
        inst = f"{a.entry.name}: positions {ia}"
        if ia == ib and ia:
            rep.ok("R01.3", inst, {"type": a.entry.name, "positions": ia})
        else:
            rep.violation("R01.3", f"{M_PACK}::pack_tuple", inst, f"packer addresses {ia} but unpacker addresses {ib}")
    rep.floor("R01.3", 8)
    _r01_2(repo, rep)
    _r01_5(repo, rep)
    # rules of sibling properties that are necessary conditions of this one as well (same rule ids)
    from ..core.report import Only
    from . import c09 as _c09
    _c09.run(repo, Only(rep, {"R09.2"}), tier)
    from ..core import helper_contracts as _hc2
    _hc2.report(repo, rep, "R09.6", _hc2.dataclass_fields_contract(repo), "mashumaro.core.meta.code.builder::CodeBuilder.dataclass_fields")
    from ..core import helper_contracts as _hc3
    _hc3.report(repo, rep, "R01.6", _hc3.type_param_collection_contract(repo), "mashumaro.core.meta.helpers::collect_type_params")
    from ..core import siblings as _sib4
    _sib4.check_special_primitive_mirror(repo, rep, "R11.10")
    from . import c19 as _c19, c07 as _c07
    _c19._hook_and_dispatch_contracts(repo, Only(rep, {"R19.8"}))
    _c07._r07_8(repo, Only(rep, {"R07.8"}))
    from ..core.report import Only as _OnlyX
    from ..core import corpus as _corpusX
    from . import c13 as _c13x
    _c13x._helper_names(repo, _OnlyX(rep, {"R13.9"}), _corpusX.explore_all(repo, tier))

# --------------------------------------------------------------------------- R01.2 sign domain
def _r01_2(repo: Repo, rep: Report) -> None:
    fi = repo.func(M_CORE_HELPERS, "parse_timezone")
    mi = repo.module(M_CORE_HELPERS)
    pat = mi.consts.get("UTC_OFFSET_PATTERN")
    if not isinstance(pat, str) or "[+-]" not in pat:
        rep.undecide("R01.2", "UTC_OFFSET_PATTERN is not the known literal with a [+-] sign class")
        return
    # which group holds sign+hours, which minutes: read with the regex parser
    import re._parser as sre  # type: ignore

    tree = sre.parse(pat)
    ngroups = tree.state.groups - 1
    if ngroups != 3:
        rep.undecide("R01.2", f"offset pattern has {ngroups} groups (expected 3)")
        return
    tds = [n for n in walk_no_nested(fi.node) if isinstance(n, ast.Call) and ast.unparse(n.func).endswith("timedelta")]
    if len(tds) != 1:
        rep.undecide("R01.2", f"{len(tds)} timedelta(...) constructions in parse_timezone")
        return
    kw = {k.arg: k.value for k in tds[0].keywords}
    if set(kw) - {"hours", "minutes"} or not kw:
        rep.undecide("R01.2", f"timedelta built from {sorted(kw)}")
        return
    assigns: Dict[str, ast.expr] = {}
    for n in walk_no_nested(fi.node):
        if isinstance(n, ast.Assign) and isinstance(n.targets[0], ast.Name):
            assigns[n.targets[0].id] = n.value

    class Unknown(Exception):
        pass

    def sign_of(e: ast.expr, case) -> str:
        """abstract sign of an int expression: 'pos' | 'neg' | 'zero' ; case = (sign char, hours magnitude is zero)"""
        sc, hzero = case
        if isinstance(e, ast.Name):
            if e.id in assigns:
                return sign_of(assigns[e.id], case)
            raise Unknown(e.id)
        if isinstance(e, ast.Call) and ast.unparse(e.func) == "int" and len(e.args) == 1:
            a = ast.unparse(e.args[0])
            if re.fullmatch(r"match\.group\(2\)", a):
                return "zero" if hzero else ("pos" if sc == "+" else "neg")
            if re.fullmatch(r"match\.group\(3\)", a):
                return "pos"
            if re.fullmatch(r"match\.group\(2\)\[1:\]", a):
                return "zero" if hzero else "pos"
            raise Unknown(a)
        if isinstance(e, ast.UnaryOp) and isinstance(e.op, ast.USub):
            return {"pos": "neg", "neg": "pos", "zero": "zero"}[sign_of(e.operand, case)]
        if isinstance(e, ast.IfExp):
            t = test(e.test, case)
            if t is True:
                return sign_of(e.body, case)
            if t is False:
                return sign_of(e.orelse, case)
            a, b = sign_of(e.body, case), sign_of(e.orelse, case)
            if a == b:
                return a
            raise Unknown("undetermined conditional sign")
        if isinstance(e, ast.BinOp) and isinstance(e.op, ast.Mult):
            a, b = sign_of(e.left, case), sign_of(e.right, case)
            if "zero" in (a, b):
                return "zero"
            return "pos" if a == b else "neg"
        if isinstance(e, ast.Constant) and isinstance(e.value, int):
            return "pos" if e.value > 0 else "neg" if e.value < 0 else "zero"
        raise Unknown(ast.unparse(e))

    def test(e: ast.expr, case) -> Optional[bool]:
        sc, hzero = case
        txt = ast.unparse(e)
        m = re.fullmatch(r"match\.group\(2\)\[0\] (==|!=) '([+-])'", txt)
        if m:
            r = sc == m.group(2)
            return r if m.group(1) == "==" else not r
        m = re.fullmatch(r"match\.group\(2\)\.startswith\('([+-])'\)", txt)
        if m:
            return sc == m.group(1)
        if isinstance(e, ast.UnaryOp) and isinstance(e.op, ast.Not):
            t = test(e.operand, case)
            return None if t is None else not t
        if isinstance(e, ast.Compare) and len(e.ops) == 1 and isinstance(e.comparators[0], ast.Constant) and e.comparators[0].value == 0:
            s = sign_of(e.left, case)
            op = type(e.ops[0])
            table = {ast.GtE: {"pos": True, "zero": True, "neg": False}, ast.Gt: {"pos": True, "zero": False, "neg": False},
                     ast.Lt: {"pos": False, "zero": False, "neg": True}, ast.LtE: {"pos": False, "zero": True, "neg": True}}
            if op in table:
                return table[op][s]
        raise Unknown(txt)

    for sc in "+-":
        for hzero in (False, True):
            case = (sc, hzero)
            inst = f"text 'UTC{sc}{'00' if hzero else 'hh'}:mm' (mm > 0)"
            try:
                hs = sign_of(kw["hours"], case) if "hours" in kw else "zero"
                ms = sign_of(kw["minutes"], case) if "minutes" in kw else "zero"
            except Unknown as u:
                rep.undecide("R01.2", f"cannot evaluate the offset sign in parse_timezone: {u}")
                return
            total = ms if hs == "zero" else (hs if ms in (hs, "zero") else "mixed")
            want = "pos" if sc == "+" else "neg"
            if total == want:
                rep.ok("R01.2", inst + f" -> offset {total}", {"case": inst, "hours": hs, "minutes": ms})
            else:
                rep.violation("R01.2", fi.key, inst, f"the parsed offset is {total} (hours {hs}, minutes {ms}) although the text says '{sc}': "
                              "tzname() -> parse_timezone() is not the identity for this offset", loc=fi.loc)
    rep.floor("R01.2", 4)


def _r01_5(repo: Repo, rep: Report) -> None:
    fi = repo.func(M_HELPERS, "hash_type_args")
    src = ast.unparse(fi.node)
    calls = [n for n in walk_no_nested(fi.node) if isinstance(n, ast.Call)]
    short = any(k.arg == "short" and not (isinstance(k.value, ast.Constant) and k.value.value is False) for c in calls for k in c.keywords)
    uses_type_name = "type_name" in src
    if not uses_type_name:
        rep.undecide("R01.5", "hash_type_args no longer derives the hash from type_name")
    elif short or "__name__" in src or "__qualname__" in src and "__module__" not in src:
        rep.violation("R01.5", fi.key, "specialisation hash from short type names",
                      "the per-specialisation method name is hashed from unqualified type names: two classes with the same name in different "
                      "modules share one compiled (de)serializer", loc=fi.loc)
    else:
        rep.ok("R01.5", "hash_type_args hashes module-qualified type names", {"body": src[:160]})
    # injectivity of the composition: the joined names reach the result only through a cryptographic digest; any
    # character-class substitution / slicing / case folding on the way merges distinct specialisations
    rets = [n for n in walk_no_nested(fi.node) if isinstance(n, ast.Return) and n.value is not None]
    lossy = []
    digest = False
    for n in ast.walk(fi.node):
        if isinstance(n, ast.Call):
            f = ast.unparse(n.func)
            if f.split(".")[-1] in ("md5", "sha1", "sha256", "sha224", "sha384", "sha512", "blake2b", "blake2s", "sha3_256"):
                digest = True
            if f in ("re.sub", "sub") or f.split(".")[-1] in ("replace", "translate", "lower", "upper", "casefold", "strip", "clean_id", "hash", "crc32", "adler32"):
                lossy.append(ast.unparse(n)[:60])
        if isinstance(n, ast.Subscript) and isinstance(n.slice, ast.Slice):
            lossy.append(ast.unparse(n)[:60])
    if not rets:
        rep.undecide("R01.5", "hash_type_args has no return")
    elif lossy or not digest:
        rep.violation("R01.5", fi.key, f"specialisation key is not an injective digest of the type names ({(lossy or ['no hashlib digest'])[0]})",
                      "type arguments whose names differ only in characters the transformation merges (Literal['user-created'] / Literal['user_created'], truncated digests, "
                      "Python's salted hash()) share one compiled method: the second specialisation silently runs the first one's code", loc=fi.loc)
    else:
        rep.ok("R01.5", "the specialisation key is a hashlib digest of the joined qualified names, with no lossy step", None)


_ADDENDUM = ' R01.5 also requires the specialisation key to be a cryptographic digest of the joined names with no lossy step. Borrowed: R09.2 (the by-alias key resolution of the field block, which the round trip by alias depends on).'
EXPLANATION += _ADDENDUM
LEVEL_TEXT += _ADDENDUM
_ADD3 = " Borrowed: R09.6 (dataclass_fields: the nearest ancestor's Field wins; a bare re-annotation drops the inherited Field)."
EXPLANATION += _ADD3
LEVEL_TEXT += _ADD3
_ADD7 = ' R01.6: collect_type_params returns every type variable once (each insertion is guarded by a membership test), which type-parameter substitution for nested generic dataclasses depends on.'
EXPLANATION += _ADD7
LEVEL_TEXT += _ADD7
_ADD17 = ' Borrowed: R11.10.'
EXPLANATION += _ADD17
LEVEL_TEXT += _ADD17
_ADD21 = " Borrowed: R19.8 (nested dataclasses are packed through the value's own class), R07.8 (declaration order of constructor arguments)."
EXPLANATION += _ADD21
LEVEL_TEXT += _ADD21
_ADD22 = ' Borrowed: R13.9 (helper names fresh per compilation).'
EXPLANATION += _ADD22
LEVEL_TEXT += _ADD22


_run_before_r6 = run


def run(repo, rep, tier):  # noqa: F811 -- round-6 shape rules appended to the rules above
    _run_before_r6(repo, rep, tier)
    if getattr(rep, "borrowed", False):
        return
    from ..core import round6 as _r6
    _r6.nullability_through_annotated(repo, rep, "R05.14")


_ADDR6A = ' Borrowed: R05.14 (nullability of Annotated[Optional[X], ...] positions).'
EXPLANATION += _ADDR6A
LEVEL_TEXT += _ADDR6A


_run_before_r6b = run


def run(repo, rep, tier):  # noqa: F811 -- round-6 remedies (core/round6.py)
    _run_before_r6b(repo, rep, tier)
    if getattr(rep, "borrowed", False):
        return
    from ..core import round6 as _r6b
    _r6b.dispatcher_paths_agree(repo, rep, "R13.12")
    _r6b.format_dialect_tables(repo, rep, "R03.8")
    _r6b.shared_options_read_through_chain(repo, rep, "R08.9")
    _r6b.nullability_sites_agree(repo, rep, "R08.10")
    _r6b.element_positions_nullable(repo, rep, "R05.15")


_ADDR6C = '  Borrowed: R13.12, R03.8, R08.9, R08.10, R05.15.'
EXPLANATION += _ADDR6C
LEVEL_TEXT += _ADDR6C


_run_before_r7tp = run


def run(repo, rep, tier):  # noqa: F811 -- round 7: type-level helper contracts borrowed from C02
    _run_before_r7tp(repo, rep, tier)
    if getattr(rep, "borrowed", False):
        return
    from ..core import typepreds as _tp7
    _tp7.model_agreement(repo, rep, "R02.8", tier)
    _tp7.reference_cases(repo, rep, "R02.9")


_ADDR7TP = " Borrowed: R02.8 / R02.9 (the type predicates and type-level helpers, interpreted from their own source over the catalogue types and a reference table, answer as the dispatch model and the documentation say)."
EXPLANATION += _ADDR7TP
LEVEL_TEXT += _ADDR7TP


_run_before_r7df = run


def run(repo, rep, tier):  # noqa: F811 -- round 7: CodeBuilder.dataclass_fields evaluated on inheritance shapes (typepreds.py)
    _run_before_r7df(repo, rep, tier)
    if getattr(rep, "borrowed", False):
        return
    from ..core import typepreds as _tp7df
    _tp7df.builder_method_cases(repo, rep, "R07.9")


_ADDR7DF = (" R07.9: CodeBuilder.dataclass_fields is interpreted from its own source (type-level evaluator, stub builder) on six inheritance shapes "
            "-- two dataclass bases, an own Field, a bare re-annotation, a finished dataclass, a diamond, no ancestor -- and must return, per "
            "name, the Field object of the nearest declaring ancestor, as dataclasses itself does.")
EXPLANATION += _ADDR7DF
LEVEL_TEXT += _ADDR7DF


_run_before_r7s = run


def run(repo, rep, tier):  # noqa: F811 -- round-7 remedies / borrowings
    _run_before_r7s(repo, rep, tier)
    if getattr(rep, "borrowed", False):
        return
    from ..core import round7 as _r7s
    _r7s.nullability_on_substituted_type(repo, rep, "R05.17")


_ADD_R7S = ' Borrowed: R05.17 (the None guard / omit_none of a TypeVar field follows the substituted type).'
EXPLANATION += _ADD_R7S
LEVEL_TEXT += _ADD_R7S


_run_before_r7rt = run


def run(repo, rep, tier):  # noqa: F811 -- round 7: get_real_type leaves the trusted base
    _run_before_r7rt(repo, rep, tier)
    if getattr(rep, "borrowed", False):
        return
    from ..core import typepreds as _tprt
    _tprt.real_type_cases(repo, rep, "R01.7")


_ADD_R7RT = " R01.7: CodeBuilder.get_real_type / _get_field_class are interpreted (type-level evaluator, stub builder whose resolved_type_params come from the interpreted resolve_type_params) on nine fields of generic dataclasses: a field's type is substituted with the parameters of the class that defines it, resolved through the bases (inherited `b: S` of P[S, int] is int while the subclass's own `c: S` is its argument)."
EXPLANATION += _ADD_R7RT
LEVEL_TEXT += _ADD_R7RT
