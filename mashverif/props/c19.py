"""C19 -- Hooks run exactly once per instance, in order, through every entry point."""

from __future__ import annotations

import ast
import re
from typing import Dict, List, Optional, Set

from ..core import corpus as corpus_mod
from ..core.pe import Path
from ..core.report import Report
from ..core.scen import make_eval
from ..core.skeleton import MARK, Rendered, render
from ..core.srcmodel import AnalysisError, M_BUILDER, M_PACK, M_UNPACK, Repo, walk_no_nested
from ..core.values import Sym, Tmpl, show

TECHNIQUE = "path enumeration of the method-body generators: count / position of hook templates per generator path; stub bodies hook-free; flag-forwarding and speculation rules"
EXPLANATION = (
    "R19.1: on every non-stub generator path of the to_dict body the pre hook line `self = self.__pre_serialize__(...)` is "
    "emitted exactly once iff the class declares the hook, before any other statement, and the returned mapping passes "
    "through `self.__post_serialize__(...)` exactly once iff declared (inside the encoder call); dually the from_dict body "
    "calls `d = cls.__pre_deserialize__(d)` after decoding and before any look-up and returns "
    "`cls.__post_deserialize__(cls(...))`. Context is passed to a hook iff ADD_SERIALIZATION_CONTEXT is enabled. "
    "R19.2: stubs (lazy, dialect dispatcher, discriminator dispatcher) contain no hook call, so dispatching never "
    "double-fires. R19.3: context (like every flag) is forwarded to a nested class iff both classes enabled it, and the "
    "flags of a nested call are computed for the class that is called. R19.4: hooks are looked up on the defining class and "
    "the mixin's placeholder is ignored. R19.5: speculative try-each-member code never calls a per-class static helper "
    "(which runs that class's hooks) on a value of another class."
)
LEVEL_TEXT = EXPLANATION
LEVEL_NOTE = ("Not decided: hook traces over concrete nested values, hooks inside user strategies, pre-deserialize hooks of "
              "rejected union candidates (not constrained by the property).")
ASSUMPTIONS = ["user hooks are opaque"]

PML = f"{M_BUILDER}::CodeBuilder._add_pack_method_lines"
UML = f"{M_BUILDER}::CodeBuilder._add_unpack_method_lines"
STUB_SITES = ("_lines_lazy", "_with_dialect_lines")


def run(repo: Repo, rep: Report, tier: str) -> None:
    c = corpus_mod.explore_all(repo, tier)
    for e in c.errors:
        rep.undecide("corpus", e)
    seen: Set[str] = set()
    n = {"pack": 0, "unpack": 0}
    for it in c.items:
        if it.scenario not in ("pack_lines", "unpack_lines") or it.bid != "main" or it.kind != "buffer":
            continue
        side = "pack" if it.scenario == "pack_lines" else "unpack"
        lines = it.lines
        texts = [l.tmpl.show() for l in lines]
        key = side + "\n".join(texts)
        at = it.path.atoms
        if it.path.ctl == "raise":
            continue
        is_stub = any(l.site[0].endswith(STUB_SITES) for l in lines)
        pre_decl = at.get(f"bool(B.get_declared_hook(__pre_{'serialize' if side == 'pack' else 'deserialize'}__))")
        post_decl = at.get(f"bool(B.get_declared_hook(__post_{'serialize' if side == 'pack' else 'deserialize'}__))")
        ctx = at.get("bool(B.is_code_generation_option_enabled(ADD_SERIALIZATION_CONTEXT))")
        hook_lines = [t for t in texts if re.search(r"__(pre|post)_(de)?serialize__", t)]
        sig = (side, is_stub, pre_decl, post_decl, ctx, tuple(re.sub(r"\{[^{}]*\}", "{}", t) for t in hook_lines), texts[0][:30] if texts else "")
        if sig in seen:
            continue
        seen.add(sig)
        fnkey = PML if side == "pack" else UML
        if is_stub:
            if hook_lines:
                rep.violation("R19.2", lines[0].site[0], f"{side} stub path emits `{hook_lines[0][:70]}`",
                              "a stub (lazy / postponed compilation) re-dispatches to the compiled method, which runs the hooks itself: a hook call in the "
                              "stub fires the hook twice on the first call", generated="\n".join(texts)[:800])
            else:
                rep.ok("R19.2", f"{side} stub path is hook-free", None)
            continue
        if pre_decl is None or post_decl is None:
            # discriminator dispatcher path etc.: the body returns `<variant dispatch>` before the hooks are consulted.  The
            # variant's own method runs the hooks, so a hook line here fires the hook twice (once with cls=Base, once with the variant).
            if hook_lines:
                rep.violation("R19.2", fnkey, f"{side} dispatching path (returns before the body) emits `{hook_lines[0][:70]}`",
                              "a class-level discriminator root only dispatches to the variant's method, which runs the hooks itself: a hook call "
                              "before the dispatch fires the hook twice and feeds the first result into the second", generated="\n".join(texts)[:800])
            else:
                rep.ok("R19.2", f"{side} dispatching path is hook-free", None, nontrivial=False)
            continue
        n[side] += 1
        pre_name = "__pre_serialize__" if side == "pack" else "__pre_deserialize__"
        post_name = "__post_serialize__" if side == "pack" else "__post_deserialize__"
        pre_lines = [i for i, t in enumerate(texts) if pre_name in t]
        post_lines = [i for i, t in enumerate(texts) if post_name in t]
        inst = f"{side} body: pre declared={pre_decl} emitted at {pre_lines}; post declared={post_decl} emitted at {post_lines}; context={ctx}"
        problems = []
        if bool(pre_decl) != (len(pre_lines) == 1) or len(pre_lines) > 1:
            problems.append(f"pre hook emitted {len(pre_lines)} times although declared={pre_decl}")
        if bool(post_decl) != (len(post_lines) == 1) or len(post_lines) > 1:
            problems.append(f"post hook emitted {len(post_lines)} times although declared={post_decl}")
        if pre_lines:
            i = pre_lines[0]
            t = texts[i]
            if side == "pack":
                if not re.fullmatch(r"self = self\.__pre_serialize__\((context=context)?\)", t):
                    problems.append(f"pre hook line is `{t}` (its result must rebind self)")
                elif ("context=context" in t) != bool(ctx):
                    problems.append(f"context passed to the pre hook={'context=context' in t} but ADD_SERIALIZATION_CONTEXT={ctx}")
                if i != 0:
                    problems.append("pre hook is not the first statement of the body")
            else:
                if t != "d = cls.__pre_deserialize__(d)":
                    problems.append(f"pre hook line is `{t}`")
                before = [x for x in texts[:i] if x != "d = decoder(d)"]
                if before:
                    problems.append(f"statements before the pre-deserialize hook: {before[:2]}")
        if post_lines:
            t = texts[post_lines[0]]
            if post_lines[0] != len(texts) - 1 or not t.startswith("return "):
                problems.append("post hook is not in the final return")
            if side == "pack":
                from ..core.skeleton import render_tmpl as _rt

                rr = Rendered()
                try:
                    node = ast.parse(_rt(lines[post_lines[0]].tmpl, rr).replace("return ", "", 1), mode="eval").body
                except SyntaxError:
                    node = None
                calls = [x for x in ast.walk(node) if isinstance(x, ast.Call) and isinstance(x.func, ast.Attribute) and x.func.attr == "__post_serialize__"] if node is not None else []
                if len(calls) != 1 or ast.unparse(calls[0].func.value) != "self" or len(calls[0].args) != 1:
                    problems.append(f"post hook return is `{t[:80]}`")
                else:
                    has_ctx = any(k.arg == "context" and ast.unparse(k.value) == "context" for k in calls[0].keywords)
                    if has_ctx != bool(ctx):
                        problems.append(f"context passed to the post hook={has_ctx} but ADD_SERIALIZATION_CONTEXT={ctx}")
                    outer = node
                    if not (outer is calls[0] or (isinstance(outer, ast.Call) and ast.unparse(outer.func) == "encoder" and outer.args and outer.args[0] is calls[0])):
                        problems.append("the post hook's result is not what is returned / encoded")
            else:
                if not re.fullmatch(r"return cls\.__post_deserialize__\(cls\(.*\)\)", t):
                    problems.append(f"post hook return is `{t[:80]}`")
        if problems:
            rep.violation("R19.1", fnkey, inst, "; ".join(problems), generated="\n".join(texts)[:900])
        else:
            rep.ok("R19.1", inst, {"hook_lines": hook_lines})
    rep.analysed.update({"pack_body_signatures": n["pack"], "unpack_body_signatures": n["unpack"]})
    rep.floor("R19.1", 12)
    rep.floor("R19.2", 2)
    # dialect / discriminator dispatchers are hook-free
    seen2 = set()
    for it in c.items:
        if it.kind != "buffer":
            continue
        disp = it.scenario in ("pack_method", "unpack_method") or "Discriminated" in it.scenario or "Subtype" in it.scenario
        if not disp:
            continue
        for l in it.lines:
            t = l.tmpl.show()
            if re.search(r"__(pre|post)_(de)?serialize__", t):
                k = (l.site[0], l.tmpl.skeleton())
                if k in seen2:
                    continue
                seen2.add(k)
                rep.violation("R19.2", l.site[0], f"dispatcher emits `{l.tmpl.skeleton()[:70]}`", "dispatching code must not call hooks (the dispatched method does)")
    rep.ok("R19.2", "dialect and discriminator dispatchers are hook-free", None)
    _flags(repo, rep)
    _flag_contract(repo, rep)
    _hook_and_dispatch_contracts(repo, rep)
    _declared_hook(repo, rep)
    _speculation(repo, rep, c)
    if getattr(rep, "borrowed", False):
        return  # another property borrows main-body rules only
    from ..core import siblings as _sib2
    _sib2.check_own_method_tests(repo, rep, "R14.11")

def _hook_and_dispatch_contracts(repo: Repo, rep: Report) -> None:
    """R19.7: get_declared_hook(name) returns the hook from the class that defines it, for every class except the mixin's own
    placeholder -- plain dataclasses (nested or handed to a codec) have hooks too.  R19.8: inside a mixin-compiled method a nested
    dataclass is serialized by calling the method *on the value* (`value.__mashumaro_to_dict__(flags)`): the instance's own class
    decides, so a subclass instance in a base-typed field runs the subclass's generated code and hooks."""
    from ..core import helper_contracts as hc
    from ..core.values import Sym as _Sym

    defn = "get_class_that_defines_method(m, B.cls)"
    exp = [
        (f"{defn}.__dict__[m]", {f"is_dataclass_dict_mixin({defn})": False}, []),
        ("None", {f"bool({defn})": False}, []),
        ("None", {f"is_dataclass_dict_mixin({defn})": True}, []),
    ]
    res = hc.outcome_contract(repo, "CodeBuilder.get_declared_hook", exp, [_Sym("m")],
                              why="hooks are taken from the defining class unless that class is the mixin itself; restricting the lookup (mixin subclasses only, "
                                  "attrs holder, ...) drops the hooks of plain dataclasses")
    hc.report(repo, rep, "R19.7", res, f"{M_BUILDER}::CodeBuilder.get_declared_hook")
    # dynamic dispatch
    c = corpus_mod.explore_all(repo, "quick")
    n = 0
    seen = set()
    for it in c.items:
        if it.scenario != "pack.pack_dataclass" or it.kind != "return" or it.path.atoms.get("bool(B.is_nailed)") is not True:
            continue
        t = it.value
        txt = t.show() if hasattr(t, "show") else str(t)
        if txt in seen:
            continue
        seen.add(txt)
        n += 1
        if txt.startswith("{spec.expression}."):
            rep.ok("R19.8", f"nested dataclass packed by a call on the value: {txt[:70]}", None)
        else:
            rep.violation("R19.8", f"{M_PACK}::pack_dataclass", f"nested dataclass packed by `{txt[:80]}`",
                          "the declared class's packer is called statically: for a subclass instance held in a base-typed field only the base class's fields are emitted and "
                          "the subclass's __pre_serialize__ / __post_serialize__ never run", loc="")
    if n < 2:
        rep.undecide("R19.8", f"only {n} nailed pack_dataclass outcomes")


def _flag_contract(repo: Repo, rep: Report) -> None:
    """R19.6: get_pack_method_flags(nested) / get_unpack_method_flags(nested) forward a flag (omit_none, by_alias, dialect,
    context) exactly when the option is enabled both for the nested class and for the calling class -- no other condition.
    In particular the serialization context travels through every opted-in class whether or not that class declares
    hooks itself: the hooks that need it may sit further down."""
    import ast as _ast

    from ..core.pe import Path
    from ..core.scen import make_eval
    from ..core.values import Const, Func, Sym, Tmpl, show

    dummy = _ast.parse("f(x)").body[0].value
    for fn, flags in (("get_pack_method_flags", {"TO_DICT_ADD_OMIT_NONE_FLAG": "omit_none", "TO_DICT_ADD_BY_ALIAS_FLAG": "by_alias", "ADD_DIALECT_SUPPORT": "dialect", "ADD_SERIALIZATION_CONTEXT": "context"}),
                      ("get_unpack_method_flags", {"ADD_DIALECT_SUPPORT": "dialect"})):
        fi = repo.func(M_BUILDER, f"CodeBuilder.{fn}")
        ev = make_eval(repo, inline_depth=3, allow_inline={fn, "is_code_generation_option_enabled"}, assume=[(re.compile(r"^bool\(nested\)$"), True), (re.compile(r"^nested is None$"), False)])
        p = Path()
        B = ev.builder_obj(p)
        res = ev.call_func(Func(fi, self_v=B), [Sym("nested")], {}, p, dummy, force=True)
        n = 0
        bad = False
        for v, q in res:
            if q.ctl == "raise":
                continue
            for w in q.worlds():
                at = dict(Path._view(w, "A|"))
                n += 1
                txt = show(v) if not isinstance(v, Const) else str(v.v)
                got = sorted(x.split("=")[0].strip() for x in txt.split(",") if "=" in x)
                want = []
                other = []
                for k, b in at.items():
                    m = re.search(r"(TO_DICT_ADD_OMIT_NONE_FLAG|TO_DICT_ADD_BY_ALIAS_FLAG|ADD_DIALECT_SUPPORT|ADD_SERIALIZATION_CONTEXT)", k)
                    if (m is None or "code_generation_options" not in k) and k not in ("bool(nested)",):
                        other.append(k)
                for opt, flag in flags.items():
                    on_nested = next((b for k, b in at.items() if opt in k and "get_config(nested)" in k), None)
                    on_self = next((b for k, b in at.items() if opt in k and "get_config(B.cls)" in k), None)
                    if on_nested is True and on_self is True:
                        want.append(flag)
                    elif (on_nested is None or (on_nested is True and on_self is None)) and flag not in got and not bad:
                        # the option was never consulted on this path although nothing excludes that both classes enable it
                        bad = True
                        rep.violation("R19.6", fi.key, f"{fn}: on a path that forwards {got} the option {opt} is never consulted",
                                      f"when an earlier option is enabled in the nested class only, the later flags ({flag}, ...) are dropped although both classes enable them: "
                                      "keyword arguments silently stop reaching nested objects", loc=fi.loc)
                if other and not bad:
                    bad = True
                    rep.violation("R19.6", fi.key, f"{fn}: forwarding depends on `{other[0][:80]}`",
                                  "a flag must be forwarded whenever both classes opted in: cutting the chain at a class that does not use the value itself (no hooks of its own, ...) "
                                  "starves the classes nested below it (their hooks receive context=None)", loc=fi.loc)
                elif sorted(want) != got and not bad:
                    bad = True
                    rep.violation("R19.6", fi.key, f"{fn}: forwards {got} where both classes enabled {sorted(want)}", "flags are forwarded exactly when both the nested and the calling class enable the option", loc=fi.loc)
        if n < (4 if len(flags) > 1 else 3):
            rep.undecide("R19.6", f"{fn}: only {n} outcomes")
        elif not bad:
            rep.ok("R19.6", f"{fn}: {n} outcomes forward a flag iff both classes enable its option (no other condition)", None)


def _flags(repo: Repo, rep: Report) -> None:
    from .c08 import _r08_4

    class _P:
        def __init__(self, r):
            self._r = r

        def __getattr__(self, k):
            return getattr(self._r, k)

        def ok(self, rule, *a, **k):
            self._r.ok("R19.3", *a, **k)

        def violation(self, rule, *a, **k):
            self._r.violation("R19.3", *a, **k)

    _r08_4(repo, _P(rep))
    # flags of a nested call are computed for the class that is called
    for mod, fn, flagfn in ((M_PACK, "pack_special_typing_primitive", "get_pack_method_flags"), (M_UNPACK, "unpack_special_typing_primitive", "get_unpack_method_flags"),
                            (M_PACK, "pack_dataclass", "get_pack_method_flags"), (M_UNPACK, "unpack_dataclass", "get_unpack_method_flags")):
        fi = repo.func(mod, fn)
        want = "spec.builder.cls" if "special" in fn else "spec.type"
        scope = fi.node
        if "special" in fn:
            # the `elif is_self(spec.type):` branch
            scope = None
            for n in ast.walk(fi.node):
                if isinstance(n, ast.If) and ast.unparse(n.test) == "is_self(spec.type)":
                    scope = n
            if scope is None:
                rep.undecide("R19.3", f"no is_self branch in {fn}")
                continue
            body_nodes = scope.body
        else:
            body_nodes = scope.body
        calls = [n for b in body_nodes for n in ast.walk(b) if isinstance(n, ast.Call) and ast.unparse(n.func).endswith(flagfn)]
        if not calls:
            rep.undecide("R19.3", f"no {flagfn} call in {fn}")
            continue
        for cl in calls:
            arg = ast.unparse(cl.args[0]) if cl.args else (ast.unparse(cl.keywords[0].value) if cl.keywords else "")
            inst = f"{fn}: {flagfn}({arg})"
            if arg == want:
                rep.ok("R19.3", inst, None)
            else:
                rep.violation("R19.3", fi.key, inst, f"the flags forwarded to the nested {'Self' if 'special' in fn else 'dataclass'} call must be computed for the class being called "
                              f"({want}): otherwise context / by_alias / omit_none / dialect silently stop at this level", loc=fi.loc)


def _declared_hook(repo: Repo, rep: Report) -> None:
    fi = repo.func(M_BUILDER, "CodeBuilder.get_declared_hook")
    src = ast.unparse(fi.node)
    ok = ("get_class_that_defines_method(method_name, self.cls)" in src and "not is_dataclass_dict_mixin(cls)" in src and "cls.__dict__[method_name]" in src)
    if ok:
        rep.ok("R19.4", "hooks are looked up on the defining class; the mixin placeholder is ignored", None)
    else:
        rep.violation("R19.4", fi.key, "get_declared_hook shape", "a hook must be taken from the class that defines it and the mixin's own placeholder must not count as a hook", loc=fi.loc)


def _speculation(repo: Repo, rep: Report, c) -> None:
    # which packer expressions for a dataclass member are *static helpers* (run that class's hooks whatever the value's class)?
    static_forms = set()
    dynamic_forms = set()
    for it in c.items:
        if it.kind != "return" or it.scenario != "pack.pack_dataclass" or not isinstance(it.value, Tmpl):
            continue
        sk = it.value.skeleton()
        nailed = it.path.atoms.get("bool(B.is_nailed)")
        if re.fullmatch(r"\{\}\.\{\}\(\{\}\)|\{\}\.\{\}\(\)", sk):
            dynamic_forms.add((nailed, sk))
        else:
            static_forms.add((nailed, sk))
    # does pack_union guard non-identity members by class?
    guarded = True
    for it in c.items:
        if it.kind != "buffer" or not it.scenario.startswith("pack.pack_union") or not it.compiled:
            continue
        for i, l in enumerate(it.lines):
            if l.tmpl.skeleton().strip() == "try:" and i + 1 < len(it.lines) and it.lines[i + 1].tmpl.skeleton().strip().startswith("return {}"):
                guarded = False
    if not dynamic_forms and not static_forms:
        rep.undecide("R19.5", "pack_dataclass return forms not found")
        return
    for nailed, sk in sorted(dynamic_forms, key=str):
        rep.ok("R19.5", f"dataclass packer `{sk}` (nailed={nailed}) dispatches on the value's own class", None)
    for nailed, sk in sorted(static_forms, key=str):
        inst = f"dataclass packer `{sk}` (nailed={nailed}) is a per-class static helper tried speculatively in unions"
        if guarded:
            rep.ok("R19.5", inst + " -- but union members are class-guarded", None)
        else:
            rep.violation("R19.5", f"{M_PACK}::pack_union", "unguarded speculative call of a per-class helper in the union packer",
                          "through the codec (non-mixin) path the union packer tries `try: return <Class1 helper>(value)` for a value of Class2: "
                          "Class1's __pre_serialize__ runs on it (and the fallback then runs Class2's hook again)", form=sk)
_ADD6 = " Borrowed: R14.11 (a subclass's hooks are compiled into its own methods)."
EXPLANATION += _ADD6
LEVEL_TEXT += _ADD6
_ADD10 = ' R19.6: contract of get_pack_method_flags / get_unpack_method_flags for a nested class: a flag is forwarded iff both classes enable its option, nothing else.'
EXPLANATION += _ADD10
LEVEL_TEXT += _ADD10
_ADD12 = ' R19.7: outcome contract of get_declared_hook. R19.8: nested dataclasses are packed by a call on the value (dynamic dispatch on the instance class).'
EXPLANATION += _ADD12
LEVEL_TEXT += _ADD12


_run_before_r5 = run


def run(repo, rep, tier):  # noqa: F811 -- round-5 shape rules appended to the rules above
    _run_before_r5(repo, rep, tier)
    if getattr(rep, "borrowed", False):
        return
    from ..core import round5 as _r5
    _r5.mixin_identity_contract(repo, rep, "R19.9")
    _r5.helper_call_flags(repo, rep, "R19.10")


_ADDR5B = ' R19.9: is_dataclass_dict_mixin recognises the library mixin by its fully qualified name, so hooks declared on a user class that shares the bare name are still taken as declared. R19.10: every rendered call of a generated helper that is defined with the pluggable flag parameters passes get_[un]pack_method_flags() (context and the other flags reach the values below a union / literal / named tuple / typed dict helper at every depth).'
EXPLANATION += _ADDR5B
LEVEL_TEXT += _ADDR5B


_run_before_r6b = run


def run(repo, rep, tier):  # noqa: F811 -- round-6 remedies (core/round6.py)
    _run_before_r6b(repo, rep, tier)
    if getattr(rep, "borrowed", False):
        return
    from ..core import round6 as _r6b
    _r6b.flag_lists_owned(repo, rep, "R19.11")
    _r6b.dispatcher_paths_agree(repo, rep, "R13.12")


_ADDR6C = ' R19.11: `<flag>=<flag>` forwarding lists are built in get_pack_method_flags / get_unpack_method_flags only. Borrowed: R13.12.'
EXPLANATION += _ADDR6C
LEVEL_TEXT += _ADDR6C
