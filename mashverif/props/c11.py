"""C11 -- Union, Optional and Literal resolution is deterministic and never swallows data."""

from __future__ import annotations

import ast
import datetime
import decimal
import itertools
import re
import typing
from typing import Any, Dict, List, Optional, Tuple

from ..core import conformance, corpus as corpus_mod, oracle
from ..core.dispatch import Dispatcher, Entry, canonise
from ..core.report import Report
from ..core.scen import is_type_match_eligible
from ..core.skeleton import MARK, Rendered, SkelInterp, render
from ..core.srcmodel import M_PACK, M_UNPACK, Repo, Undecided
from ..core.values import ClsRef, Const, Py, Sym, Tmpl, show

TECHNIQUE = "dispatch simulation of the union unpacker for concrete member lists + exhaustive evaluation of the generated helper against REF_UNION_DECODE"
EXPLANATION = (
    "R11.1: for every ordered union of 2 and 3 members drawn from {int, str, NoneType, date, Decimal} the union unpacker "
    "generator is partially evaluated with the real member unpackers, and the generated helper is evaluated for every "
    "run-time valuation {exact type of the input, member i accepts / rejects}: the outcome must equal REF_UNION_DECODE -- "
    "the input unchanged when its exact type is a basic scalar member, otherwise the first member in declaration order "
    "that accepts it, otherwise an exception; a None member matches only None. R11.5: scalar members are matched by exact "
    "type identity (type(value) is T), never isinstance. R11.6: alternatives are tried under `except Exception`. R11.4: the "
    "helper ends in a raise. R11.7: Literal helpers compare against and return the same repr'd constant (enum literals: "
    "compare .value, return the member). R11.8: the union packer tests identity members by class first and ends in a raise."
)
LEVEL_TEXT = EXPLANATION + " Exhaustive over the listed member kinds (80 ordered unions x all valuations)."
LEVEL_NOTE = ("Not decided: which inputs each member conversion accepts (they are run-time atoms), unions whose members share a "
              "wire form (excluded by the property). Known genuine findings are listed in known_findings.json.")
ASSUMPTIONS = ["member kinds {exact-match scalar, None, converting} represent all union members", "helper type predicates as in dispatch.HELPER_MODEL outside the probe set of R02.8"]

MEMBERS = [int, str, type(None), datetime.date, decimal.Decimal]
SCALAR = {int: "int", str: "str", type(None): "NoneType", float: "float", bool: "bool"}


def _name(t) -> str:
    return "None" if t is type(None) else t.__name__


def union_helper(d: Dispatcher, members) -> Tuple[Optional[ast.FunctionDef], Optional[Rendered], Any, List[str]]:
    t = typing.Union[tuple(members)]  # type: ignore[valid-type]
    outs = d.dispatch(Entry("Union[" + ", ".join(_name(m) for m in members) + "]", t, "union"))
    if len(outs) != 1 or outs[0].value is None:
        return None, None, outs, []
    o = outs[0]
    for bid, lines in o.path.bufs.items():
        if bid == "main" or not lines:
            continue
        if not any("__unpack_union" in l.tmpl.skeleton() for l in lines[:2]):
            continue
        r = render(lines, wrap=False)
        try:
            tree = ast.parse(r.src)
        except SyntaxError:
            return None, r, outs, []
        fn = next((n for n in tree.body if isinstance(n, ast.FunctionDef)), None)
        # canonical text of each member's unpacker (over `value`)
        canon = []
        for m in members:
            canon.append(oracle.ref_unpack(m, "value")[0])
        return fn, r, o, canon
    return None, None, outs, []


def run(repo: Repo, rep: Report, tier: str) -> None:
    d = Dispatcher(repo, "UNPACK")
    # isinstance(x, TypeMatchEligibleExpression) is decided from the construction events
    orig = d.ev.call_py

    def call_py(fv, args, kwargs, p, e):
        import builtins as _b

        if fv.obj is _b.isinstance and len(args) == 2 and isinstance(args[1], ClsRef) and args[1].ci.name == "TypeMatchEligibleExpression":
            return [(Const(is_type_match_eligible(p, args[0])), p)]
        return orig(fv, args, kwargs, p, e)

    d.ev.call_py = call_py  # type: ignore[assignment]
    unions = [list(c) for n in (2, 3) for c in itertools.permutations(MEMBERS, n)
              if not (n == 2 and type(None) in c)]  # Union[T, None] is Optional[T]: decided by C02/C03 (nullable positions)
    classes: Dict[str, List[str]] = {}
    n_val = 0
    n_union = 0
    for members in unions:
        label = "Union[" + ", ".join(_name(m) for m in members) + "]"
        try:
            fn, r, o, canon = union_helper(d, members)
        except Undecided as e:
            rep.undecide("R11.1", f"{label}: {e}")
            continue
        if fn is None:
            rep.undecide("R11.1", f"{label}: no union helper generated ({[x.raised for x in o] if isinstance(o, list) else ''})")
            continue
        n_union += 1
        reg = oracle.registered_objects(o.path)
        holes = {m: oracle.hole_token(h) for m, h in r.holes.items() if oracle.hole_token(h)}

        def canon_expr(txt: str) -> str:
            try:
                tree = ast.parse(txt, mode="eval")
            except SyntaxError:
                return txt
            return ast.unparse(oracle.Canon(reg, holes).visit(tree))

        # R11.4 / R11.5 / R11.6 structural
        body = fn.body
        if not isinstance(body[-1], ast.Raise):
            rep.violation("R11.4", f"{M_UNPACK}::UnionUnpackerBuilder._add_body", f"{label}: helper does not end in raise", "when no member accepts the input the helper must raise")
        for st in ast.walk(fn):
            if isinstance(st, ast.If):
                t = st.test
                ok = (isinstance(t, ast.Compare) and len(t.ops) == 1 and isinstance(t.ops[0], ast.Is)
                      and ast.unparse(t.left) in ("type(value)", "__value_type"))
                if not ok:
                    rep.violation("R11.5", f"{M_UNPACK}::UnionUnpackerBuilder._add_body", f"scalar member guard `{re.sub(r'_h\\d+_', '{}', ast.unparse(t))[:60]}`",
                                  "scalar union members must be matched by exact type identity (type(value) is T): isinstance lets bool through as int "
                                  "and subclasses through as their base")
            if isinstance(st, ast.Try):
                for h in st.handlers:
                    ht = ast.unparse(h.type) if h.type is not None else "<bare>"
                    if ht not in ("Exception", "<bare>", "BaseException"):
                        rep.violation("R11.6", f"{M_UNPACK}::UnionUnpackerBuilder._add_body", f"alternative guarded by `except {ht}`",
                                      "a member that rejects the input with any other exception class aborts the union instead of trying the next member")
        uses_vt = any(isinstance(st, ast.Assign) and ast.unparse(st.targets[0]) == "__value_type" for st in body)
        if "__value_type" in ast.unparse(fn) and not (uses_vt and ast.unparse(body[0]) == "__value_type = type(value)"):
            rep.violation("R11.5", f"{M_UNPACK}::UnionUnpackerBuilder._add_body", f"{label}: __value_type used but not bound to type(value) first", "exact-type test reads an unbound / wrong variable")
        # evaluate
        interp = SkelInterp(may_raise=lambda text, node: True, max_runs=5000)
        try:
            runs = interp.run_body(body)
        except Undecided as e:
            rep.undecide("R11.1", f"{label}: {e}")
            continue
        scalar_members = [m for m in members if m in SCALAR]
        exact_opts = [SCALAR[m] for m in scalar_members] + ["other"]
        for exact in exact_opts:
            for acc in itertools.product([True, False], repeat=len(members)):
                # a member whose exact type matched is irrelevant; None accepts only None
                n_val += 1
                accepts = list(acc)
                for i, m in enumerate(members):
                    if m is type(None):
                        accepts[i] = exact == "NoneType"
                if any(members[i] is type(None) and acc[i] != accepts[i] for i in range(len(members))):
                    continue
                # expected
                if exact != "other":
                    exp = ("return", "value")
                else:
                    exp = ("raise",)
                    for i, m in enumerate(members):
                        if accepts[i]:
                            exp = ("return", canon[i])
                            break
                # matching run
                def consistent(run) -> Optional[bool]:
                    for k, v in run.atoms.items():
                        m1 = re.fullmatch(r"type\(value\) is (\w+)", k)
                        if m1:
                            _guard = m1.group(1)
                            if _guard.startswith("_h"):  # the guard names the type through get_type_name_identifier: resolve the hole
                                _guard = canon_expr(_guard)
                            if (_guard == exact) != v:
                                return False
                            continue
                        m2 = re.fullmatch(r"raises\[[^\]]*\]\(return (.+)\)", k)
                        if m2:
                            ce = canon_expr(m2.group(1))
                            idx = [i for i, c_ in enumerate(canon) if oracle.canon_text(c_) == oracle.canon_text(ce)]
                            if ce == "None":
                                # the constant None "conversion" never raises
                                if v:
                                    return False
                                continue
                            if not idx:
                                return None
                            if (not accepts[idx[0]]) != v:
                                return False
                            continue
                        return None
                    return True

                match = []
                unknown = False
                for run in runs:
                    cns = consistent(run)
                    if cns is None:
                        unknown = True
                    elif cns:
                        match.append(run)
                if unknown and not match:
                    rep.undecide("R11.1", f"{label}: unrecognised run-time test in the union helper")
                    break
                outs = set()
                for run in match:
                    if run.outcome.kind == "return":
                        outs.add(("return", canon_expr(run.outcome.value)))
                    elif run.outcome.kind == "raise":
                        outs.add(("raise",))
                    else:
                        outs.add(("fall",))
                if len(outs) != 1:
                    rep.undecide("R11.1", f"{label}: {len(outs)} outcomes for exact={exact} accepts={accepts}")
                    continue
                act = next(iter(outs))
                ok = act == exp or (act[0] == "return" and exp[0] == "return" and oracle.canon_text(act[1]) == oracle.canon_text(exp[1]))
                if ok:
                    rep.ok("R11.1", f"{label} exact={exact} accepts={accepts}", None, nontrivial=False)
                else:
                    if act == ("return", "None") and exp != ("return", "None"):
                        cls = "input-independent None alternative accepts any input"
                    elif exact != "other" and act[0] == "return" and act[1] != "value":
                        cls = "a converting member declared earlier pre-empts the exact-type match of a basic scalar member"
                    elif exact == "other" and act[0] == "return" and exp[0] == "return":
                        cls = "members are not tried in declaration order"
                    else:
                        cls = f"other: expected {exp} got {act}"
                    classes.setdefault(cls, []).append(f"{label} exact={exact} accepts={accepts}: expected {exp}, helper does {act}")
            else:
                continue
            break
    rep.analysed.update({"unions": n_union, "valuations": n_val})
    rep.distinct.add(("R11.1", f"{n_union} unions"))
    for cls, insts in classes.items():
        rep.violation("R11.1", f"{M_UNPACK}::UnionUnpackerBuilder._add_body", cls,
                      f"union decoding differs from REF_UNION_DECODE in {len(insts)} (union, valuation) cases, e.g. {insts[0]}", examples=insts[:5])
    rep.floor("R11.1", 500)
    if n_union < 60:
        rep.error(f"only {n_union} unions analysed")
    _literal(repo, rep, tier)
    _pack_union(repo, rep, tier)
    # R11.9 Optional[T]: the T conversion guarded by `X is not None`, at every position (top level, elements of every container)
    from .c02 import check_rows

    for kind, mod in (("UNPACK", M_UNPACK), ("PACK", M_PACK)):
        for cbn in (False, True):
            rows = [r for r in conformance.run_catalogue(repo, kind, cbn=cbn, tier=tier)
                    if r.entry.family == "optional" or (r.entry.elem or "").startswith("opt") or "Optional" in r.entry.name]
            check_rows(rep, rows, "R11.9", mod, "Optional resolution differs from `convert if not None else None`")
    rep.floor("R11.9", 30)
    if getattr(rep, "borrowed", False):
        return  # another property borrows main-body rules only
    from ..core import siblings as _sib4
    _sib4.check_special_primitive_mirror(repo, rep, "R11.10")
    from ..core.report import Only as _OnlyX
    from ..core import corpus as _corpusX
    from . import c13 as _c13x, c02 as _c02x
    _c13x._helper_names(repo, _OnlyX(rep, {"R13.9"}), _corpusX.explore_all(repo, tier))
    _c02x.run(repo, _OnlyX(rep, {"R02.1"}), tier)

def _literal(repo: Repo, rep: Report, tier: str) -> None:
    c = corpus_mod.explore_all(repo, tier)
    n = 0
    seen = set()
    for it in c.items:
        if it.kind != "buffer" or not it.compiled:
            continue
        if not (it.scenario.startswith("unpack.LiteralUnpackerBuilder") or it.scenario.startswith("pack.pack_literal") or it.scenario.startswith("pack.pack_special")):
            continue
        ls = it.lines
        for i, l in enumerate(ls[:-1]):
            sk = l.tmpl.skeleton().strip()
            nxt = ls[i + 1].tmpl
            if not sk.startswith("if ") or "==" not in sk or not nxt.skeleton().strip().startswith("return"):
                continue
            hs = [h for h in l.tmpl.holes()]
            lit = [h for h in hs if "LITERAL" in h.val.tags or "ENUMNAME" in h.val.tags]
            if not lit:
                continue
            n += 1
            unpack_side = it.scenario.startswith("unpack")
            k = (it.scenario.split(".")[0], sk, nxt.skeleton())
            if k in seen:
                continue
            seen.add(k)
            inst = f"`{sk}` -> `{nxt.skeleton().strip()}`"
            problems = []
            for h in lit:
                if "LITERAL" in h.val.tags and h.conv != "r":
                    problems.append("literal compared without repr")
            if unpack_side:
                rl = [h for h in nxt.holes() if "LITERAL" in h.val.tags or "ENUMNAME" in h.val.tags]
                if {h.key() for h in rl} != {h.key() for h in lit}:
                    problems.append("the returned constant is not the compared literal")
                if any("ENUMNAME" in h.val.tags for h in lit) and ".value" not in sk:
                    problems.append("enum literal must be compared by .value")
            if problems:
                rep.violation("R11.7", l.site[0], inst, "; ".join(problems))
            else:
                rep.ok("R11.7", inst, {"guard": l.tmpl.show()[:120], "result": nxt.show()[:120]})
    rep.floor("R11.7", 4)


def _pack_union(repo: Repo, rep: Report, tier: str) -> None:
    c = corpus_mod.explore_all(repo, tier)
    n = 0
    seen = set()
    for it in c.items:
        if it.kind != "buffer" or not it.compiled or not it.scenario.startswith("pack.pack_union"):
            continue
        r = render(it.lines, wrap=False)
        if r.src in seen:
            continue
        seen.add(r.src)
        try:
            tree = ast.parse(r.src)
        except SyntaxError:
            continue
        fn = next((x for x in tree.body if isinstance(x, ast.FunctionDef)), None)
        if fn is None:
            continue
        n += 1
        body = fn.body
        kinds = []
        for st in body:
            if isinstance(st, ast.If) and "value.__class__" in ast.unparse(st.test):
                kinds.append("class-guard")
            elif isinstance(st, ast.Try):
                hs = [ast.unparse(h.type) if h.type is not None else "<bare>" for h in st.handlers]
                kinds.append("try" if all(h in ("Exception", "<bare>") for h in hs) else f"try[{hs}]")
            elif isinstance(st, ast.Raise):
                kinds.append("raise")
            else:
                kinds.append(type(st).__name__)
        inst = " ; ".join(kinds)
        good = kinds and kinds[-1] == "raise" and all(k in ("class-guard", "try") for k in kinds[:-1])
        first_try = next((i for i, k in enumerate(kinds) if k == "try"), len(kinds))
        good = good and all(k != "class-guard" for k in kinds[first_try:])
        if good:
            rep.ok("R11.8", f"pack_union helper: {inst}", None)
        else:
            rep.violation("R11.8", f"{M_PACK}::pack_union", f"pack_union helper shape: {inst}",
                          "identity members must be tested by class first, the others tried under `except Exception` in declaration order, ending in a raise",
                          generated=r.describe(r.src)[:800])
    rep.floor("R11.8", 3)
_ADD17 = ' R11.10: pack_special_typing_primitive and unpack_special_typing_primitive share one decision skeleton (same cases, same order, same tests).'
EXPLANATION += _ADD17
LEVEL_TEXT += _ADD17
_ADD22 = ' Borrowed: R13.9, R02.1 (the NoneType / scalar packers that union members are built from).'
EXPLANATION += _ADD22
LEVEL_TEXT += _ADD22


_run_before_r5 = run


def run(repo, rep, tier):  # noqa: F811 -- round-5 shape rules appended to the rules above
    _run_before_r5(repo, rep, tier)
    if getattr(rep, "borrowed", False):
        return
    from ..core import round5 as _r5
    from ..core.report import Only as _O5
    from . import c07 as _c07b
    _c07b._r07_2(repo, _O5(rep, {"R07.2"}))
    _r5.union_guard_class(repo, rep, "R11.12")
    _r5.loop_freshness(repo, rep, "R11.11")
    rep.floor("R11.11", 13)


_ADDR5B = " R11.11: in every loop of the generator modules a variable the loop body assigns is read only after this iteration assigned it, except for the 13 confirmed accumulators / sticky flags of round5.LOOP_CARRIED_OK (a stale loop variable hands the previous member's converter to the next member)."
EXPLANATION += _ADDR5B
LEVEL_TEXT += _ADDR5B
_ADDR5C = " R11.12: pack_union reduces every member type named in the `value.__class__ is/in (...)` guard to its runtime class with get_type_origin() first (no value's class is a generic alias, so a guard naming List[int] never matches)."
EXPLANATION += _ADDR5C
LEVEL_TEXT += _ADDR5C
_ADDR5D = ' Borrowed: R07.2 (an explicit null of an Optional field with a default is stored, not dropped).'
EXPLANATION += _ADDR5D
LEVEL_TEXT += _ADDR5D


_run_before_r6b = run


def run(repo, rep, tier):  # noqa: F811 -- round-6 remedies (core/round6.py)
    _run_before_r6b(repo, rep, tier)
    if getattr(rep, "borrowed", False):
        return
    from ..core import round6 as _r6b
    _r6b.optional_member_selection(repo, rep, "R11.13")
    _r6b.emitted_tuple_displays(repo, rep, "R16.7")


_ADDR6C = ' R11.13: the Optional branch of the registries selects the member with not_none_type_arg, not by position. Borrowed: R16.7.'
EXPLANATION += _ADDR6C
LEVEL_TEXT += _ADDR6C


_run_before_r6c = run


def run(repo, rep, tier):  # noqa: F811 -- round-6 remedies, batch 3
    _run_before_r6c(repo, rep, tier)
    if getattr(rep, "borrowed", False):
        return
    from ..core import round6 as _r6c
    _r6c.identity_guards(repo, rep, "R11.14", "R20.12", "R20.13", only={"R11.14"})


_ADDR6D = ' R11.14: the union unpacker reuses the method under construction only when `spec.owner is spec.type`.'
EXPLANATION += _ADDR6D
LEVEL_TEXT += _ADDR6D


_run_before_r7tp = run


def run(repo, rep, tier):  # noqa: F811 -- round 7: type-level helper contracts borrowed from C02
    _run_before_r7tp(repo, rep, tier)
    if getattr(rep, "borrowed", False):
        return
    from ..core import typepreds as _tp7
    _tp7.model_agreement(repo, rep, "R02.8", tier)
    _tp7.reference_cases(repo, rep, "R02.9")


_ADDR7TP = " Borrowed: R02.8 / R02.9 (the type predicates and type-level helpers, interpreted from their own source over the catalogue types and a reference table, answer as the dispatch model and the documentation say)."
EXPLANATION += _ADDR7TP
LEVEL_TEXT += _ADDR7TP


_run_before_r7a = run


def run(repo, rep, tier):  # noqa: F811 -- round-7 remedies / borrowings
    _run_before_r7a(repo, rep, tier)
    if getattr(rep, "borrowed", False):
        return
    from ..core import round6 as _r6r7
    from ..core import round7 as _r7
    _r6r7.element_positions_nullable(repo, rep, "R05.15")
    _r7.literal_conditions_guarded(repo, rep, "R11.15")


_ADD_R7A = ' R11.15: in the Literal unpacker a condition that splices a converter expression (a Registry.get result, which raises on foreign input) sits inside an emitted `try:`; comparisons over the raw value need none. Borrowed: R05.15 (no site forces could_be_none=False for a union member / element).'
EXPLANATION += _ADD_R7A
LEVEL_TEXT += _ADD_R7A


_run_before_r7n = run


def run(repo, rep, tier):  # noqa: F811 -- round-7 remedies / borrowings
    _run_before_r7n(repo, rep, tier)
    if getattr(rep, "borrowed", False):
        return
    from ..core import round7 as _r7n
    _r7n.type_refs_not_by_bare_name(repo, rep, "R17.15")


_ADD_R7N = ' Borrowed: R17.15 (the exact-type guard of a union member names the type through the type-name machinery, not by its bare __name__).'
EXPLANATION += _ADD_R7N
LEVEL_TEXT += _ADD_R7N
