"""C10 -- The most specific customization wins."""

from __future__ import annotations

import ast
import re
from typing import Dict, List, Optional, Tuple

from ..core.dispatch import registered
from ..core.pe import Path
from ..core.report import Report
from ..core.scen import make_eval, symbolic_spec
from ..core.srcmodel import AnalysisError, M_BUILDER, M_PACK, M_UNPACK, Repo, walk_no_nested
from ..core.values import Const, Lst, Obj, Sym, Tmpl, Tup, show

TECHNIQUE = "decision-list extraction (partial evaluation) of the customization resolvers, sibling comparison serialize/deserialize, guard analysis of the strategy-source generator"
EXPLANATION = (
    "C10 is an ordering, so it is decided structurally. R10.1: all paths of get_overridden_serialization_method: the "
    "field's serialize option returns first; the type keys are tried in the order [Annotated/NewType alias (if any), "
    "exact type, generic origin]; for each key the strategy sources are consulted in the order iter_serialization_strategies "
    "yields them; pass_through returns at once; dict strategies use their 'serialize' entry; SerializationStrategy objects "
    "use the annotation-aware wrapper or .serialize; the first non-None wins. R10.2: the deserialize-side resolver has the "
    "same decision table under the renaming serialize<->deserialize. R10.3: the sources are yielded in the order field "
    "strategy, call dialect, Config.dialect, Config.serialization_strategy, format dialect, and each yield is guarded only "
    "by the presence of its own namespace. R10.4: both resolvers are the first registered functions of their registries. "
    "R10.5: pass_through at the winning level returns the input expression unchanged. R10.6: unhashable type keys skip customization."
)
LEVEL_TEXT = EXPLANATION
LEVEL_NOTE = "Not decided: behaviour of user-supplied strategies. The property is an order; the order is what is checked."
ASSUMPTIONS = ["user callables are opaque"]

T_PREC_SOURCES = ["metadata", "self.dialect", "config.dialect", "config", "self.default_dialect"]


def decision_table(repo: Repo, module: str, name: str, word: str) -> Tuple[List[Tuple], List[str]]:
    fi = repo.func(module, name)
    ev = make_eval(repo, inline_depth=1, allow_inline={name}, force_opaque={"_pack_with_annotated_serialization_strategy", "_unpack_with_annotated_serialization_strategy"})
    p = Path()
    spec = symbolic_spec(ev, p)
    paths = ev.run(fi, {"spec": spec}, p)
    rows = []
    orders = set()

    def norm(s: str) -> str:
        s = s.replace(word, "XXX").replace("_pack_with", "_W_with").replace("_unpack_with", "_W_with")
        return re.sub(r"elem\d+\.(\d+)", r"elem.\1", s)

    for q in paths:
        ct = q.env.get("checking_types")
        if isinstance(ct, Lst):
            orders.add(" > ".join(show(x) for x in ct.items))
        for w in q.worlds():
            facts = tuple(sorted((norm(k), repr(v)) for k, v in w.items()))
            rv = norm(show(q.retv)) if q.retv is not None else str(q.ctl)
            rows.append((facts, rv))
    return sorted(set(rows)), sorted(orders)


def run(repo: Repo, rep: Report, tier: str) -> None:
    ser, ser_orders = decision_table(repo, M_PACK, "get_overridden_serialization_method", "serialize")
    des, des_orders = decision_table(repo, M_UNPACK, "get_overridden_deserialization_method", "deserialize")
    rep.analysed.update({"serialize_rows": len(ser), "deserialize_rows": len(des)})
    want_orders = ["spec.annotated_type > spec.type > spec.origin_type", "spec.type > spec.origin_type"]
    for side, orders, mod, fn in (("serialize", ser_orders, M_PACK, "get_overridden_serialization_method"),
                                  ("deserialize", des_orders, M_UNPACK, "get_overridden_deserialization_method")):
        inst = f"{side}: type keys tried {orders}"
        if sorted(orders) == sorted(want_orders):
            rep.ok("R10.1", inst, {"orders": orders})
        else:
            rep.violation("R10.1", f"{mod}::{fn}", inst, "type-key specificity order must be [Annotated/NewType alias if any, exact type, generic origin]",
                          loc=repo.func(mod, fn).loc)
    # the rows of one side: sanity of the per-strategy decision list
    def check_rows(rows, side, mod, fn):
        n = 0
        for facts, rv in rows:
            f = dict(facts)
            n += 1
            opt_none = next((v for k, v in f.items() if re.search(r"I\|spec\.field_ctx\.metadata\.get\(XXX\)", k)), None)
            if opt_none != "'None'":
                # the field option is not None -> it must be what is returned
                if "spec.field_ctx.metadata.get(XXX)" not in rv and not any(k.startswith("X|spec.field_ctx.metadata.get(XXX)") for k in f):
                    pass
        return n

    check_rows(ser, "serialize", M_PACK, "get_overridden_serialization_method")
    # first decision: field option returns first
    for side, rows, mod, fn in (("serialize", ser, M_PACK, "get_overridden_serialization_method"), ("deserialize", des, M_UNPACK, "get_overridden_deserialization_method")):
        direct = [rv for facts, rv in rows if any(k.startswith("X|spec.field_ctx.metadata.get(XXX)") and "None" in v for k, v in facts)]
        if direct and all(rv == "spec.field_ctx.metadata.get(XXX)" for rv in direct):
            rep.ok("R10.1", f"{side}: field option wins over every strategy source ({len(direct)} valuations)", None)
        else:
            rep.violation("R10.1", f"{mod}::{fn}", f"{side}: field option not returned first", "the field's serialize/deserialize option must take precedence over all strategies",
                          loc=repo.func(mod, fn).loc)
        pt = [rv for facts, rv in rows if any(re.search(r"I\|elem\.\d+$", k) and v == "'pass_through'" for k, v in facts)]
        if pt and all(rv == "pass_through" for rv in pt):
            rep.ok("R10.1", f"{side}: pass_through strategy returns pass_through at once ({len(pt)} valuations)", None)
        else:
            rep.violation("R10.1", f"{mod}::{fn}", f"{side}: pass_through not returned at once", "pass_through at the winning level must stop the search",
                          loc=repo.func(mod, fn).loc)
    # R10.2 sibling agreement
    sa, sb = set(ser), set(des)
    if sa == sb:
        rep.ok("R10.2", f"serialize and deserialize resolvers have the same decision table ({len(sa)} rows)", {"rows": len(sa), "sample": [str(x)[:200] for x in list(sa)[:2]]})
    else:
        only_s = sorted(sa - sb)[:3]
        only_d = sorted(sb - sa)[:3]
        rep.violation("R10.2", f"{M_PACK}::get_overridden_serialization_method", f"decision tables differ ({len(sa - sb)} rows only on the serialize side, {len(sb - sa)} only on the deserialize side)",
                      "the same precedence rules must govern serialization and deserialization", only_serialize=[str(x)[:300] for x in only_s], only_deserialize=[str(x)[:300] for x in only_d])
    rep.floor("R10.1", 6)
    if len(ser) < 20:
        rep.error(f"only {len(ser)} rows in the serialize decision table")
    if _r10_3_semantic(repo, rep):
        from ..core.report import Only as _O

        class _Quiet(_O):
            def undecide(self, *a, **k):
                pass

            def floor(self, *a, **k):
                pass

        _r10_3(repo, _Quiet(rep, {"R10.3"}))
    else:
        _r10_3(repo, rep)
    # R10.4 first registrations
    for mod, want in ((M_PACK, "pack_type_with_overridden_serialization"), (M_UNPACK, "unpack_type_with_overridden_deserialization")):
        regs = registered(repo, mod)
        if regs[0].node.name == want:
            rep.ok("R10.4", f"{want} is the first registered function of its registry", None)
        else:
            rep.violation("R10.4", regs[0].key, f"first registration is {regs[0].node.name}", "customizations must be consulted before any built-in behaviour", loc=regs[0].loc)
    # R10.5 pass_through returns the expression itself
    for mod, fn, res in ((M_PACK, "pack_type_with_overridden_serialization", "get_overridden_serialization_method"),
                         (M_UNPACK, "unpack_type_with_overridden_deserialization", "get_overridden_deserialization_method")):
        fi = repo.func(mod, fn)
        ev = make_eval(repo, inline_depth=1)
        p = Path()
        spec = symbolic_spec(ev, p)
        paths = ev.run(fi, {"spec": spec}, p)
        found = False
        for q in paths:
            for w in q.worlds():
                if any(k.startswith("I|") and res in k and v == "pass_through" for k, v in w.items()):
                    found = True
                    if q.retv is not None and show(q.retv) == "spec.expression":
                        rep.ok("R10.5", f"{fn}: pass_through -> spec.expression", None)
                    else:
                        rep.violation("R10.5", fi.key, f"pass_through -> {show(q.retv) if q.retv else None}", "pass_through must leave the value untouched", loc=fi.loc)
        if not found:
            rep.undecide("R10.5", f"no pass_through path found in {fn}")
    # R10.6 is_hashable guard
    fi = repo.func(M_BUILDER, "CodeBuilder.iter_serialization_strategies")
    txt = ast.unparse(fi.node)
    if re.search(r"if is_hashable\(ftype\):", txt):
        rep.ok("R10.6", "type keys are looked up only when hashable", None)
    else:
        rep.violation("R10.6", fi.key, "no is_hashable(ftype) guard", "an unhashable type key would raise instead of skipping customization", loc=fi.loc)
    from ..core import regget
    regget.report(repo, rep, "R10.7", {"annotated-innermost", "real-type"})
    # rules of sibling properties that are necessary conditions of this one as well (same rule ids)
    from ..core.report import Only
    from ..core import corpus as _corpus
    from . import c13 as _c13
    _c13._slots(repo, Only(rep, {"R13.3"}), _corpus.explore_all(repo, tier))
    from ..core import helper_contracts as _hc
    _hc.report(repo, rep, "R10.9", _hc.get_config_contract(repo), "mashumaro.core.meta.code.builder::CodeBuilder.get_config")
    from ..core import helper_contracts as _hc2
    _hc2.report(repo, rep, "R09.6", _hc2.dataclass_fields_contract(repo), "mashumaro.core.meta.code.builder::CodeBuilder.dataclass_fields")
    from ..core import siblings as _sib4
    _sib4.check_special_primitive_mirror(repo, rep, "R11.10")
    from ..core.report import Only as _OnlyX
    from ..core import corpus as _corpusX
    from . import c14 as _c14x
    _c14x.run(repo, _OnlyX(rep, {"R14.1", "R14.1b", "R14.3", "R14.4"}), tier)

REF_ORDER = ["metadata.get(serialization_strategy)", "B.dialect.serialization_strategy.get(ftype)", "B.get_config().dialect.serialization_strategy.get(ftype)",
             "B.get_config().serialization_strategy.get(ftype)", "B.default_dialect.serialization_strategy.get(ftype)"]


def _r10_3_semantic(repo: Repo, rep: Report) -> bool:
    """R10.3 decided on the evaluated generator: on every path of iter_serialization_strategies the yielded sequence is
    the reference order field > call dialect > Config.dialect > Config > default dialect, restricted to the levels that
    exist on that path (a dialect that is None is skipped), and nothing at all for an unhashable type."""
    from ..core.pe import Path
    from ..core.scen import make_eval
    from ..core.values import Func, Lst, Sym, show

    names = {"iter_serialization_strategies", "__iter_serialization_strategies"}
    ev = make_eval(repo, inline_depth=3, allow_inline=names)
    ev.inline_generators = names
    p = Path()
    B = ev.builder_obj(p)
    fi = repo.func(M_BUILDER, "CodeBuilder.iter_serialization_strategies")
    dummy = ast.parse("f(x)").body[0].value
    try:
        res = ev.call_func(Func(fi, self_v=B), [Sym("metadata"), Sym("ftype")], {}, p, dummy, force=True)
    except Exception:
        return False
    decided = False
    n = 0
    for v, q in res:
        if q.ctl == "raise" or not isinstance(v, Lst) or v.open:
            continue
        for w in q.worlds():
            idn = Path._view(w, "I|")
            at = Path._view(w, "A|")
            got = [show(i) for i in v.items]
            absent = {"B.dialect": REF_ORDER[1], "B.get_config().dialect": REF_ORDER[2], "B.default_dialect": REF_ORDER[4]}
            want = [r for r in REF_ORDER if not any(idn.get(k) == "None" and r == src for k, src in absent.items())]
            if next((b for k, b in at.items() if "is_hashable(ftype)" in k), True) is False:
                want = []
            n += 1
            decided = True
            cond = ", ".join(f"{k} is None" for k, val in sorted(idn.items()) if val == "None") or "all levels present"
            if got == want:
                rep.ok("R10.3", f"[{cond}{'' if want else ', unhashable type'}] strategies yielded in the order {' > '.join(x.split('.serialization_strategy')[0] for x in got) or '(none)'}", None)
            else:
                rep.violation("R10.3", f"{M_BUILDER}::CodeBuilder.__iter_serialization_strategies", f"[{cond}] strategy levels are consulted in the order {got}",
                              f"documented precedence is field > call dialect > Config.dialect > Config.serialization_strategy > format default dialect: expected {want}; "
                              "a class with default dialect D must behave like the same class called with dialect=D", loc=fi.loc)
    return decided and n >= 6


def _r10_3(repo: Repo, rep: Report) -> None:
    seq: List[Tuple[str, List[str]]] = []
    for name in ("CodeBuilder.iter_serialization_strategies", "CodeBuilder.__iter_serialization_strategies"):
        fi = repo.func(M_BUILDER, name)
        aliases: Dict[str, str] = {}
        for n in walk_no_nested(fi.node):
            if isinstance(n, ast.Assign) and isinstance(n.targets[0], ast.Name):
                aliases[n.targets[0].id] = ast.unparse(n.value)

        def visit(stmts, guards):
            for st in stmts:
                if isinstance(st, ast.If):
                    visit(st.body, guards + [ast.unparse(st.test)])
                    visit(st.orelse, guards + ["not (" + ast.unparse(st.test) + ")"])
                elif isinstance(st, ast.Expr) and isinstance(st.value, ast.Yield):
                    seq.append((ast.unparse(st.value.value), list(guards), aliases, fi))
                elif isinstance(st, ast.Expr) and isinstance(st.value, ast.YieldFrom):
                    seq.append(("<from> " + ast.unparse(st.value.value), list(guards), aliases, fi))
                elif isinstance(st, (ast.For, ast.While, ast.With, ast.Try)):
                    visit(getattr(st, "body", []), guards + [f"<{type(st).__name__}>"])

        visit(fi.node.body, [])
    # flatten: the outer generator's `yield from` is replaced by the inner yields (already appended in order)
    flat = [(v, g, a, fi) for v, g, a, fi in seq if not v.startswith("<from>")]

    def source_of(v: str, aliases) -> Optional[str]:
        for var, val in aliases.items():
            v = re.sub(rf"(?<![\w.]){var}\b", val, v) if var in ("default_dialect",) else v
        if v.startswith("metadata.get("):
            return "metadata"
        if v.startswith("self.dialect."):
            return "self.dialect"
        if v.startswith("self.get_config().dialect."):
            return "config.dialect"
        if v.startswith("self.get_config().serialization_strategy"):
            return "config"
        if v.startswith("self.default_dialect."):
            return "self.default_dialect"
        return None

    got = []
    for v, guards, aliases, fi in flat:
        src = source_of(v, aliases)
        got.append(src)
        if src is None:
            rep.undecide("R10.3", f"unrecognised strategy source `{v}`")
            continue
        own = {"metadata": r"is_hashable\(ftype\)", "self.dialect": r"self\.dialect", "config.dialect": r"default_dialect|get_config\(\)\.dialect",
               "config": r"$^", "self.default_dialect": r"self\.default_dialect"}[src]
        foreign = []
        for g in guards:
            g2 = re.sub(r"is_hashable\(ftype\)", "", g)
            names = set(re.findall(r"(self\.default_dialect|self\.dialect|default_dialect|self\.get_config\(\)\.dialect|[A-Za-z_][\w.]*\()", g2))
            for nm in names:
                if not re.search(own, nm) and not nm.startswith(("is_dialect_subclass(", "BadDialect(")):
                    foreign.append(nm)
            if g.startswith("not (") and "is_dialect_subclass" not in g:
                foreign.append(g)
        inst = f"yield from {src}: guards {guards}"
        if foreign:
            rep.violation("R10.3", fi.key, inst, f"the {src} level is consulted only under a condition on another level ({sorted(set(foreign))}): "
                          "a level that does not register the type must not hide the next one", loc=fi.loc)
        else:
            rep.ok("R10.3", inst, {"source": src, "guards": guards})
    if got == T_PREC_SOURCES:
        rep.ok("R10.3", "sources yielded in the order " + " > ".join(got), {"order": got})
    elif None not in got:
        rep.violation("R10.3", f"{M_BUILDER}::CodeBuilder.__iter_serialization_strategies", "source order " + " > ".join(map(str, got)),
                      "documented precedence: field strategy > call dialect > Config.dialect > Config.serialization_strategy > format dialect")
    rep.floor("R10.3", 5)


_ADDENDUM = ' R10.7: Registry.get makes the innermost Annotated type the current annotated_type unconditionally and dispatches on the substituted origin. Borrowed: R13.3 (dialect cache slots are specialised by format and type arguments).'
EXPLANATION += _ADDENDUM
LEVEL_TEXT += _ADDENDUM
_ADD2 = ' R10.9: contract of get_config (as R08.8).'
EXPLANATION += _ADD2
LEVEL_TEXT += _ADD2
_ADD3 = " Borrowed: R09.6 (dataclass_fields: the nearest ancestor's Field wins; a bare re-annotation drops the inherited Field)."
EXPLANATION += _ADD3
LEVEL_TEXT += _ADD3
_ADD17 = ' Borrowed: R11.10.'
EXPLANATION += _ADD17
LEVEL_TEXT += _ADD17
_ADD22 = ' Borrowed: R14.1 / R14.3 / R14.4 (lazy stubs recompile the same slot with the same dialects).'
EXPLANATION += _ADD22
LEVEL_TEXT += _ADD22


_run_before_r5 = run


def run(repo, rep, tier):  # noqa: F811 -- round-5 shape rules appended to the rules above
    _run_before_r5(repo, rep, tier)
    if getattr(rep, "borrowed", False):
        return
    from ..core import round5 as _r5
    from ..core.report import Only as _O5
    from . import c13 as _c13b, c14 as _c14b
    _c13b._codecs(repo, _O5(rep, {"R13.5"}))
    _c14b._ownership(repo, _O5(rep, {"R14.8", "R14.9"}))
    _r5.valuespec_ownership(repo, rep, "R18.8")


_ADDR5B = ' Borrowed: R18.8 (nested specs are derived with spec.copy, so dialect options reach nested positions).'
EXPLANATION += _ADDR5B
LEVEL_TEXT += _ADDR5B
_ADDR5D = " Borrowed: R13.5 (codecs merge the user's dialect over the format dialect, never the reverse), R14.8 / R14.9 (strategy tables are never mutated or deep-copied in place: pass_through keeps its identity)."
EXPLANATION += _ADDR5D
LEVEL_TEXT += _ADDR5D


_run_before_r6b = run


def run(repo, rep, tier):  # noqa: F811 -- round-6 remedies (core/round6.py)
    _run_before_r6b(repo, rep, tier)
    if getattr(rep, "borrowed", False):
        return
    from ..core import round6 as _r6b
    _r6b.codec_dialect_merge_order(repo, rep, "R04.7")


_ADDR6C = '  Borrowed: R04.7.'
EXPLANATION += _ADDR6C
LEVEL_TEXT += _ADDR6C


_run_before_r6c = run


def run(repo, rep, tier):  # noqa: F811 -- round-6 remedies, batch 3
    _run_before_r6c(repo, rep, tier)
    if getattr(rep, "borrowed", False):
        return
    from ..core import round6 as _r6c
    _r6c.codec_binds_from_attrs(repo, rep, "R10.9")


_ADDR6D = " R10.9: pack_dataclass / unpack_dataclass bind nested methods from the builder's own holder only."
EXPLANATION += _ADDR6D
LEVEL_TEXT += _ADDR6D


_run_before_r7df = run


def run(repo, rep, tier):  # noqa: F811 -- round 7: CodeBuilder.dataclass_fields evaluated on inheritance shapes (typepreds.py)
    _run_before_r7df(repo, rep, tier)
    if getattr(rep, "borrowed", False):
        return
    from ..core import typepreds as _tp7df
    _tp7df.builder_method_cases(repo, rep, "R07.9")


_ADDR7DF = (" R07.9: CodeBuilder.dataclass_fields is interpreted from its own source (type-level evaluator, stub builder) on six inheritance shapes "
            "-- two dataclass bases, an own Field, a bare re-annotation, a finished dataclass, a diamond, no ancestor -- and must return, per "
            "name, the Field object of the nearest declaring ancestor, as dataclasses itself does.")
EXPLANATION += _ADDR7DF
LEVEL_TEXT += _ADDR7DF


_run_before_r7rt = run


def run(repo, rep, tier):  # noqa: F811 -- round 7: get_real_type leaves the trusted base
    _run_before_r7rt(repo, rep, tier)
    if getattr(rep, "borrowed", False):
        return
    from ..core import typepreds as _tprt
    _tprt.real_type_cases(repo, rep, "R01.7")


_ADD_R7RT = ' Borrowed: R01.7 (get_real_type substitutes the parameters of the defining class).'
EXPLANATION += _ADD_R7RT
LEVEL_TEXT += _ADD_R7RT
