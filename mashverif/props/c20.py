"""C20 -- Schema generation is total, well formed and closed."""

from __future__ import annotations

import ast
import copy
from typing import Any, Dict, List, Optional, Set, Tuple

from ..core.pe import Path
from ..core.report import Report
from ..core.schemadisp import CONTEXT, INSTANCE, SchemaDispatcher, describe
from ..core.srcmodel import AnalysisError, M_SCHEMA, M_SCHEMA_BUILDER, M_SCHEMA_MODELS, Repo, Undecided, walk_no_nested
from ..core.values import Const, Dct, Func, Lst, Obj, Sym, Tmpl, show
from ..core.dispatch import catalogue

TECHNIQUE = "path-sensitive partial evaluation of on_dataclass (reference/definition pairing), call-graph cycle and guard analysis, dataflow of the user ref_prefix, class-body rules on the default-rendering throw-away class, sibling symmetry on the schema model hooks"
EXPLANATION = (
    "R20.1 closure: on every path of every schema creator that returns a schema carrying `reference`, the reference is "
    "`<prefix>/<K>` where the same path stored ctx.definitions[K] and <prefix> is ctx.ref_prefix (or the dialect's root pointer "
    "when it is unset). R20.2 context handling: both entry points normalise a user ref_prefix identically before storing it, "
    "a supplied context shares (not copies) its definitions mapping, JSONSchemaBuilder.build/get_definitions use the builder's "
    "own context. R20.3 default rendering: the throw-away class neutralises every key-dropping / key-renaming option "
    "(omit_none, omit_default, serialize_by_alias) both in its Config and in the inherited Config.dialect, reads back the key "
    "it declared, gives the field no class-level default (dataclasses reject list/dict/set defaults) and is not memoised on "
    "its (possibly unhashable) arguments. R20.4 termination: every cycle get_schema -> creator -> get_schema that descends "
    "into a dataclass's own fields is cut by a visited/definitions test before the descent. R20.5 model symmetry: the `$` "
    "aliases are serialized and parsed by alias, const/default use a MISSING sentinel distinct from null and the two sentinel "
    "blocks in each hook agree modulo renaming. R20.6 totality: explicit raise sites in schema.py are exactly the confirmed "
    "ones and get_schema's only failure is the final NotImplementedError; the types the packer supports but the schema "
    "registry rejects are listed."
)
LEVEL_TEXT = EXPLANATION + " Decides the listed structural necessary conditions; metaschema validity of concrete outputs is not decided."
LEVEL_NOTE = ("Not decided: metaschema validity of concrete outputs, plugin behaviour, exceptions raised inside the code builder while "
              "rendering a default of an unsupported type.")
ASSUMPTIONS = ["key-dropping / renaming options of the serializer are exactly omit_none, omit_default, serialize_by_alias (C07/C08 tables)"]

KEY_OPTIONS = ("omit_none", "omit_default", "serialize_by_alias")

# explicit raise sites of schema.py: (function, exception) -> count, each read and confirmed
RAISES = {
    ("get_schema", "NotImplementedError"): 1,          # no creator matched
    ("on_special_typing_primitive", "NotImplementedError"): None,  # counted below, any number is unsupported-type reporting
}


def run(repo: Repo, rep: Report, tier: str) -> None:
    try:
        _closure(repo, rep)
    except Undecided as ex:
        rep.undecide("closure", str(ex))
    try:
        _context(repo, rep)
    except Undecided as ex:
        rep.undecide("context", str(ex))
    try:
        _default(repo, rep)
    except Undecided as ex:
        rep.undecide("default", str(ex))
    try:
        _recursion(repo, rep)
    except Undecided as ex:
        rep.undecide("recursion", str(ex))
    try:
        _models(repo, rep)
    except Undecided as ex:
        rep.undecide("models", str(ex))
    _totality(repo, rep, tier)
    _fresh_schemas(repo, rep)
    _fields_guard(repo, rep)
    from . import c10 as _c10
    from ..core.report import Only as _Only3
    _c10._r10_3_semantic(repo, _Only3(rep, {"R10.3"}))
    from ..core.report import Only as _OnlyX
    from ..core import corpus as _corpusX
    from . import c02 as _c02x
    _c02x.run(repo, _OnlyX(rep, {"R02.1"}), tier)

# --------------------------------------------------------------------------- R20.1

def _fresh_schemas(repo: Repo, rep: Report) -> None:
    """R20.7: every registered schema creator returns a schema object created by this call (a JSONSchema(...) family
    constructor, or what get_schema / another creator / an apply_* decorator returned for this call) -- never an object
    that outlives the call (module-level constant or table entry): on_dataclass / on_named_tuple write `default` and
    `description` onto the schemas they receive, so a shared object carries one field's default into every other
    field, definition and later build."""
    mi = repo.module(M_SCHEMA)
    module_names = set()
    for st in mi.tree.body:
        if isinstance(st, (ast.Assign, ast.AnnAssign)):
            for t in (st.targets if isinstance(st, ast.Assign) else [st.target]):
                if isinstance(t, ast.Name):
                    module_names.add(t.id)
    n = 0
    for fn in mi.tree.body:
        if not (isinstance(fn, ast.FunctionDef) and (fn.name.startswith("on_") or fn.name in ("get_schema", "_get_schema_or_none"))):
            continue
        local_fresh = {}
        for st in walk_no_nested(fn):
            if isinstance(st, ast.Assign) and len(st.targets) == 1 and isinstance(st.targets[0], ast.Name):
                local_fresh.setdefault(st.targets[0].id, []).append(st.value)

        def origin(e, depth=0):
            """'fresh' | 'none' | 'shared:<text>' | 'unknown:<text>'"""
            if isinstance(e, ast.Constant) and e.value is None:
                return "none"
            if isinstance(e, ast.Call):
                f = ast.unparse(e.func)
                if f.endswith("Schema") or f in ("get_schema", "_get_schema_or_none", "replace", "copy", "deepcopy") or f.startswith(("on_", "apply_")) or f.endswith((".from_dict", ".copy", ".get_schema")) or f == "schema_creator":
                    return "fresh"
                return f"unknown:{ast.unparse(e)[:50]}"
            if isinstance(e, ast.IfExp):
                a, b = origin(e.body, depth), origin(e.orelse, depth)
                return a if a.startswith(("shared", "unknown")) else b
            if isinstance(e, ast.Name):
                if e.id in local_fresh and depth < 3:
                    rs = [origin(v, depth + 1) for v in local_fresh[e.id]]
                    bad = [r for r in rs if r.startswith(("shared", "unknown"))]
                    return bad[0] if bad else "fresh"
                if e.id in module_names:
                    return f"shared:{e.id}"
                return "fresh" if e.id in ("schema", "new_schema") else f"unknown:{e.id}"
            if isinstance(e, ast.Subscript) or isinstance(e, ast.Attribute):
                base = e
                while isinstance(base, (ast.Subscript, ast.Attribute, ast.Call)):
                    base = base.value if not isinstance(base, ast.Call) else base.func
                if isinstance(base, ast.Name) and base.id in module_names:
                    return f"shared:{ast.unparse(e)[:50]}"
                return f"unknown:{ast.unparse(e)[:50]}"
            return f"unknown:{ast.unparse(e)[:50]}"

        for st in walk_no_nested(fn):
            if isinstance(st, ast.Return) and st.value is not None:
                n += 1
                o = origin(st.value)
                if o.startswith("shared"):
                    rep.violation("R20.7", f"{M_SCHEMA}::{fn.name}", f"{fn.name} returns a module-level schema object ({o[7:]})",
                                  "callers decorate the schema they receive (default, description, $schema): a shared object leaks one field's default into every other use, "
                                  "into definitions already collected and into later builds", loc=f"mashumaro/jsonschema/schema.py:{st.lineno}")
                elif o.startswith("unknown"):
                    rep.undecide("R20.7", f"{fn.name}: cannot tell where `{o[8:]}` comes from")
                else:
                    rep.ok("R20.7", f"{fn.name}:{'none' if o == 'none' else 'fresh object'} `{ast.unparse(st.value)[:50]}`", None, nontrivial=(o != "none"))
    rep.floor("R20.7", 40)


def _fields_guard(repo: Repo, rep: Report) -> None:
    """R20.8: Instance.fields skips a type-hinted name exactly when it has no dataclass Field (an attribute annotated in a
    non-dataclass base) or its Field has init=False -- decided by evaluating the guard over the three cases."""
    fi = repo.func(M_SCHEMA, "Instance.fields")
    loop = next((n for n in fi.node.body if isinstance(n, ast.For)), None)
    guard = None
    if loop is not None:
        for st in loop.body:
            if isinstance(st, ast.If) and any(isinstance(x, ast.Continue) for x in st.body) and "f" in {n.id for n in ast.walk(st.test) if isinstance(n, ast.Name)}:
                guard = st.test
                break
    if guard is None:
        rep.undecide("R20.8", "skip guard of Instance.fields not found")
        return

    class _F:
        def __init__(self, init):
            self.init = init

    def ev(e, f):
        if isinstance(e, ast.BoolOp):  # short-circuit, like Python
            for v in e.values:
                r = ev(v, f)
                if isinstance(e.op, ast.And) and not r:
                    return False
                if isinstance(e.op, ast.Or) and r:
                    return True
            return isinstance(e.op, ast.And)
        if isinstance(e, ast.UnaryOp) and isinstance(e.op, ast.Not):
            return not ev(e.operand, f)
        if isinstance(e, ast.Name) and e.id == "f":
            return f is not None
        if isinstance(e, ast.Attribute) and isinstance(e.value, ast.Name) and e.value.id == "f":
            if f is None:
                raise AttributeError(e.attr)
            return getattr(f, e.attr)
        if isinstance(e, ast.Compare) and len(e.ops) == 1 and isinstance(e.comparators[0], ast.Constant) and e.comparators[0].value is None:
            l = ev_obj(e.left, f)
            return (l is None) if isinstance(e.ops[0], ast.Is) else (l is not None)
        raise ValueError(ast.unparse(e))

    def ev_obj(e, f):
        if isinstance(e, ast.Name) and e.id == "f":
            return f
        raise ValueError(ast.unparse(e))

    problems = []
    for label, f, want in (("no Field", None, True), ("Field(init=False)", _F(False), True), ("Field(init=True)", _F(True), False)):
        try:
            got = bool(ev(guard, f))
        except AttributeError as ex:
            problems.append(f"{label}: the guard dereferences f.{ex} although there is no Field")
            continue
        except ValueError as ex:
            rep.undecide("R20.8", f"guard `{ast.unparse(guard)}` not evaluable ({ex})")
            return
        if got != want:
            problems.append(f"{label}: skipped={got}, expected {want}")
    if problems:
        rep.violation("R20.8", fi.key, f"skip guard `{ast.unparse(guard)}`: " + "; ".join(problems),
                      "a name that is annotated in a non-dataclass base class reaches `f.default` with f = None: build_json_schema raises AttributeError for a supported class", loc=fi.loc)
    else:
        rep.ok("R20.8", f"Instance.fields skips names without a Field and init=False fields (`{ast.unparse(guard)}`)", None)


def _closure(repo: Repo, rep: Report) -> None:
    mi = repo.module(M_SCHEMA)
    ref_sites = []
    for fn in mi.tree.body:
        if isinstance(fn, ast.FunctionDef):
            for n in ast.walk(fn):
                if isinstance(n, ast.Call) and any(k.arg == "reference" for k in n.keywords):
                    ref_sites.append((fn.name, n))
                if isinstance(n, ast.Assign) and isinstance(n.targets[0], ast.Attribute) and n.targets[0].attr == "reference":
                    ref_sites.append((fn.name, n))
    if not ref_sites:
        raise AnalysisError("no reference emission site in schema.py")
    funcs = sorted({f for f, _ in ref_sites})
    for fname in funcs:
        if fname != "on_dataclass":
            rep.undecide("R20.1", f"reference emitted by {fname}: no scenario for this creator")
            continue
        d = SchemaDispatcher(repo)
        ev = d.ev
        ev.steps = 0
        p = Path()
        inst = ev.new_obj(p, INSTANCE, {"type": Sym("DC"), "origin_type": Sym("DC"), "name": Const(None), "annotations": Lst([]),
                                        "metadata": Dct("dict", {}, name="metadata")})
        ctx = ev.new_obj(p, CONTEXT, {"all_refs": Sym("ctx.all_refs"), "definitions": Dct("dict", {}, name="definitions"), "dialect": Sym("ctx.dialect"),
                                      "ref_prefix": Sym("ctx.ref_prefix"), "plugins": Lst([])})
        ev.models["method:fields"] = lambda pe, recv, a, kw, q, e: [(Lst([]), q)] if isinstance(recv, Obj) and recv.cls == INSTANCE else None
        fi = repo.func(M_SCHEMA, fname)
        dummy = ast.parse("f(x)").body[0].value
        res = ev.call_func(Func(fi), [inst, ctx], {}, p, dummy, force=True)
        n_ref = 0
        for v, q in res:
            if q.ctl == "raise" or not isinstance(v, Obj):
                continue
            ref = q.heap.get(v.oid, {}).get("reference")
            defs = q.heap[ctx.oid]["definitions"]
            atoms = dict(q.atoms)
            if ref is None or (isinstance(ref, Const) and ref.v is None):
                if atoms.get("bool(ctx.all_refs)") is True:
                    rep.violation("R20.1", fi.key, "all_refs set but the dataclass schema is inlined", "with all_refs every dataclass is emitted as a reference to a collected definition", loc=fi.loc)
                continue
            n_ref += 1
            txt = show(ref)
            if not (isinstance(ref, Tmpl) and len([h for h in ref.parts if not isinstance(h, str)]) == 2):
                rep.violation("R20.1", fi.key, f"reference `{txt}` is not <prefix>/<key>", "a $ref must be the configured prefix, '/', and the key of a collected definition", loc=fi.loc)
                continue
            holes = [h for h in ref.parts if not isinstance(h, str)]
            lits = [h for h in ref.parts if isinstance(h, str)]
            prefix, key = show(holes[0].val), show(holes[1].val)
            if lits != ["/"]:
                rep.violation("R20.1", fi.key, f"reference `{txt}`: prefix and key are not joined by exactly one '/'", "the $ref does not resolve under the configured prefix", loc=fi.loc)
                continue
            if key not in defs.entries:
                rep.violation("R20.1", fi.key, f"reference to `{key}` but definitions stored under {sorted(defs.entries)}", "the $ref names a definition that was not collected in the context", loc=fi.loc)
                continue
            has_prefix = atoms.get("bool(ctx.ref_prefix)")
            want = "ctx.ref_prefix" if has_prefix is not False else "ctx.dialect.definitions_root_pointer"
            if prefix != want:
                rep.violation("R20.1", fi.key, f"reference prefix `{prefix}` where `{want}` is configured", "the $ref does not start with the configured prefix", loc=fi.loc)
                continue
            rep.ok("R20.1", f"{fname} [{', '.join(f'{k}={v}' for k, v in sorted(atoms.items()))}]: $ref {txt} with definitions[{key}] stored on the same path", {"ref": txt})
        if n_ref == 0:
            rep.violation("R20.1", fi.key, "no path returns a reference", "all_refs must produce references", loc=fi.loc)
    rep.floor("R20.1", 2)


# --------------------------------------------------------------------------- R20.2

def _norm_of(expr: ast.expr, param: str) -> Optional[str]:
    """Normalisation applied to ``param`` inside ``expr`` ('' for none, None if param does not flow)."""
    t = ast.unparse(expr)
    if param not in {n.id for n in ast.walk(expr) if isinstance(n, ast.Name)}:
        return None
    if isinstance(expr, ast.Name):
        return ""
    if isinstance(expr, ast.Call) and isinstance(expr.func, ast.Attribute) and isinstance(expr.func.value, ast.Name) and expr.func.value.id == param:
        return f".{expr.func.attr}({', '.join(ast.unparse(a) for a in expr.args)})"
    return t


def _context(repo: Repo, rep: Report) -> None:
    from ..core import ownership

    oka, bada = ownership.param_attr_stores(repo)
    mine = [(fi, t, ln) for fi, t, ln in bada if fi.module == M_SCHEMA_BUILDER]
    for fi, txt, ln in mine:
        rep.violation("R20.2", fi.key, f"per-call option written into the caller's Context: `{txt}`",
                      "dialect / all_refs / ref_prefix / plugins given for one build must not stick in a Context (or builder) the caller reuses: later builds would emit references "
                      "with a stale prefix or switch to all-refs output", loc=f"{fi.loc.split(':')[0]}:{ln}")
    if not mine:
        rep.ok("R20.2", "per-call options are stored only in the per-build Context created by build_json_schema", None)
    bjs = repo.func(M_SCHEMA_BUILDER, "build_json_schema")
    init = repo.func(M_SCHEMA_BUILDER, "JSONSchemaBuilder.__init__")
    norms = {}
    for fi in (bjs, init):
        found = []
        for n in walk_no_nested(fi.node):
            if isinstance(n, ast.Assign) and isinstance(n.targets[0], ast.Attribute) and n.targets[0].attr == "ref_prefix":
                r = _norm_of(n.value, "ref_prefix")
                if r is not None:
                    found.append(r)
            if isinstance(n, ast.Call) and ast.unparse(n.func) == "Context":
                for k in n.keywords:
                    if k.arg == "ref_prefix":
                        r = _norm_of(k.value, "ref_prefix")
                        if r is not None:
                            found.append(r)
        norms[fi.key] = found
    a, b = norms[bjs.key], norms[init.key]
    if not a or not b:
        rep.undecide("R20.2", f"user ref_prefix does not visibly flow into Context.ref_prefix: {norms}")
    elif set(a) == set(b) == {".rstrip('/')"}:
        rep.ok("R20.2", "both entry points store the user's ref_prefix through .rstrip('/')", norms)
    else:
        rep.violation("R20.2", init.key if set(b) != {".rstrip('/')"} else bjs.key, f"ref_prefix normalisation differs between the entry points: build_json_schema {sorted(set(a))} / JSONSchemaBuilder {sorted(set(b))}",
                      "references are emitted as f'{ref_prefix}/{name}': a prefix with a trailing '/' yields '//' and the $ref no longer starts with the configured prefix joined once; the two entry points must agree",
                      loc=init.loc)
    # shared definitions
    ctx_call = next((n for n in walk_no_nested(bjs.node) if isinstance(n, ast.Call) and ast.unparse(n.func) == "Context" and n.keywords), None)
    if ctx_call is None:
        if not mine:
            rep.undecide("R20.2", "build_json_schema does not rebuild the supplied Context")
    else:
        kw = {k.arg: ast.unparse(k.value) for k in ctx_call.keywords}
        if kw.get("definitions") == "context.definitions":
            rep.ok("R20.2", "a supplied context shares its definitions mapping with the per-build context", kw)
        else:
            rep.violation("R20.2", bjs.key, f"per-build context gets definitions={kw.get('definitions')}", "definitions collected by one build must be visible to later builds and get_definitions()", loc=bjs.loc)
        for f in ("dialect", "all_refs", "ref_prefix", "plugins"):
            if kw.get(f) != f"context.{f}":
                rep.violation("R20.2", bjs.key, f"per-build context drops `{f}` of the supplied context ({kw.get(f)})", "builds through one builder must use the builder's configuration", loc=bjs.loc)
            else:
                rep.ok("R20.2", f"per-build context copies `{f}` from the supplied context", None)
    build = repo.func(M_SCHEMA_BUILDER, "JSONSchemaBuilder.build")
    bt = " ".join(ast.unparse(build.node).split())
    if "context=self.context" in bt and "with_definitions=False" in bt:
        rep.ok("R20.2", "JSONSchemaBuilder.build passes its own context and leaves definitions to get_definitions", None)
    else:
        rep.violation("R20.2", build.key, "JSONSchemaBuilder.build does not build in the builder's context", "definitions must accumulate across builds", loc=build.loc)
    gd = " ".join(ast.unparse(repo.func(M_SCHEMA_BUILDER, "JSONSchemaBuilder.get_definitions").node).split())
    if "self.context.definitions" in gd:
        rep.ok("R20.2", "get_definitions reads the builder's context", None)
    else:
        rep.violation("R20.2", f"{M_SCHEMA_BUILDER}::JSONSchemaBuilder.get_definitions", "get_definitions does not read self.context.definitions", "definitions must accumulate across builds")
    # with_definitions attaches the context's map
    if "schema.definitions = context.definitions" in " ".join(ast.unparse(bjs.node).split()):
        rep.ok("R20.2", "with_definitions attaches the definitions collected in the same context", None)
    else:
        rep.violation("R20.2", bjs.key, "with_definitions does not attach context.definitions", "emitted references must name attached definitions", loc=bjs.loc)


# --------------------------------------------------------------------------- R20.3

def _class_assigns(cls: ast.ClassDef) -> Dict[str, str]:
    out = {}
    for st in cls.body:
        if isinstance(st, ast.Assign) and isinstance(st.targets[0], ast.Name):
            out[st.targets[0].id] = ast.unparse(st.value)
    return out


def _default(repo: Repo, rep: Report) -> None:
    fi = repo.func(M_SCHEMA, "_default")
    fn = fi.node
    for dec in fn.decorator_list:
        t = ast.unparse(dec)
        if "cache" in t:
            rep.violation("R20.3", fi.key, f"`_default` memoised with @{t}", "defaults may be unhashable (list / dict / set defaults of NamedTuple fields, dataclass instances with eq): hashing the arguments raises TypeError and the build crashes", loc=fi.loc)
    if not any("cache" in ast.unparse(d) for d in fn.decorator_list):
        rep.ok("R20.3", "_default is not memoised on its arguments", None)
    classes = [n for n in ast.walk(fn) if isinstance(n, ast.ClassDef)]
    cc = next((c for c in classes if any(isinstance(s, ast.ClassDef) and s.name == "Config" for s in c.body)), None)
    if cc is None:
        # the throw-away class may have been moved into a module-level helper that _default calls: follow one level
        for call in ast.walk(fn):
            if isinstance(call, ast.Call) and isinstance(call.func, ast.Name):
                callee = repo.funcs.get(f"{M_SCHEMA}::{call.func.id}")
                if callee is None:
                    continue
                for c in (n for n in ast.walk(callee.node) if isinstance(n, ast.ClassDef)):
                    if any(isinstance(x, ast.ClassDef) and x.name == "Config" for x in c.body):
                        cc, fn = c, callee.node
                        break
            if cc is not None:
                break
    if cc is None:
        rep.undecide("R20.3", "throw-away class with a nested Config not found in _default")
        return
    cfg = next(s for s in cc.body if isinstance(s, ast.ClassDef) and s.name == "Config")
    a = _class_assigns(cfg)
    for opt in KEY_OPTIONS:
        if a.get(opt) == "False":
            rep.ok("R20.3", f"throw-away Config sets {opt} = False", None)
        else:
            rep.violation("R20.3", fi.key, f"throw-away Config leaves {opt} to the owner's Config", f"an owner Config with {opt}=True drops or renames key 'x' in the rendered dict and the lookup raises KeyError", loc=fi.loc)
    # the dialect inherited from the owner's config
    d = a.get("dialect")
    if d is None:
        rep.violation("R20.3", fi.key, "key-dropping options of Config.dialect reach the throw-away class", "options of Config.dialect outrank Config options: omit_none / omit_default carried by the dialect drop key 'x'", loc=fi.loc)
    elif d == "None":
        rep.ok("R20.3", "throw-away Config drops the owner's dialect", None)
    else:
        dcls = next((c for c in classes if c is not cc and c is not cfg and any(ast.unparse(b) in ("plain_dialect", "config_cls.dialect") for b in c.bases)), None)
        flows = any(isinstance(n, ast.Assign) and ast.unparse(n.targets[0]) == d and dcls is not None and ast.unparse(n.value) == dcls.name for n in ast.walk(fn))
        da = _class_assigns(dcls) if dcls is not None else {}
        missing = [o for o in KEY_OPTIONS if da.get(o) != "False"]
        if dcls is None or not flows or missing:
            rep.violation("R20.3", fi.key, "key-dropping options of Config.dialect reach the throw-away class", f"the dialect given to the throw-away Config does not neutralise {missing or KEY_OPTIONS}", loc=fi.loc)
        else:
            rep.ok("R20.3", "the dialect inherited from the owner's Config is subclassed with the key options reset", da)
    # field declaration and read-back key
    anns = [s for s in cc.body if isinstance(s, ast.AnnAssign) and isinstance(s.target, ast.Name)]
    if len(anns) != 1:
        rep.undecide("R20.3", f"throw-away class declares {len(anns)} fields")
        return
    fld = anns[0]
    if fld.value is not None and "default_factory" not in ast.unparse(fld.value):
        rep.violation("R20.3", fi.key, f"throw-away dataclass field declared with a class-level default `{ast.unparse(fld.value)}`",
                      "dataclasses reject list / dict / set class-level defaults (ValueError: mutable default): a NamedTuple field default [] crashes the build", loc=fi.loc)
    else:
        rep.ok("R20.3", "throw-away dataclass field has no class-level default", None)
    ret = next((n for n in walk_no_nested(fn) if isinstance(n, ast.Return)), None)
    rt = ast.unparse(ret.value) if ret is not None and ret.value is not None else ""
    if rt.endswith(f"['{fld.target.id}']") and ".to_dict()" in rt:
        rep.ok("R20.3", f"rendered default read back under the declared field name '{fld.target.id}'", None)
    else:
        rep.violation("R20.3", fi.key, f"rendered default read back as `{rt}`", "the key read back must be the declared field", loc=fi.loc)
    # every call site passes the owner's config
    calls = 0
    for f2 in repo.funcs.values():
        if f2.module != M_SCHEMA:
            continue
        for n in walk_no_nested(f2.node):
            if isinstance(n, ast.Call) and ast.unparse(n.func) == "_default":
                calls += 1
                if len(n.args) + len(n.keywords) != 3:
                    rep.violation("R20.3", f2.key, "`_default` called without the owner's config", "defaults must be rendered with the owner's serialization strategies", loc=f2.loc)
                else:
                    rep.ok("R20.3", f"{f2.qualname}: _default(type, value, {ast.unparse(n.args[2]) if len(n.args) == 3 else '...'})", None)
    rep.floor("R20.3", 8)


# --------------------------------------------------------------------------- R20.4

def _recursion(repo: Repo, rep: Report) -> None:
    """Cycle get_schema -> on_dataclass -> (fields) get_schema: must be cut by a visited test before the descent."""
    fi = repo.func(M_SCHEMA, "on_dataclass")
    loop = next((n for n in walk_no_nested(fi.node) if isinstance(n, ast.For) and "instance.fields()" in ast.unparse(n.iter)), None)
    if loop is None:
        rep.undecide("R20.4", "field descent loop of on_dataclass not found")
        return
    descends = any(isinstance(n, ast.Call) and ast.unparse(n.func) in ("get_schema", "_get_schema_or_none") for n in ast.walk(loop))
    if not descends:
        rep.undecide("R20.4", "on_dataclass does not descend through get_schema")
        return
    # statements that precede the loop on the path to it (same function, before loop.lineno)
    guard = False
    for n in walk_no_nested(fi.node):
        if getattr(n, "lineno", 10 ** 9) >= loop.lineno:
            continue
        if isinstance(n, ast.Compare) and any(isinstance(op, (ast.In, ast.NotIn)) for op in n.ops):
            t = ast.unparse(n)
            if "definitions" in t or "visited" in t or "in_progress" in t or "seen" in t:
                guard = True
        if isinstance(n, ast.Assign) and ast.unparse(n.targets[0]).startswith("ctx.definitions["):
            guard = True
        if isinstance(n, ast.Call) and isinstance(n.func, ast.Attribute) and n.func.attr in ("get", "setdefault") and "definitions" in ast.unparse(n.func.value):
            guard = True
    if guard:
        rep.ok("R20.4", "on_dataclass consults / registers the class in the context before descending into its fields", None)
    else:
        rep.violation("R20.4", fi.key, "unguarded cycle get_schema -> on_dataclass -> get_schema over the class's own fields",
                      "a dataclass that refers to itself (directly, through Optional/List or through another class) recurses without bound: RecursionError instead of a schema", loc=fi.loc)


# --------------------------------------------------------------------------- R20.5

def _rename(node: ast.AST, a: str) -> str:
    n = copy.deepcopy(node)
    for x in ast.walk(n):
        if isinstance(x, ast.Name) and x.id == a:
            x.id = "X"
        if isinstance(x, ast.Attribute) and x.attr == a:
            x.attr = "X"
        if isinstance(x, ast.Constant) and x.value == a:
            x.value = "X"
    return ast.unparse(n)


def _models(repo: Repo, rep: Report) -> None:
    ci = repo.cls(M_SCHEMA_MODELS, "JSONSchema")
    cfg = next((s for s in ci.node.body if isinstance(s, ast.ClassDef) and s.name == "Config"), None)
    if cfg is None:
        raise AnalysisError("JSONSchema.Config not found")
    a = _class_assigns(cfg)
    try:
        aliases = ast.literal_eval(a.get("aliases", "{}"))
    except Exception:
        aliases = {}
    fields = {s.target.id: s for s in ci.node.body if isinstance(s, ast.AnnAssign) and isinstance(s.target, ast.Name)}
    want = {"schema": "$schema", "reference": "$ref", "definitions": "$defs"}
    if aliases == want and all(k in fields for k in aliases):
        rep.ok("R20.5", f"`$` keywords aliased: {aliases}", None)
    else:
        rep.violation("R20.5", ci.key, f"keyword aliases {aliases}", f"the schema document must use {want}", loc=ci.loc)
    for opt, val in (("serialize_by_alias", "True"), ("omit_none", "True")):
        if a.get(opt) == val:
            rep.ok("R20.5", f"JSONSchema.Config.{opt} = {val}", None)
        else:
            rep.violation("R20.5", ci.key, f"JSONSchema.Config.{opt} = {a.get(opt)}", "the document is written by alias without null-valued keywords, and parsed back by alias", loc=ci.loc)
    if a.get("allow_deserialization_not_by_alias") in (None, "False") and "forbid_extra_keys" not in a:
        rep.ok("R20.5", "from_dict reads the `$` aliases (no strict extra-key rejection of unknown keywords)", None)
    for name in ("const", "default"):
        f = fields.get(name)
        t = ast.unparse(f.value) if f is not None and f.value is not None else ""
        if "default_factory" in t and "MISSING" in t:
            rep.ok("R20.5", f"`{name}` defaults to the MISSING sentinel (absent != null)", None)
        else:
            rep.violation("R20.5", ci.key, f"`{name}` declared as `{t}`", "an absent keyword and an explicit null must stay distinct through from_dict/to_dict", loc=ci.loc)
    # hook symmetry
    for hook in ("__pre_serialize__", "__post_serialize__"):
        h = next((s for s in ci.node.body if isinstance(s, ast.FunctionDef) and s.name == hook), None)
        if h is None:
            rep.violation("R20.5", ci.key, f"{hook} missing", "const/default null handling needs both hooks", loc=ci.loc)
            continue
        blocks: Dict[str, List[str]] = {"const": [], "default": []}
        for st in h.body:
            t = ast.unparse(st)
            hit = [n for n in blocks if any((isinstance(x, ast.Name) and x.id == n) or (isinstance(x, ast.Attribute) and x.attr == n) or (isinstance(x, ast.Constant) and x.value == n) for x in ast.walk(st))]
            if len(hit) == 1:
                blocks[hit[0]].append(_rename(st, hit[0]))
        if blocks["const"] and blocks["const"] == blocks["default"]:
            rep.ok("R20.5", f"{hook}: const and default sentinel blocks agree modulo renaming ({len(blocks['const'])} statements)", None)
        else:
            rep.violation("R20.5", f"{ci.key}.{hook}", f"{hook}: const / default sentinel handling differs", "const and default share one null/absent encoding; the two blocks must agree", loc=ci.loc,
                          const=blocks["const"], default=blocks["default"])
    # Null/MISSING must not leak: post hook handles both sentinel states
    post = next((s for s in ci.node.body if isinstance(s, ast.FunctionDef) and s.name == "__post_serialize__"), None)
    if post is not None:
        t = ast.unparse(post)
        for name in ("const", "default"):
            ok = f"{name} is MISSING" in t and f"{name} is Null" in t and f"d.pop('{name}')" in t and f"d['{name}'] = None" in t
            if ok:
                rep.ok("R20.5", f"__post_serialize__ removes an absent `{name}` and writes null for Null", None)
            else:
                rep.violation("R20.5", f"{ci.key}.__post_serialize__", f"`{name}` sentinel states not both resolved", "MISSING must be dropped and Null must become JSON null", loc=ci.loc)
    rep.floor("R20.5", 9)


# --------------------------------------------------------------------------- R20.6

def _totality(repo: Repo, rep: Report, tier: str) -> None:
    mi = repo.module(M_SCHEMA)
    gs = repo.func(M_SCHEMA, "get_schema")
    last = gs.node.body[-1]
    if isinstance(last, ast.Raise) and "NotImplementedError" in ast.unparse(last):
        rep.ok("R20.6", "get_schema ends in NotImplementedError when no creator matched", None)
    else:
        rep.violation("R20.6", gs.key, "get_schema does not end in NotImplementedError", "an unsupported type must be reported as NotImplementedError", loc=gs.loc)
    raises = {}
    for fn in mi.tree.body:
        if isinstance(fn, ast.FunctionDef):
            for n in ast.walk(fn):
                if isinstance(n, ast.Raise) and n.exc is not None:
                    e = n.exc.func if isinstance(n.exc, ast.Call) else n.exc
                    raises.setdefault((fn.name, ast.unparse(e)), 0)
                    raises[(fn.name, ast.unparse(e))] += 1
    other = {k: v for k, v in raises.items() if k[1] != "NotImplementedError"}
    for k, v in sorted(raises.items()):
        if k[1] == "NotImplementedError":
            rep.ok("R20.6", f"{k[0]}: {v} x raise NotImplementedError (unsupported type report)", None)
    for k, v in sorted(other.items()):
        rep.violation("R20.6", f"{M_SCHEMA}::{k[0]}", f"{k[0]} raises {k[1]}", "schema creators report unsupported input only through NotImplementedError; any other explicit raise makes the build crash on a supported configuration")
    d = SchemaDispatcher(repo)
    unsupported, supported = [], 0
    for e in catalogue(tier):
        try:
            res = d.schema_of(e)
        except Undecided as ex:
            rep.undecide("R20.6", f"{e.name}: {ex}")
            continue
        excs = {exc for v, q, exc in res if v is None}
        if excs and all(v is None for v, q, exc in res):
            if not all("NotImplementedError" in x for x in excs):
                rep.violation("R20.6", f"{M_SCHEMA}::get_schema", f"{e.name}: raises {sorted(excs)}", "a type outside the schema grammar must be rejected with NotImplementedError")
            unsupported.append(e.name)
        elif excs:
            rep.violation("R20.6", f"{M_SCHEMA}::get_schema", f"{e.name}: raises {sorted(excs)} on some generator paths", "schema building must not depend on unrelated conditions")
        else:
            supported += 1
            rep.ok("R20.6", f"{e.name}: a schema on every path", None)
    rep.analysed["schema_supported"] = supported
    rep.analysed["packable_but_no_schema"] = sorted(set(unsupported))
    rep.floor("R20.6", 100)
_ADD8 = ' R20.7: schema creators return objects created by the call, never module-level ones. Borrowed: R10.3 (no strategy lookup with an unhashable type).'
EXPLANATION += _ADD8
LEVEL_TEXT += _ADD8
_ADD16 = ' R20.8: the skip guard of Instance.fields, evaluated over {no Field, init=False, init=True}.'
EXPLANATION += _ADD16
LEVEL_TEXT += _ADD16
_ADD22 = ' Borrowed: R02.1 (defaults are rendered through the packers).'
EXPLANATION += _ADD22
LEVEL_TEXT += _ADD22


_run_before_r5 = run


def run(repo, rep, tier):  # noqa: F811 -- round-5 shape rules appended to the rules above
    _run_before_r5(repo, rep, tier)
    if getattr(rep, "borrowed", False):
        return
    from ..core import round5 as _r5
    from ..core.report import Only as _O5
    from . import c06 as _c06b
    _c06b._override_sibling(repo, _O5(rep, {"R06.11"}))
    _r5.override_consulted_first(repo, rep, "R06.14")
    _r5.nonempty_schema_arrays(repo, rep, "R20.9")
    _r5.namespace_default_is_value(repo, rep, "R20.10")


_ADDR5B = ' R20.9: schemaArray keywords (prefixItems, anyOf, oneOf, allOf) are never rendered as an empty list (`<list> or None`, a non-empty display, or a comprehension over union members).'
EXPLANATION += _ADDR5B
LEVEL_TEXT += _ADDR5B
_ADDR5C = ' Borrowed: R06.14.'
EXPLANATION += _ADDR5C
LEVEL_TEXT += _ADDR5C
_ADDR5D = " Borrowed: R06.11 (the schema-side override resolver tolerates every strategy form the packer's does)."
EXPLANATION += _ADDR5D
LEVEL_TEXT += _ADDR5D
_ADDR5F = ' R20.10: a default that Instance.fields reads from the class namespace is filtered for slot member descriptors (dataclasses with slots=True keep one under every field name), so `default` is always a value.'
EXPLANATION += _ADDR5F
LEVEL_TEXT += _ADDR5F


_run_before_r6 = run


def run(repo, rep, tier):  # noqa: F811 -- round-6 shape rules appended to the rules above
    _run_before_r6(repo, rep, tier)
    if getattr(rep, "borrowed", False):
        return
    from ..core import round6 as _r6
    _r6.nullability_through_annotated(repo, rep, "R05.14")
    _r6.instance_type_state(repo, rep, "R20.11")


_ADDR6A = ' Borrowed: R05.14 (nullability of Annotated[Optional[X], ...] positions).'
EXPLANATION += _ADDR6A
LEVEL_TEXT += _ADDR6A
_ADDR6B = ' R20.11: every write of Instance.type outside update_type is followed by update_type (origin_type and the dataclass builder with its type arguments are derived facts; typestate pairing).'
EXPLANATION += _ADDR6B
LEVEL_TEXT += _ADDR6B


_run_before_r6c = run


def run(repo, rep, tier):  # noqa: F811 -- round-6 remedies, batch 3
    _run_before_r6c(repo, rep, tier)
    if getattr(rep, "borrowed", False):
        return
    from ..core import round6 as _r6c
    _r6c.identity_guards(repo, rep, "R11.14", "R20.12", "R20.13", only={"R20.12", "R20.13"})


_ADDR6D = " R20.12: the re-entry guard of on_type_with_overridden_serialization compares the override's return type with instance.type (the attribute update_type replaces). R20.13: Instance.derive resolves forward references in the globals of self.type."
EXPLANATION += _ADDR6D
LEVEL_TEXT += _ADDR6D


_run_before_r7a = run


def run(repo, rep, tier):  # noqa: F811 -- round-7 remedies / borrowings
    _run_before_r7a(repo, rep, tier)
    if getattr(rep, "borrowed", False):
        return
    from ..core import round7 as _r7
    _r7.no_memoised_schema_functions(repo, rep, "R20.14")


_ADD_R7A = ' R20.14: no function of mashumaro/jsonschema taking arguments is memoised with lru_cache / cache (arguments are types and Annotated metadata, legally unhashable; cached_property is the accepted idiom).'
EXPLANATION += _ADD_R7A
LEVEL_TEXT += _ADD_R7A
