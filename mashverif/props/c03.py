"""C03 -- Deserialization follows the documented coercions and is well typed."""

from __future__ import annotations

import ast
from typing import Dict, List

from ..core import conformance
from ..core.report import Report
from ..core.srcmodel import M_UNPACK, Repo
from .c02 import check_rows

TECHNIQUE = "dispatch-table simulation of the unpacker registry over a supported-type catalogue, compared with an independent reference semantics"
EXPLANATION = (
    "R03.1: for every entry of the supported-type catalogue the registered unpackers are partially evaluated in "
    "registration order exactly as Registry.get calls them (nested Registry.get resolved recursively); the complete "
    "emitted expression, canonicalised by the *objects* its helper names and type references are bound to "
    "(ensure_object_imported events, get_type_name_identifier), must equal REF_UNPACK(type): the documented constructor "
    "or parser of the annotated type, the canonical concrete class for ABC annotations (list/set/dict) and the very class "
    "of the annotation for concrete collections, every element/key/value position converted, tuple index arithmetic, "
    "None short-circuit at nullable element positions. R03.4: helper bodies of NamedTuple-with-defaults (stop only at "
    "IndexError) and TypedDict (required keys by subscript in declaration order, optional keys by get(..., MISSING))."
)
LEVEL_TEXT = EXPLANATION + " Exhaustive over the catalogue (finite); decides the generated program per type family."
LEVEL_NOTE = (
    "Trusted base: dispatch.HELPER_MODEL (stdlib-only model of the helper type predicates; checked against the helpers by R02.8 on the probe set) and oracle.ref_unpack "
    "(transcribed from the README). Not decided: what the named constructors accept on foreign input, REF_DECODE equality "
    "for concrete values, dataclass/union members (C05/C07/C11)."
)
ASSUMPTIONS = ["helper type predicates behave as the stdlib-only model in dispatch.HELPER_MODEL on types outside the probe set of R02.8 (on the probe set the agreement is checked)",
               "class hierarchy of the analysing interpreter's standard library"]


def run(repo: Repo, rep: Report, tier: str) -> None:
    rows = conformance.run_catalogue(repo, "UNPACK", cbn=False, tier=tier)
    check_rows(rep, rows, "R03.1", M_UNPACK, "deserialization of this type family differs from the documented coercion")
    rows2 = conformance.run_catalogue(repo, "UNPACK", cbn=True, tier=tier)
    check_rows(rep, rows2, "R03.1", M_UNPACK, "deserialization at a nullable position differs from the documented coercion")
    rep.analysed.update({"catalogue": len(rows), "registered_unpackers": len({f for r in rows for f in r.funcs})})
    rep.floor("R03.1", 150)
    table: Dict[str, List[str]] = {}
    for r in rows:
        table.setdefault("/".join(r.funcs), []).append(r.entry.name)
    rep.samples.append({"rule": "R03.1", "dispatch_table": {k: v[:6] for k, v in table.items()}})
    for r in rows:
        if r.entry.family not in ("typeddict", "namedtuple-defaults"):
            continue
        want = (conformance.ref_typeddict_body(r.entry.type, "UNPACK") if r.entry.family == "typeddict"
                else conformance.ref_namedtuple_defaults_body(r.entry.type))
        for o in r.outcomes:
            got = conformance.helper_body(o)
            inst = f"UNPACK helper of {r.entry.name}"
            if got == want:
                rep.ok("R03.4", inst, {"body": got})
            else:
                fn = "unpack_typed_dict" if r.entry.family == "typeddict" else "unpack_named_tuple"
                rep.violation("R03.4", f"{M_UNPACK}::{fn}", inst, "generated helper body differs from the documented behaviour", actual=got, reference=want)
    rep.floor("R03.4", 3)
    if getattr(rep, "borrowed", False):
        return  # another property borrows main-body rules only
    from ..core import regget
    regget.report(repo, rep, "R03.6", {"first-match-in-order", "raise-otherwise", "real-type"})
    # rules of sibling properties that are necessary conditions of this one as well (same rule ids)
    from ..core.report import Only
    from . import c01 as _c01, c11 as _c11
    _c01._r01_2(repo, Only(rep, {"R01.2"}))
    _c11.run(repo, Only(rep, {"R11.5", "R11.7"}), tier)
    from ..core import helper_contracts as _hc2
    _hc2.report(repo, rep, "R09.6", _hc2.dataclass_fields_contract(repo), "mashumaro.core.meta.code.builder::CodeBuilder.dataclass_fields")
    from ..core import helper_contracts as _hc3
    _hc3.report(repo, rep, "R01.6", _hc3.type_param_collection_contract(repo), "mashumaro.core.meta.helpers::collect_type_params")
    from ..core.report import Only as _OnlyX
    from ..core import corpus as _corpusX
    from . import c09 as _c09x
    _c09x.run(repo, _OnlyX(rep, {"R09.2"}), tier)

_ADDENDUM = ' R03.6: Registry.get contract as for C02. Borrowed: R01.2 (parse_timezone sign), R11.5 / R11.7 (scalar fast path and Literal branches of the union / literal unpackers).'
EXPLANATION += _ADDENDUM
LEVEL_TEXT += _ADDENDUM
_ADD3 = " Borrowed: R09.6 (dataclass_fields: the nearest ancestor's Field wins; a bare re-annotation drops the inherited Field)."
EXPLANATION += _ADD3
LEVEL_TEXT += _ADD3
_ADD7 = ' Borrowed: R01.6.'
EXPLANATION += _ADD7
LEVEL_TEXT += _ADD7
_ADD22 = ' Borrowed: R09.2 (the per-field block stores what the key rules prescribe).'
EXPLANATION += _ADD22
LEVEL_TEXT += _ADD22


_run_before_r5 = run


def run(repo, rep, tier):  # noqa: F811 -- round-5 shape rules appended to the rules above
    _run_before_r5(repo, rep, tier)
    if getattr(rep, "borrowed", False):
        return
    from ..core import round5 as _r5
    # R03.7: PEP 646 star syntax of builtin generics as a codec shape (not normalised by typing.get_type_hints there)
    import datetime as _D5
    from ..core.dispatch import Entry as _E5
    _star = [_E5("tuple[int, *tuple[date, ...]] (builtin star syntax)", tuple[int, *tuple[_D5.date, ...]], "unpacktuple", "conv")]
    check_rows(rep, conformance.run_entries(repo, "UNPACK", _star), "R03.7", M_UNPACK, "the starred member is not recognised as an unpacked part")
    rep.floor("R03.7", 1)
    from ..core.report import Only as _O5
    from . import c01 as _c01b
    _c01b._r01_5(repo, _O5(rep, {"R01.5"}))
    _r5.positional_annotation_lookup(repo, rep, "R18.9")


_ADDR5B = " Borrowed: R18.9 (a user deserialize callable's input annotation is looked up by position)."
EXPLANATION += _ADDR5B
LEVEL_TEXT += _ADDR5B
_ADDR5D = ' Borrowed: R01.5 (specialised from_dict methods are named by an injective digest of module-qualified type names).'
EXPLANATION += _ADDR5D
LEVEL_TEXT += _ADDR5D
_ADDR5E = ' R03.7: the same comparison for `tuple[int, *tuple[date, ...]]` written with the builtin star syntax (a types.GenericAlias with __unpacked__, which reaches the registries un-normalised when it is a codec shape).'
EXPLANATION += _ADDR5E
LEVEL_TEXT += _ADDR5E


_run_before_r6b = run


def run(repo, rep, tier):  # noqa: F811 -- round-6 remedies (core/round6.py)
    _run_before_r6b(repo, rep, tier)
    if getattr(rep, "borrowed", False):
        return
    from ..core import round6 as _r6b
    _r6b.format_dialect_tables(repo, rep, "R03.8")
    _r6b.element_positions_nullable(repo, rep, "R05.15")


_ADDR6C = " R03.8: a whole-entry pass_through in a format dialect table is allowed only for types the format's decoder returns natively (bytes for msgpack; date/time/datetime for TOML). Borrowed: R05.15."
EXPLANATION += _ADDR6C
LEVEL_TEXT += _ADDR6C


_run_before_r7tp = run


def run(repo, rep, tier):  # noqa: F811 -- round 7: type-level helper contracts borrowed from C02
    _run_before_r7tp(repo, rep, tier)
    if getattr(rep, "borrowed", False):
        return
    from ..core import typepreds as _tp7
    _tp7.model_agreement(repo, rep, "R02.8", tier)
    _tp7.reference_cases(repo, rep, "R02.9")


_ADDR7TP = " Borrowed: R02.8 / R02.9 (the type predicates and type-level helpers, interpreted from their own source over the catalogue types and a reference table, answer as the dispatch model and the documentation say)."
EXPLANATION += _ADDR7TP
LEVEL_TEXT += _ADDR7TP


_run_before_r7df = run


def run(repo, rep, tier):  # noqa: F811 -- round 7: CodeBuilder.dataclass_fields evaluated on inheritance shapes (typepreds.py)
    _run_before_r7df(repo, rep, tier)
    if getattr(rep, "borrowed", False):
        return
    from ..core import typepreds as _tp7df
    _tp7df.builder_method_cases(repo, rep, "R07.9")


_ADDR7DF = (" R07.9: CodeBuilder.dataclass_fields is interpreted from its own source (type-level evaluator, stub builder) on six inheritance shapes "
            "-- two dataclass bases, an own Field, a bare re-annotation, a finished dataclass, a diamond, no ancestor -- and must return, per "
            "name, the Field object of the nearest declaring ancestor, as dataclasses itself does.")
EXPLANATION += _ADDR7DF
LEVEL_TEXT += _ADDR7DF


_run_before_r7n = run


def run(repo, rep, tier):  # noqa: F811 -- round-7 remedies / borrowings
    _run_before_r7n(repo, rep, tier)
    if getattr(rep, "borrowed", False):
        return
    from ..core import round7 as _r7n
    _r7n.type_refs_not_by_bare_name(repo, rep, "R17.15")


_ADD_R7N = ' Borrowed: R17.15.'
EXPLANATION += _ADD_R7N
LEVEL_TEXT += _ADD_R7N


_run_before_r7rt = run


def run(repo, rep, tier):  # noqa: F811 -- round 7: get_real_type leaves the trusted base
    _run_before_r7rt(repo, rep, tier)
    if getattr(rep, "borrowed", False):
        return
    from ..core import typepreds as _tprt
    _tprt.real_type_cases(repo, rep, "R01.7")


_ADD_R7RT = ' Borrowed: R01.7 (get_real_type substitutes the parameters of the defining class).'
EXPLANATION += _ADD_R7RT
LEVEL_TEXT += _ADD_R7RT
