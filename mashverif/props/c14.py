"""C14 -- Behaviour is independent of compilation timing, call order and threads."""

from __future__ import annotations

import ast
import re
from typing import Dict, List, Optional, Set

from ..core import corpus as corpus_mod, siblings
from ..core.pe import Path
from ..core.report import Report
from ..core.scen import make_eval
from ..core.skeleton import MARK, Rendered, render_tmpl
from ..core.srcmodel import AnalysisError, M_BUILDER, M_MIXIN, Repo, walk_no_nested
from ..core.values import Const, Hole, Sym, Tmpl, show

TECHNIQUE = "slot typestate of lazily compiled stubs over all generator paths; path conditions of lazy/postponed compilation; sibling rules on builder re-instantiations"
EXPLANATION = (
    "R14.1 stub self-replacement: the stub emitted for lazy_compilation / postponed evaluation re-creates a builder for the "
    "same slot -- class, type arguments, dialect, format, encoder/decoder (+ encoder options), default dialect -- bound to "
    "the current builder's own objects, and then re-dispatches to the slot that builder fills (the class attribute for "
    "dialect-less methods, the dialect cache entry otherwise), forwarding each parameter under its own name. R14.3: the "
    "stub's builder cannot emit a stub again (allow_postponed_evaluation=False). R14.4: a stub is emitted only when "
    "lazy_compilation & allowed & nailed, or on UnresolvedTypeReferenceError when both the builder and the class allow "
    "postponed evaluation; otherwise the error propagates. R14.5: __init_subclass__ compiles unpacker and packer for every "
    "mixin ancestor; compile_mixin_* swallow UnresolvedTypeReferenceError only when the class allows it. R14.7: builders "
    "created for nested / Self-typed dataclasses carry format, default dialect and holder. R14.8: a builder for another "
    "class is never created with a dialect (C13 R13.3b)."
)
LEVEL_TEXT = EXPLANATION
LEVEL_NOTE = ("Not decided: thread schedules (no synchronisation exists to reason about; racing first calls recompile "
              "idempotently -- an argument, not an analysis), call-order independence of results in general, eager/lazy "
              "observational equality beyond the slot discipline.")
ASSUMPTIONS = ["recompiling a slot is idempotent", "class attributes written by generated setattr / cache lines are the only cross-call state"]


def _parse_call(t: Tmpl):
    r = Rendered()
    src = render_tmpl(t, r)
    try:
        node = ast.parse(src, mode="eval").body
    except SyntaxError:
        return None, r, src
    return node, r, src


def _ownership(repo: Repo, rep: Report) -> None:
    """R14.8: library code only mutates containers it owns or the designed shared stores (core/ownership.py)."""
    from ..core import ownership

    for prob in ownership.positive_control():
        rep.error(prob)
    owned, shared, borrowed = ownership.analyse(repo)
    rep.analysed["mutation_sites"] = {"owned": owned, "designed_shared": shared, "borrowed": len(borrowed)}
    rep.ok("R14.8", f"{owned} in-place mutations act on containers the mutating function owns", None)
    rep.ok("R14.8", f"{shared} in-place mutations act on designed shared stores ({len(ownership.SHARED)} table entries with reasons)", None)
    if owned < 60:
        rep.error(f"R14.8: only {owned} owned mutation sites analysed")
    okb, bad = ownership.store_bindings(repo)
    if okb < 5:
        rep.error(f"R14.9: only {okb} store bindings found")
    rep.ok("R14.9", f"{okb} bindings of per-builder stores ({', '.join(ownership.STORE_ATTRS)}) are fresh containers or constructor parameters", None)
    for fi, txt, ln in bad:
        rep.violation("R14.9", fi.key, f"per-builder store bound to a longer-lived object: `{txt}`",
                      "the stores in which a builder keeps compiled helpers / names are trusted to belong to one builder (or one codec): binding one to a module-level or class-level "
                      "container makes every later builder reuse what an earlier one compiled under other options (dialect, no_copy_collections, format)",
                      loc=f"{fi.loc.split(':')[0]}:{ln}")
    oka, bada = ownership.param_attr_stores(repo)
    rep.ok("R14.8", f"{oka} attribute stores on parameter objects happen after the parameter was rebound to a fresh object, or follow a listed hand-over protocol", None)
    for fi, txt, ln in bada:
        rep.violation("R14.8", fi.key, f"attribute store on the caller's object: `{txt}`",
                      "per-call settings written into an object supplied by the caller stick for the caller's later calls: results depend on the call history",
                      loc=f"{fi.loc.split(':')[0]}:{ln}")
    for fi, base, txt, ln in borrowed:
        rep.violation("R14.8", fi.key, f"in-place write to `{base}`, which {fi.qualname} does not own",
                      "the object is borrowed from a caller (class-level builder parameters shared by every dataclass of a mixin, Config / Dialect attributes, "
                      "Field metadata, a caller's argument): the write leaks into every later compilation, so one class's behaviour depends on which classes were compiled before it",
                      loc=f"{fi.loc.split(':')[0]}:{ln}", statement=txt)


CTOR_FREE = {"first_method", "allow_postponed_evaluation"}  # free-form / constant arguments


def _ctor_roles(repo: Repo, rep: Report, c) -> None:
    """R14.10: every `CodeBuilder(...)` call in generated code (lazy stubs, dialect dispatchers, variant builders)
    passes, for each keyword, the run-time value that carries that role: the keyword's name occurs in the value's name
    (dialect=dialect / __lazy_dialect, default_dialect=_default_dialect / the generation-time default dialect,
    format_name=<B.format_name>, encoder=<B.encoder>, attrs_registry=<spec.attrs_registry_name> ...), and a plain
    `dialect` never receives a default dialect or vice versa.  A swapped role compiles the recompiled method under other
    options than the method it replaces, so behaviour depends on whether compilation was eager, lazy or on demand."""
    import re as _re

    seen = set()
    n = 0
    for it in c.items:
        for l in it.lines:
            sh = l.tmpl.show()
            i = sh.find("CodeBuilder(")
            if i < 0:
                continue
            key = (l.site[0], sh)
            if key in seen:
                continue
            seen.add(key)
            depth = 0
            args, cur = [], ""
            for ch in sh[i + len("CodeBuilder("):]:
                if ch in "([{":
                    depth += 1
                elif ch in ")]}":
                    if depth == 0:
                        break
                    depth -= 1
                if ch == "," and depth == 0:
                    args.append(cur)
                    cur = ""
                else:
                    cur += ch
            args.append(cur)
            for a in args:
                m = _re.match(r"\s*(\w+)=(.*)$", a, _re.S)
                if not m:
                    continue
                k, v = m.group(1), m.group(2).strip()
                if k in CTOR_FREE:
                    continue
                n += 1
                ok = k in v
                if k == "dialect" and "default" in v:
                    ok = False
                inst = f"{l.site[0].split('::')[-1]}: CodeBuilder(... {k}={v[:60]} ...)"
                if ok:
                    rep.ok("R14.10", inst, None)
                else:
                    rep.violation("R14.10", l.site[0], f"generated CodeBuilder(...) passes `{v[:60]}` as `{k}`",
                                  "the recompiling call hands over a value of another role (e.g. the call dialect as default dialect): the method compiled on demand differs from the one "
                                  "an eager or nested compilation would have produced", loc=f"{l.site[0]}:{l.site[1]}")
    rep.floor("R14.10", 30)


def run(repo: Repo, rep: Report, tier: str) -> None:
    _ownership(repo, rep)
    c = corpus_mod.explore_all(repo, tier)
    _ctor_roles(repo, rep, c)
    for e in c.errors:
        rep.undecide("corpus", e)
    seen: Set[str] = set()
    n_stub = 0
    for it in c.items:
        if it.scenario not in ("pack_lines", "unpack_lines") or it.bid != "main":
            continue
        direction = "pack" if it.scenario == "pack_lines" else "unpack"
        lines = it.lines
        stub_i = [i for i, l in enumerate(lines) if l.tmpl.skeleton().startswith("CodeBuilder(") and l.site[0].endswith("_lines_lazy")]
        text = "\n".join(l.tmpl.show() for l in lines)
        at = it.path.atoms
        lazy = at.get("bool(B.get_config().lazy_compilation)")
        allowed_b = at.get("bool(B.allow_postponed_evaluation)")
        nailed = at.get("bool(B.is_nailed)")
        unresolved = next((v for k, v in at.items() if k.startswith("raises[UnresolvedTypeReferenceError]")), None)
        allowed_c = at.get("bool(B.get_config().allow_postponed_evaluation)")
        # ---- R14.4 path conditions
        cond_lazy = bool(lazy) and bool(allowed_b) and bool(nailed)
        cond_post = bool(unresolved) and bool(allowed_b) and bool(allowed_c)
        key4 = (direction, bool(stub_i), cond_lazy, cond_post, it.path.ctl)
        if key4 not in seen:
            seen.add(key4)
            inst = f"{direction}: stub={bool(stub_i)} lazy&allowed&nailed={cond_lazy} unresolved&both-allow={cond_post}"
            if bool(stub_i) == (cond_lazy or cond_post):
                rep.ok("R14.4", inst, {"atoms": {k: v for k, v in at.items() if "lazy" in k or "postponed" in k or "raises" in k or "nailed" in k}})
            else:
                rep.violation("R14.4", lines[0].site[0] if lines else it.entry, inst,
                              "a lazily-compiling stub must be emitted exactly when lazy compilation / postponed evaluation applies")
        if not stub_i:
            continue
        if text in seen:
            continue
        seen.add(text)
        n_stub += 1
        i = stub_i[0]
        site = lines[i].site[0]
        node, r, src = _parse_call(lines[i].tmpl)
        if node is None or not (isinstance(node, ast.Call) and isinstance(node.func, ast.Attribute) and isinstance(node.func.value, ast.Call)):
            rep.undecide("R14.1", f"cannot parse the stub's builder line `{lines[i].tmpl.skeleton()[:100]}`")
            continue
        ctor = node.func.value
        kws = {k.arg: ast.unparse(k.value) for k in ctor.keywords}
        need = ["dialect", "format_name", "default_dialect", "allow_postponed_evaluation"] + (["encoder", "encoder_kwargs"] if direction == "pack" else ["decoder"])
        missing = [k for k in need if k not in kws]
        if len(ctor.args) < 2:
            missing.append("type arguments")
        reg = {}
        for ev in it.path.events:
            if ev and ev[0] == "ensure_object" and isinstance(ev[2], Const):
                reg[ev[2].v] = show(ev[1])
        bind_problems = []
        if len(ctor.args) >= 2:
            ta = ast.unparse(ctor.args[1])
            if reg.get(ta) != "B.initial_type_args":
                bind_problems.append(f"type arguments `{ta}` are bound to {reg.get(ta)} (expected the builder's own initial_type_args)")
        if "dialect" in kws and reg.get(kws["dialect"]) != "B.dialect":
            bind_problems.append(f"dialect `{kws['dialect']}` is bound to {reg.get(kws['dialect'])} (expected the builder's own dialect)")
        fmt_hole = r.holes.get(kws.get("format_name", "").strip("'\""))
        if "format_name" in kws and not (fmt_hole is not None and show(fmt_hole.val) == "B.format_name"):
            bind_problems.append(f"format_name is {r.describe(kws['format_name'])} (expected the builder's own format_name)")
        inst = f"{direction} stub builder({', '.join(sorted(kws))}; {len(ctor.args)} positional)"
        if missing or bind_problems:
            rep.violation("R14.1", site, inst, "the lazy stub recompiles a different slot than the one it was installed in: "
                          + "; ".join([f"missing {missing}"] * bool(missing) + bind_problems) + " (first call recurses or fails)", template=lines[i].tmpl.show()[:400])
        else:
            rep.ok("R14.1", inst + f" #{n_stub}", {"template": lines[i].tmpl.show()[:300]})
        # R14.3
        if kws.get("allow_postponed_evaluation") == "False":
            rep.ok("R14.3", f"{direction} stub builder has allow_postponed_evaluation=False #{n_stub}", None, nontrivial=False)
        else:
            rep.violation("R14.3", site, f"{direction} stub: allow_postponed_evaluation={kws.get('allow_postponed_evaluation')}",
                          "the builder created by a stub must not be able to emit a stub again (infinite recursion)")
        # R14.1b re-dispatch target
        ret = next((l for l in lines[i + 1:] if l.tmpl.skeleton().startswith("return ")), None)
        if ret is None:
            rep.violation("R14.1b", site, f"{direction} stub does not re-dispatch", "the stub must call the freshly compiled method")
            continue
        rt = ret.tmpl.show()
        dial_none = it.path.ident.get("B.dialect") == "None" or at.get("bool(B.dialect)") is False
        dial_set = "None" in it.path.excl.get("B.dialect", ()) or at.get("bool(B.dialect)") is True
        via_cache = "__dialect_" in rt and "[__lazy_dialect]" in rt
        if dial_set and not via_cache:
            rep.violation("R14.1b", ret.site[0], f"{direction} stub of a dialect-specific method re-dispatches to `{ret.tmpl.skeleton()[:60]}`",
                          "a dialect-specific method exists only as an entry of the dialect cache: re-dispatching to the class attribute fails "
                          "(AttributeError) or recurses on the first call", template=rt[:300])
        elif dial_none and via_cache:
            rep.violation("R14.1b", ret.site[0], f"{direction} stub of a default method re-dispatches through the dialect cache", "wrong slot", template=rt[:300])
        elif not dial_none and not dial_set:
            rep.violation("R14.1b", ret.site[0], f"{direction} stub re-dispatch `{ret.tmpl.skeleton()[:60]}` does not distinguish dialect-specific methods",
                          "a dialect-specific method exists only as an entry of the dialect cache: re-dispatching to the class attribute fails "
                          "(AttributeError) on the first call", template=rt[:300])
        else:
            rep.ok("R14.1b", f"{direction} stub re-dispatches to {'the dialect cache entry' if via_cache else 'the class attribute'} #{n_stub}", {"return": rt[:200]})
    rep.analysed["stub_paths"] = n_stub
    rep.floor("R14.1", 4)
    rep.floor("R14.4", 6)
    _forwarding(repo, rep)
    _mixin(repo, rep)
    siblings.check_nested_builders(repo, rep, "R14.7")
    # the dialect caches are part of the "order of first use" state: same slot rules as C13 (R13.3 / R13.3b / R13.4 / R13.7)
    if getattr(rep, "borrowed", False):
        return  # another property borrows main-body rules only
    from . import c13

    class _Only:
        """Report proxy: C14 takes over only the slot rules of C13 (not its option / encoder rules)."""
        KEEP = ("R13.3", "R13.3b", "R13.4", "R13.7")

        def __init__(self, r):
            self._r = r

        def __getattr__(self, n):
            return getattr(self._r, n)

        def ok(self, rule, *a, **k):
            if rule in self.KEEP:
                self._r.ok(rule, *a, **k)

        def violation(self, rule, *a, **k):
            if rule in self.KEEP:
                self._r.violation(rule, *a, **k)

        def floor(self, rule, n):
            if rule in self.KEEP:
                self._r.floor(rule, n)

    c13._slots(repo, _Only(rep), c)
    c13._who_constructs(repo, _Only(rep), c)
    # rules of sibling properties that are necessary conditions of this one as well (same rule ids)
    from ..core.report import Only
    from . import c01 as _c01
    _c01._r01_5(repo, Only(rep, {"R01.5"}))
    from ..core import siblings as _sib2
    _sib2.check_own_method_tests(repo, rep, "R14.11")
    from ..core import siblings as _sib3
    _sib3.check_guard_mirror(repo, rep, "R15.10")
    from ..core.report import Only as _OnlyX
    from ..core import corpus as _corpusX
    from ..core import helper_contracts as _hcx
    _hcx.report(repo, rep, "R09.6", _hcx.dataclass_fields_contract(repo), "mashumaro.core.meta.code.builder::CodeBuilder.dataclass_fields")

def _forwarding(repo: Repo, rep: Report) -> None:
    """R14.6: the flag lists used for re-dispatch forward every parameter under its own name."""
    for fn, kw in (("get_pack_method_flags", "pass_encoder"), ("get_unpack_method_flags", "pass_decoder")):
        fi = repo.func(M_BUILDER, f"CodeBuilder.{fn}")
        ev = make_eval(repo, inline_depth=3, allow_inline={fn, "_get_encoder_kwargs"})
        p = Path()
        paths = ev.run(fi, {"self": ev.builder_obj(p), kw: Const(True)}, p)
        n = 0
        seen = set()
        for q in paths:
            t = q.retv
            if not isinstance(t, (Tmpl, Const)):
                continue
            tt = t if isinstance(t, Tmpl) else Tmpl([t.v])
            r = Rendered()
            src = render_tmpl(tt, r)
            if not src.strip():
                continue
            try:
                call = ast.parse(f"f({src})", mode="eval").body
            except SyntaxError:
                rep.undecide("R14.6", f"{fn} returns `{tt.skeleton()}`")
                continue
            for k in call.keywords:
                n += 1
                v = ast.unparse(k.value)
                inst = f"{fn}: {r.describe(k.arg)}={r.describe(v)}"
                if inst in seen:
                    continue
                seen.add(inst)
                if v == k.arg:
                    rep.ok("R14.6", inst, None)
                else:
                    rep.violation("R14.6", fi.key, inst, "a re-dispatching call must forward each parameter under its own name: here the callee "
                                  "receives a value fixed at generation time instead of the caller's argument (the first call of a lazy class ignores it)", loc=fi.loc)
        if n < 2:
            rep.error(f"R14.6: only {n} forwarded flags found in {fn}")


def _mixin(repo: Repo, rep: Report) -> None:
    for fn, meth in (("compile_mixin_packer", "add_pack_method"), ("compile_mixin_unpacker", "add_unpack_method")):
        fi = repo.func(M_MIXIN, fn)
        tries = [n for n in walk_no_nested(fi.node) if isinstance(n, ast.Try)]
        ok = False
        for t in tries:
            body = ast.unparse(t.body[0]) if t.body else ""
            for h in t.handlers:
                if h.type is not None and "UnresolvedTypeReferenceError" in ast.unparse(h.type):
                    hs = ast.unparse(h)
                    ok = meth in body and "if not config.allow_postponed_evaluation:" in hs and "raise" in hs
        if ok:
            rep.ok("R14.5", f"{fn}: UnresolvedTypeReferenceError propagates unless the class allows postponed evaluation", None)
        else:
            rep.violation("R14.5", fi.key, f"{fn} error handling", "an unresolved forward reference must propagate when postponed evaluation is not allowed", loc=fi.loc)
    fi = repo.func("mashumaro.mixins.dict", "DataClassDictMixin.__init_subclass__")
    src = ast.unparse(fi.node)
    loop = "for ancestor in cls.__mro__[-1:0:-1]" in src
    both = "compile_mixin_unpacker(cls, **builder_params['unpacker'])" in src and "compile_mixin_packer(cls, **builder_params['packer'])" in src
    if loop and both:
        rep.ok("R14.5", "__init_subclass__ compiles unpacker and packer for every mixin ancestor (root first)", None)
    else:
        rep.violation("R14.5", fi.key, f"__init_subclass__: ancestors loop={loop} both directions={both}", "every format of every mixin ancestor must be compiled at class creation", loc=fi.loc)


_ADDENDUM = ' R14.8: ownership -- every in-place mutation in the library acts on a container the function owns or on a designed shared store (table with reasons); attribute stores on parameter objects happen only after the parameter was rebound to a fresh object. R14.9: per-builder stores (attrs_registry, globals, ...) are bound only to fresh containers or constructor parameters. R14.10: emitted CodeBuilder(...) calls pass for every keyword the run-time value of that role. Borrowed: R01.5.'
EXPLANATION += _ADDENDUM
LEVEL_TEXT += _ADDENDUM
_ADD6 = " R14.11: every guard of a nested add_pack_method / add_unpack_method asks for the class's own definition (get_class_that_defines_method), never hasattr."
EXPLANATION += _ADD6
LEVEL_TEXT += _ADD6
_ADD11 = ' Borrowed: R15.10.'
EXPLANATION += _ADD11
LEVEL_TEXT += _ADD11
_ADD22 = ' Borrowed: R09.6 (field reflection is the same before and after @dataclass ran).'
EXPLANATION += _ADD22
LEVEL_TEXT += _ADD22


_run_before_r5 = run


def run(repo, rep, tier):  # noqa: F811 -- round-5 borrowings appended to the rules above
    _run_before_r5(repo, rep, tier)
    if getattr(rep, "borrowed", False):
        return
    from ..core import round5 as _r5
    from ..core.report import Only as _O5
    from . import c13 as _c13b
    from ..core import corpus as _corp5
    _c13b._slots(repo, _O5(rep, {"R13.6", "R13.10"}), _corp5.explore_all(repo, tier))

_ADDR5D = ' Borrowed: R13.6 / R13.10 (first call and later calls with a dialect go through the same call text: encoder options and arguments agree on the cache-hit and the compile path).'
EXPLANATION += _ADDR5D
LEVEL_TEXT += _ADDR5D


_run_before_r6b = run


def run(repo, rep, tier):  # noqa: F811 -- round-6 remedies (core/round6.py)
    _run_before_r6b(repo, rep, tier)
    if getattr(rep, "borrowed", False):
        return
    from ..core import round6 as _r6b
    _r6b.dispatcher_paths_agree(repo, rep, "R13.12")
    _r6b.default_dialect_is_default(repo, rep, "R13.13")
    from ..core import helper_contracts as _hc6
    _hc6.report(repo, rep, "R07.7", _hc6.field_default_contract(repo), "mashumaro.core.meta.code.builder::CodeBuilder.get_field_default")


_ADDR6C = '  Borrowed: R13.12, R13.13, R07.7.'
EXPLANATION += _ADDR6C
LEVEL_TEXT += _ADDR6C


_run_before_r7df = run


def run(repo, rep, tier):  # noqa: F811 -- round 7: CodeBuilder.dataclass_fields evaluated on inheritance shapes (typepreds.py)
    _run_before_r7df(repo, rep, tier)
    if getattr(rep, "borrowed", False):
        return
    from ..core import typepreds as _tp7df
    _tp7df.builder_method_cases(repo, rep, "R07.9")


_ADDR7DF = (" R07.9: CodeBuilder.dataclass_fields is interpreted from its own source (type-level evaluator, stub builder) on six inheritance shapes "
            "-- two dataclass bases, an own Field, a bare re-annotation, a finished dataclass, a diamond, no ancestor -- and must return, per "
            "name, the Field object of the nearest declaring ancestor, as dataclasses itself does.")
EXPLANATION += _ADDR7DF
LEVEL_TEXT += _ADDR7DF
