"""C16 -- Schema-supplied strings are data, never code.

Decided (structural content of the property): no string supplied by a schema reaches
generated source text except through repr (``!r`` / ``repr()``), on any generator path.
"""

from __future__ import annotations

import ast
from typing import Dict, List

from ..core import corpus as corpus_mod
from ..core.pe import Path
from ..core.report import Report
from ..core.scen import make_eval
from ..core.srcmodel import AnalysisError, FuncInfo, GENERATOR_MODULES, M_BUILDER, Repo, walk_no_nested
from ..core.values import Hole, Obj, Sym, Tmpl, V, show, to_tmpl

TECHNIQUE = "template taint analysis over a path-enumerating partial evaluation of the code generator"
EXPLANATION = (
    "Every emission site and every returned expression template of the five generator modules is reached by a "
    "partial evaluation of the generator (all generator paths of each scenario); every hole of every template is "
    "classified by a taint analysis whose sources are the schema-supplied strings (field metadata alias, Annotated "
    "Alias, Config.aliases, TypedDict keys, Discriminator.field, Literal values) and whose only sanitiser is repr. "
    "A RAW hole without repr conversion is a violation. Also: the only exec/eval sinks are the known ones and they are "
    "fed by CodeLines.as_text()."
)
LEVEL_TEXT = (
    "Decides the whole structural content of C16: on every generator path of every scenario that together reach all "
    "emission sites of builder.py/pack.py/unpack.py/common.py/codecs/_builder.py, no schema-supplied string (metadata "
    "alias, Annotated Alias, Config.aliases, TypedDict keys, Discriminator.field, Literal values, and anything derived "
    "from them by join/concatenation) reaches generated source except through repr; no exec/eval sink exists besides "
    "the known ones fed by CodeLines.as_text(). A violated instance means a string with a quote or backslash changes "
    "the generated program at that site; if all hold, such strings are used as exactly themselves."
)
LEVEL_NOTE = (
    "Not decided: behaviour for non-str aliases; field names/class names/enum member names are assumed identifiers "
    "(A-ident). Trusted base: the evaluator's model of f-strings, join/format and the taint source table in "
    "mashverif/core/scen.py (one reason per entry); a positive control (synthetic unescaped hole) must be flagged on every run."
)
ASSUMPTIONS = [
    "A-ident: dataclass / NamedTuple field names, class __name__ and enum member names are identifiers "
    "(dataclasses, typing.NamedTuple and enum enforce this); they are not positions the property names",
    "repr(str) is a Python literal that evaluates to exactly that str",
    "user callables (strategies, hooks, tagger functions) are opaque",
]

RAW_KINDS = {"RAW", "LITERAL"}
EXEC_ALLOWED = {
    "mashumaro.core.meta.code.builder::CodeBuilder.compile",
    "mashumaro.core.meta.types.common::AbstractMethodBuilder._compile",
    "mashumaro.core.meta.types.pack::pack_union",
    "mashumaro.core.meta.types.pack::pack_literal",
    "mashumaro.core.meta.types.pack::pack_typed_dict",
    "mashumaro.core.meta.types.unpack::unpack_named_tuple",
    "mashumaro.core.meta.types.unpack::unpack_typed_dict",
}


def hole_problem(h: Hole) -> str:
    tags = set(h.val.tags)
    bad = tags & RAW_KINDS
    if bad and h.conv != "r":
        return ",".join(sorted(bad))
    return ""


def check_template(rep: Report, t: Tmpl, construct: str, where: str, what: str, seen: set, loc: str = ""):
    skel = t.skeleton()
    for i, h in enumerate(t.holes()):
        kinds = sorted(set(h.val.tags) - {"OPTIONAL"})
        k = (construct, skel, i, tuple(kinds), h.conv)
        if k in seen:
            continue
        seen.add(k)
        prob = hole_problem(h)
        inst = f"{what} `{skel}` hole#{i} kinds={','.join(kinds) or '-'} conv={h.conv or '-'}"
        if prob:
            rep.violation(
                "R16.1", construct, inst,
                f"schema-supplied string ({prob}) is spliced into generated code without repr()",
                loc=loc, template=t.show(), hole=show(h.val), scenario=where,
            )
        else:
            rep.ok("R16.1", inst, {"template": t.show()[:160], "hole": show(h.val)[:80], "kinds": kinds, "conv": h.conv},
                   nontrivial=bool(h.val.tags))


def run(repo: Repo, rep: Report, tier: str) -> None:
    c = corpus_mod.explore_all(repo, tier)
    for e in c.errors:
        rep.undecide("corpus", e)
    miss = c.missing_sites()
    for m in miss:
        rep.error(f"emission site not reached by any scenario: {m[0]} line {m[1]}: {c.sites_all[m]}")
    rep.analysed.update({
        "emission_sites": len(c.sites_all), "sites_reached": len(c.sites_all) - len(miss),
        "scenarios": len(c.stats), "paths": sum(s["paths"] for s in c.stats.values()),
        "emitted_buffers_and_returns": len(c.items),
    })
    seen: set = set()
    n_lines = 0
    for it in c.items:
        if it.kind == "buffer":
            for l in it.lines:
                n_lines += 1
                fkey = l.site[0]
                fi = repo.funcs.get(fkey)
                loc = f"{fi.loc.rsplit(':', 1)[0]}:{l.site[1]}" if fi is not None else ""
                check_template(rep, l.tmpl, fkey, it.scenario, "line", seen, loc)
        else:
            if isinstance(it.value, (Tmpl,)):
                check_template(rep, it.value, it.entry, it.scenario, "returned expression", seen)
        # expression templates handed to nested Registry.get calls
        for ev in it.path.events:
            if ev and ev[0] == "registry_get" and isinstance(ev[2], Obj):
                ex = it.path.heap.get(ev[2].oid, {}).get("expression")
                if isinstance(ex, Tmpl):
                    check_template(rep, ex, ev[3][0], it.scenario, "ValueSpec.expression", seen)
    rep.analysed["template_lines"] = n_lines
    rep.floor("R16.1", 150)

    # ---- R16.5 context of the sanitised text: repr() output is only "exactly that string" as a
    # stand-alone expression token; inside another string literal or an f-string of the generated
    # code its quotes/backslashes/braces are interpreted a second time.
    from ..core.skeleton import MARK

    seen5 = set()
    for it in c.items:
        r = corpus_mod.render_item(it)
        if r is None:
            continue
        raw_markers = {m for m, h in r.holes.items() if set(h.val.tags) & RAW_KINDS}
        if not raw_markers:
            continue
        if r.src in seen5:
            continue
        seen5.add(r.src)
        try:
            tree = ast.parse(r.src)
        except SyntaxError:
            continue  # reported by C17 (R17.0)
        for node in ast.walk(tree):
            texts = []
            if isinstance(node, ast.Constant) and isinstance(node.value, str):
                texts.append(("string literal", node.value))
            for kind, text in texts:
                for m in MARK.finditer(text):
                    if m.group(0) in raw_markers:
                        h = r.holes[m.group(0)]
                        site = it.lines[0].site[0] if it.kind == "buffer" and it.lines else it.entry
                        for l in (it.lines if it.kind == "buffer" else []):
                            if any(hh.key() == h.key() for hh in l.tmpl.holes()) and ("'" in l.tmpl.skeleton() or '"' in l.tmpl.skeleton()):
                                site = l.site[0]
                        if h.conv == "r":
                            rep.violation("R16.5", site, f"repr-quoted schema string nested in a {kind}: `{r.describe(text)[:80]}`".replace(show(h.val), "{}"),
                                          "a repr()-quoted schema string is placed inside another string literal / f-string of the generated "
                                          "code, where its quotes, backslashes or braces are interpreted again",
                                          generated=r.describe(text)[:300])
                        # conv != 'r' inside quotes is already R16.1
            if isinstance(node, ast.JoinedStr):
                pass
        rep.ok("R16.5", f"raw holes of {it.scenario} appear only as expression tokens", None, nontrivial=False)

    # ---- R16.3 F-exec: the only sinks that execute computed text
    n = 0
    for fi in repo.funcs.values():
        for node in walk_no_nested(fi.node):
            if isinstance(node, ast.Call) and isinstance(node.func, ast.Name) and node.func.id in ("exec", "eval", "compile", "__import__"):
                n += 1
                arg0 = ast.unparse(node.args[0]) if node.args else ""
                inst = f"{node.func.id}({arg0}, ...)"
                ok_fn = fi.key in EXEC_ALLOWED
                fed_by_lines = arg0.endswith(".as_text()") or arg0 == "code"
                if arg0 == "code":
                    fed_by_lines = any(
                        isinstance(s, ast.Assign) and ast.unparse(s.targets[0]) == "code" and ast.unparse(s.value).endswith(".as_text()")
                        for s in ast.walk(fi.node)
                    )
                globs = ast.unparse(node.args[1]) if len(node.args) > 1 else ""
                if ok_fn and fed_by_lines and globs.endswith(".globals"):
                    rep.ok("R16.3", f"{fi.key} {inst}", {"sink": inst, "function": fi.key})
                else:
                    rep.violation("R16.3", fi.key, inst,
                                  "a new exec/eval/compile sink (or one not fed by CodeLines.as_text() with builder.globals) appeared",
                                  loc=f"{fi.loc.rsplit(':', 1)[0]}:{node.lineno}")
    rep.floor("R16.3", 5)

    # ---- positive control: a synthetic generator with one unescaped RAW hole must be flagged
    _positive_control(repo, rep)
    rep.notes.append("hole kinds: RAW/LITERAL need repr; IDENT, TYPEREF_*, CODE, FIELDNAME, CLASSNAME, ENUMNAME, DEFAULT_LITERAL are library-made or identifier-safe")
    if getattr(rep, "borrowed", False):
        return  # another property borrows main-body rules only
    # rules of sibling properties that are necessary conditions of this one as well (same rule ids)
    from ..core.report import Only
    from . import c01 as _c01
    _c01._r01_5(repo, Only(rep, {"R01.5"}))
    from . import c12 as _c12
    _c12.run(repo, Only(rep, {"R12.1i"}), tier)
    from . import c17 as _c17
    _c17._type_name_lossless(repo, Only(rep, {"R17.12"}))
    from ..core.report import Only as _OnlyX
    from ..core import corpus as _corpusX
    from . import c02 as _c02x
    _c02x.run(repo, _OnlyX(rep, {"R02.5"}), tier)

POSITIVE = '''
def _positive(self, fname, metadata):
    alias = metadata.get("alias")
    self.add_line(f"value = d.get('{alias}', MISSING)")
    self.add_line(f"other = d.get({alias!r}, MISSING)")
'''


def _positive_control(repo: Repo, rep: Report) -> None:
    node = ast.parse(POSITIVE).body[0]
    bfi = repo.func(M_BUILDER, "CodeBuilder.add_line")
    fi = FuncInfo(M_BUILDER, "CodeBuilder._positive", node, "CodeBuilder", bfi.path)
    ev = make_eval(repo, inline_depth=3)
    p = Path()
    paths = ev.run(fi, {"self": ev.builder_obj(p)}, p)
    flagged = clean = 0
    for q in paths:
        for l in q.lines():
            for h in l.tmpl.holes():
                if hole_problem(h):
                    flagged += 1
                else:
                    clean += 1
    if flagged != 1 or clean != 1:
        rep.error(f"positive control of the taint rule failed (flagged={flagged}, clean={clean}); the rule would pass vacuously")
    else:
        rep.ok("R16.control", "synthetic generator with one unescaped alias hole is flagged, its repr twin is not",
               {"flagged": flagged, "clean": clean})


_ADDENDUM = ' Borrowed: R01.5 (the specialisation key that names compiled methods is an injective digest of the type names, Literal strings included).'
EXPLANATION += _ADDENDUM
LEVEL_TEXT += _ADDENDUM
_ADD9 = ' Borrowed: R12.1i (the discriminator field string is used as one key, not interpreted as a path).'
EXPLANATION += _ADD9
LEVEL_TEXT += _ADD9
_ADD21 = ' Borrowed: R17.12.'
EXPLANATION += _ADD21
LEVEL_TEXT += _ADD21
_ADD22 = ' Borrowed: R02.5 (TypedDict helper body, keys included).'
EXPLANATION += _ADD22
LEVEL_TEXT += _ADD22


_run_before_r5 = run


def run(repo, rep, tier):  # noqa: F811 -- round-5 shape rules appended to the rules above
    _run_before_r5(repo, rep, tier)
    if getattr(rep, "borrowed", False):
        return
    from ..core import round5 as _r5
    from ..core.report import Only as _O5
    from ..core import helper_contracts as _hcb
    _hcb.report(repo, rep, "R17.8", _hcb.add_type_modules_contract(repo), "mashumaro.core.meta.code.builder::CodeBuilder.add_type_modules")
    _r5.namedtuple_field_names_quoted(repo, rep, "R16.6")


_ADDR5B = ' R16.6: in pack_named_tuple / unpack_named_tuple a field name from `_fields` reaches generated text only as a quoted key, never in identifier position (functional-API names are not NFKC-normalised, source identifiers are). This narrows assumption A-ident for named tuples.'
EXPLANATION += _ADDR5B
LEVEL_TEXT += _ADDR5B
_ADDR5D = ' Borrowed: R17.8 (add_type_modules only registers modules; it never evaluates strings it meets among Literal values).'
EXPLANATION += _ADDR5D
LEVEL_TEXT += _ADDR5D


_run_before_r6b = run


def run(repo, rep, tier):  # noqa: F811 -- round-6 remedies (core/round6.py)
    _run_before_r6b(repo, rep, tier)
    if getattr(rep, "borrowed", False):
        return
    from ..core import round6 as _r6b
    _r6b.emitted_tuple_displays(repo, rep, "R16.7")


_ADDR6C = ' R16.7: an emitted `in (<joined items>)` test is guarded by len(items) > 1 or a trailing comma.'
EXPLANATION += _ADDR6C
LEVEL_TEXT += _ADDR6C


_run_before_r7a = run


def run(repo, rep, tier):  # noqa: F811 -- round-7 remedies / borrowings
    _run_before_r7a(repo, rep, tier)
    if getattr(rep, "borrowed", False):
        return
    from ..core import typepreds as _tpr7
    _tpr7.reference_cases(repo, rep, "R02.9", only=("type_name", "get_literal_values"))


_ADD_R7A = ' Borrowed: R02.9 restricted to type_name / get_literal_values (Literal values -- schema-supplied strings -- are rendered completely and as valid literals in type names, which are spliced into generated source and digested into method names).'
EXPLANATION += _ADD_R7A
LEVEL_TEXT += _ADD_R7A
