"""C09 -- Input keys are resolved by the documented alias rules."""

from __future__ import annotations

import ast
import re
from typing import Dict, List

from ..core import corpus as corpus_mod
from ..core import fieldblock
from ..core.pe import Path
from ..core.report import Report
from ..core.scen import make_eval
from ..core.srcmodel import AnalysisError, M_BUILDER, Repo, Undecided
from ..core.values import Const, Hole, Sym, Tmpl, show

TECHNIQUE = "path enumeration of the field-block generator + skeleton evaluation against a key model; decision-list check of alias precedence"
EXPLANATION = (
    "R09.1: the decision list of CodeBuilder.__get_field_alias (all paths, partial evaluation) is metadata alias, then "
    "Annotated Alias, then Config.aliases, each later source consulted only when the earlier ones gave None. "
    "R09.2: for every generator path of FieldUnpackerCodeBlockBuilder.build and every run-time valuation of {alias key "
    "present, name key present, value null, conversion raises} the emitted block consumes exactly the key the KEYMODEL "
    "prescribes (alias if any else name; with allow_deserialization_not_by_alias the name only when the alias key is "
    "absent). R09.3: an alias that may be None is never rendered into a key. R09.4: the forbid_extra_keys set is exactly "
    "{alias or name} + {name if allow_not_by_alias} + {class-level discriminator field}, on every generator path."
)
LEVEL_TEXT = EXPLANATION + (
    " Exhaustive over generator paths x run-time valuations of one generic field (finite); decides the structural "
    "content of C09 -- which key is consulted -- not the value conversion (C03)."
)
LEVEL_NOTE = (
    "Assumes field names are identifiers; the per-field blocks of different fields are independent (each block reads "
    "only its own keys: checked by the mutation scan of C05/C18). Not decided: conversion of the value found."
)
ASSUMPTIONS = ["one generic field represents every field: build() has no cross-field state besides kwargs",
               "dict.get(key, MISSING) returns MISSING exactly when the key is absent"]


def r09_1(repo: Repo, rep: Report) -> None:
    fi = repo.func(M_BUILDER, "CodeBuilder.__get_field_alias")
    ev = make_eval(repo, inline_depth=2)
    paths = ev.run(fi, {"fname": Sym("fname", {"FIELDNAME"})}, Path())
    if len(paths) < 3:
        raise AnalysisError("__get_field_alias has fewer than 3 paths")
    for p in paths:
        rv = p.retv
        if not isinstance(rv, Sym):
            rep.undecide("R09.1", f"alias resolver returns a non-symbolic value {show(rv) if rv else None}")
            continue
        tags = set(rv.tags)
        src = "META" if "ALIAS_META" in tags else "ANN" if "ALIAS_ANN" in tags else "CFG" if "ALIAS_CFG" in tags else None
        if src is None:
            rep.undecide("R09.1", f"cannot classify returned alias source {rv.name}")
            continue
        idn = p.ident
        at = p.atoms
        # which sources were available (not None) on this path?
        meta_none = any(v == "None" for k, v in idn.items() if "get(alias)" in k)
        annotated = any(v for k, v in at.items() if "is_annotated" in k)
        is_alias = any(v for k, v in at.items() if "isinstance(" in k and "Alias" in k)
        ann_none = any(v == "None" for k, v in idn.items() if k.endswith(".name"))
        if not meta_none:
            want = "META"
        elif annotated and is_alias and not ann_none:
            want = "ANN"
        else:
            want = "CFG"
        inst = f"meta_none={meta_none} annotated={annotated} has_Alias={is_alias} ann_none={ann_none} -> {src}"
        if want == src:
            rep.ok("R09.1", inst, {"path": inst})
        else:
            rep.violation("R09.1", fi.key, inst, f"alias source precedence broken: expected {want}, the resolver returns {src}", loc=fi.loc)
    rep.floor("R09.1", 4)


def r09_4(repo: Repo, rep: Report, c) -> None:
    seen = set()
    for it in c.items:
        if it.scenario != "unpack_lines" or it.bid != "main":
            continue
        for l in it.lines:
            sk = l.tmpl.skeleton()
            if not sk.startswith("forbidden_keys ="):
                continue
            at = it.path.atoms
            alias_t = next((v for k, v in at.items() if k.startswith("bool(B.__get_field_alias(")), None)
            allow = next((v for k, v in at.items() if "allow_deserialization_not_by_alias" in k), None)
            discr = next((v for k, v in at.items() if "get_discriminator(look_in_parents=True))" in k), None)
            dfield = next((v for k, v in at.items() if "get_discriminator(look_in_parents=True).field" in k), None)
            if alias_t is None or allow is None:
                rep.undecide("R09.4", "cannot find alias / allow_deserialization_not_by_alias atoms on a forbid_extra_keys path")
                continue
            want = {"ALIAS" if alias_t else "NAME"}
            if allow:
                want.add("NAME")
            if discr and dfield:
                want.add("DISCR")
            got = set()
            extra = []
            for h in l.tmpl.holes():
                t = set(h.val.tags)
                if h.more:
                    extra.append(show(h.val))
                elif "ALIAS" in t:
                    got.add("ALIAS")
                elif "DISCR" in t:
                    got.add("DISCR")
                elif "FIELDS" in t or "FIELDNAME" in t:
                    got.add("NAME")
                else:
                    extra.append(show(h.val))
            key = (tuple(sorted(want)), tuple(sorted(got)), tuple(extra))
            if key in seen:
                continue
            seen.add(key)
            inst = f"allowed keys want={sorted(want)} got={sorted(got)} extra={extra}"
            if got == want and not extra:
                rep.ok("R09.4", inst, {"line": l.tmpl.show()[:200]})
            else:
                rep.violation("R09.4", l.site[0], inst,
                              "the accepted-key set of forbid_extra_keys differs from {alias or name} + {name iff "
                              "allow_deserialization_not_by_alias} + {class-level discriminator field}",
                              template=l.tmpl.show())
    rep.floor("R09.4", 4)


def run(repo: Repo, rep: Report, tier: str) -> None:
    r09_1(repo, rep)
    if not getattr(rep, "borrowed", False):
        from ..core import helper_contracts as hc
        hc.report(repo, rep, "R09.5", hc.discriminator_lookup(repo), f"{M_BUILDER}::CodeBuilder.get_discriminator")
        hc.report(repo, rep, "R09.6", hc.dataclass_fields_contract(repo), f"{M_BUILDER}::CodeBuilder.dataclass_fields")
    res = fieldblock.analyse(repo)
    rep.analysed.update({"build_paths": res.paths, "distinct_blocks": res.skeletons, "valuations": res.valuations})
    for u in res.undecided:
        rep.undecide("R09.2", u)
    for s in res.syntax_errors:
        rep.violation("R09.2", f"{M_BUILDER}::FieldUnpackerCodeBlockBuilder.build", f"block does not parse: {s[:80]}", "emitted field block is not valid Python", source=s)
    bad = [m for m in res.mismatches if m.clause in ("key", "presence")]
    seen = set()
    for m in bad:
        inst = f"{m.gen.label()} | " + ",".join(k for k, v in m.valuation.items() if v) + f" -> expected {m.expected}, block does {m.actual}"
        if inst in seen:
            continue
        seen.add(inst)
        rep.violation("R09.2", f"{M_BUILDER}::FieldUnpackerCodeBlockBuilder.build", inst,
                      "the generated field block does not consume the key the alias rules prescribe", skeleton=m.skeleton)
    for _ in range(res.checked - len(bad)):
        rep.ok("R09.2", "valuation", None, nontrivial=False)
    for s in res.samples:
        rep.samples.append({"rule": "R09.2", **{k: str(v) for k, v in s.items()}})
    rep.distinct.add(("R09.2", f"{res.skeletons} distinct blocks"))
    rep.floor("R09.2", 150)
    for sp in sorted(set(res.sentinel_problems)):
        rep.violation("R09.2", f"{M_BUILDER}::FieldUnpackerCodeBlockBuilder.build", f"look-up `{re.sub(r'_h\\d+_', '{}', sp)}` without the MISSING sentinel",
                      "a key that is present with the value null is treated as absent: the alias no longer wins over the name / the default")
    # R09.3
    seen3 = set()
    for skel, lab in res.optional_alias_in_key:
        if lab in seen3:
            continue
        seen3.add(lab)
        rep.violation("R09.3", f"{M_BUILDER}::FieldUnpackerCodeBlockBuilder.build", f"generator path {lab}",
                      "an alias that may be None is rendered into a look-up key (a field without alias is read from the key 'None')",
                      skeleton=skel)
    rep.ok("R09.3", f"{res.skeletons - len(seen3)} blocks render only established aliases", {"blocks": res.skeletons})
    c = corpus_mod.explore_all(repo, tier)
    for e in c.errors:
        rep.undecide("corpus", e)
    r09_4(repo, rep, c)
    if getattr(rep, "borrowed", False):
        return  # another property borrows main-body rules only
    from . import c05 as _c05
    from ..core.report import Only as _Only
    _c05._exception_classes(repo, _Only(rep, {"R05.11"}))
    from ..core import helper_contracts as _hc5
    _hc5.report(repo, rep, "R09.7", _hc5.small_helper_contracts(repo), "mashumaro.core.meta.helpers::get_type_annotations / is_class_var / is_init_var")
    from ..core.report import Only as _OnlyX
    from ..core import corpus as _corpusX
    from . import c14 as _c14x
    _c14x._ownership(repo, _OnlyX(rep, {"R14.8", "R14.9"}))

_ADDENDUM = " R09.5: get_discriminator(look_in_parents) walks the whole MRO, nearest first, through each class's own Config. R09.6: dataclass_fields drops an inherited Field when the class re-annotates the name without a Field of its own (no inherited alias / options)."
EXPLANATION += _ADDENDUM
LEVEL_TEXT += _ADDENDUM
_ADD6 = ' Borrowed: R05.11 (ExtraKeysError and the other exceptions report the objects they were given).'
EXPLANATION += _ADD6
LEVEL_TEXT += _ADD6
_ADD18 = ' R09.7: get_type_annotations returns the Annotated metadata in written order; is_class_var / is_init_var keep their confirmed forms.'
EXPLANATION += _ADD18
LEVEL_TEXT += _ADD18
_ADD22 = ' Borrowed: R14.8 / R14.9 (Config.aliases is never written to).'
EXPLANATION += _ADD22
LEVEL_TEXT += _ADD22


_run_before_r5 = run


def run(repo, rep, tier):  # noqa: F811 -- round-5 shape rules appended to the rules above
    _run_before_r5(repo, rep, tier)
    if getattr(rep, "borrowed", False):
        return
    from ..core import round5 as _r5
    from ..core.report import Only as _O5
    from . import c15 as _c15b
    _c15b._aliases(repo, _O5(rep, {"R15.7"}))
    _r5.annotation_scans(repo, rep, "R09.8")
    rep.floor("R09.8", 20)
    _r5.metadatas_contract(repo, rep, "R09.9")


_ADDR5B = ' R09.8: isinstance tests for the Annotated markers (Alias, Discriminator, JSON Schema constraints) are applied to the variable of a scan over the whole metadata sequence, so a marker is honoured at any position. R09.9: CodeBuilder.metadatas is exactly {name: Field.metadata}; no option is injected before __get_field_alias decides the precedence.'
EXPLANATION += _ADDR5B
LEVEL_TEXT += _ADDR5B
_ADDR5D = ' Borrowed: R15.7 (generated aliases of nested classes are module-qualified, so each nested class is read under its own key rules).'
EXPLANATION += _ADDR5D
LEVEL_TEXT += _ADDR5D


_run_before_r6b = run


def run(repo, rep, tier):  # noqa: F811 -- round-6 remedies (core/round6.py)
    _run_before_r6b(repo, rep, tier)
    if getattr(rep, "borrowed", False):
        return
    from ..core import round6 as _r6b
    _r6b.plain_config_copied_whole(repo, rep, "R09.10")
    _r6b.shared_options_read_through_chain(repo, rep, "R08.9")
    _r6b.own_config_only_sites(repo, rep, "R06.16")


_ADDR6C = ' R09.10: a plain Config is lifted with all its attributes (no filter). Borrowed: R08.9, R06.16.'
EXPLANATION += _ADDR6C
LEVEL_TEXT += _ADDR6C


_run_before_r7df = run


def run(repo, rep, tier):  # noqa: F811 -- round 7: CodeBuilder.dataclass_fields evaluated on inheritance shapes (typepreds.py)
    _run_before_r7df(repo, rep, tier)
    if getattr(rep, "borrowed", False):
        return
    from ..core import typepreds as _tp7df
    _tp7df.builder_method_cases(repo, rep, "R07.9")


_ADDR7DF = (" R07.9: CodeBuilder.dataclass_fields is interpreted from its own source (type-level evaluator, stub builder) on six inheritance shapes "
            "-- two dataclass bases, an own Field, a bare re-annotation, a finished dataclass, a diamond, no ancestor -- and must return, per "
            "name, the Field object of the nearest declaring ancestor, as dataclasses itself does.")
EXPLANATION += _ADDR7DF
LEVEL_TEXT += _ADDR7DF
