"""C07 -- Absent keys take defaults, present keys always win."""

from __future__ import annotations

import ast
import re
from typing import Dict, List, Set

from ..core import corpus as corpus_mod
from ..core import fieldblock, genfuncs
from ..core.pe import Path
from ..core.report import Report
from ..core.scen import make_eval
from ..core.skeleton import MARK, render
from ..core.srcmodel import AnalysisError, M_BUILDER, Repo, Undecided, walk_no_nested
from ..core.values import Const, Dct, Hole, Lst, Obj, Sym, Tmpl, Tup, show

TECHNIQUE = "path enumeration of the from_dict generators + skeleton evaluation against a default/presence model; constructor-call assembly check"
EXPLANATION = (
    "R07.1 every key look-up in deserialiser templates uses the MISSING sentinel. R07.2 for every generator path of the "
    "per-field block and every run-time valuation: a constructor argument is produced iff the key is present (present "
    "null on a nullable field gives None, or nothing when the default is None), under the parameter's name, with the "
    "plain/converted value; an absent key produces nothing (the dataclass constructor supplies the default or calls the "
    "factory, hence a fresh object per instance). R07.3 no default object is embedded on the deserialisation path. "
    "R07.4 the cls(...) call passes every non-defaulted field exactly once (positional while allowed, by keyword under "
    "the field's own name otherwise), never passes defaulted fields except through **kwargs, and **kwargs is present "
    "iff kwargs was initialised. R07.5 init=False / ClassVar / InitVar / KW_ONLY members never produce a look-up. "
    "R07.6 inherited field definitions are collected from the farthest ancestor to the nearest."
)
LEVEL_TEXT = EXPLANATION + " Exhaustive over generator paths x valuations for a generic field and over two-field layouts."
LEVEL_NOTE = (
    "Not decided: value-level reflection of dataclasses (what Field.default/default_factory hold), conversion "
    "correctness (C03). Assumes the dataclass constructor applies defaults for parameters that are not passed."
)
ASSUMPTIONS = ["the dataclass __init__ supplies defaults/factories for parameters that are not passed",
               "one generic field per block; two generic fields for the constructor-call layout"]

BUILD = f"{M_BUILDER}::FieldUnpackerCodeBlockBuilder.build"
UL = f"{M_BUILDER}::CodeBuilder._add_unpack_method_lines"


def _r07_2(repo: Repo, rep: Report) -> None:
    res = fieldblock.analyse(repo)
    rep.analysed.update({"build_paths": res.paths, "distinct_blocks": res.skeletons, "valuations": res.valuations})
    for u in res.undecided:
        rep.undecide("R07.2", u)
    # R07.1
    for s in sorted(set(res.sentinel_problems)):
        rep.violation("R07.1", BUILD, f"look-up `{MARK.sub('{}', s)}` without the MISSING sentinel",
                      "absence and explicit null are no longer distinguishable: an explicit null cannot override a default / an absent alias key")
    rep.ok("R07.1", f"{res.skeletons} field blocks use d.get(key, MISSING)", {"blocks": res.skeletons})
    seen = set()
    bad = [m for m in res.mismatches if m.clause in ("presence", "value", "target", "key")]
    for m in bad:
        inst = f"{m.gen.label()} | " + ",".join(k for k, v in m.valuation.items() if v) + f" -> expected {m.expected}, block does {m.actual}"
        if inst in seen:
            continue
        seen.add(inst)
        rep.violation("R07.2", BUILD, inst, "the generated field block does not implement 'default iff the key is absent, present keys always win'",
                      skeleton=m.skeleton)
    for _ in range(res.checked - len(bad)):
        rep.ok("R07.2", "valuation", None, nontrivial=False)
    rep.distinct.add(("R07.2", f"{res.skeletons} blocks"))
    for s in res.samples:
        rep.samples.append({"rule": "R07.2", **{k: str(v) for k, v in s.items()}})
    rep.floor("R07.2", 150)


def run(repo: Repo, rep: Report, tier: str) -> None:
    _r07_2(repo, rep)
    c = corpus_mod.explore_all(repo, tier)
    for e in c.errors:
        rep.undecide("corpus", e)
    # R07.1 (corpus wide): every `.get(K, S)` in deserialiser templates has S = MISSING
    seen1 = set()
    for it, r, tree in genfuncs.parsed_items(c, ("unpack", "build")):
        for n in ast.walk(tree):
            if isinstance(n, ast.Call) and isinstance(n.func, ast.Attribute) and n.func.attr == "get" and ast.unparse(n.func.value) in ("d", "value"):
                txt = MARK.sub("{}", ast.unparse(n))
                if txt in seen1:
                    continue
                seen1.add(txt)
                if len(n.args) == 2 and ast.unparse(n.args[1]) == "MISSING":
                    rep.ok("R07.1", txt, {"lookup": txt})
                elif "cache" in txt:
                    rep.ok("R07.1", txt + " (dialect cache, not an input look-up)", None, nontrivial=False)
                else:
                    site = it.lines[0].site[0] if it.lines else it.entry
                    rep.violation("R07.1", site, f"look-up `{txt}`", "key look-up without the MISSING sentinel")
    rep.floor("R07.1", 3)
    # R07.3 no default literal / default object on the unpack path
    n3 = 0
    for it in c.items:
        base = it.scenario.split("#")[0]
        if it.kind != "buffer" or not (base.startswith(("unpack", "build")) or base in ("unpack_lines", "unpack_method")):
            continue
        for l in it.lines:
            for h in l.tmpl.holes():
                n3 += 1
                if "DEFAULT_LITERAL" in h.val.tags or "get_field_default" in show(h.val):
                    rep.violation("R07.3", l.site[0], f"`{l.tmpl.skeleton()}`", "a field default is embedded in generated deserialisation code "
                                  "(a shared default object / a stale factory result instead of the constructor's own default)")
    rep.ok("R07.3", f"{n3} holes of deserialiser templates carry no default value", {"holes": n3})
    _r07_4(repo, rep, tier)
    _r07_5(repo, rep)
    _r07_6(repo, rep)
    # rules of sibling properties that are necessary conditions of this one as well (same rule ids)
    from ..core.report import Only
    from . import c16 as _c16
    _c16.run(repo, Only(rep, {"R16.1"}), tier)
    from ..core import helper_contracts as _hc
    _hc.report(repo, rep, "R07.7", _hc.field_default_contract(repo), "mashumaro.core.meta.code.builder::CodeBuilder.get_field_default")
    from ..core import helper_contracts as _hc2
    _hc2.report(repo, rep, "R09.6", _hc2.dataclass_fields_contract(repo), "mashumaro.core.meta.code.builder::CodeBuilder.dataclass_fields")
    from ..core import siblings as _sib2
    _sib2.check_own_method_tests(repo, rep, "R14.11")
    _r07_8(repo, rep)
    from ..core import helper_contracts as _hc5
    _hc5.report(repo, rep, "R09.7", _hc5.small_helper_contracts(repo), "mashumaro.core.meta.helpers::get_type_annotations / is_class_var / is_init_var")
    from ..core.report import Only as _OnlyX
    from ..core import corpus as _corpusX
    from . import c09 as _c09x
    _c09x.r09_1(repo, _OnlyX(rep, {"R09.1"}))

def _r07_4(repo: Repo, rep: Report, tier: str) -> None:
    fi = repo.func(M_BUILDER, "CodeBuilder._add_unpack_method_lines")
    ev = make_eval(repo, inline_depth=4, generic_elems=2, force_opaque={"build", "__get_field_alias"},
                   models={f"{M_BUILDER}::FieldUnpackerCodeBlockBuilder.build": corpus_mod.m_build_stub},
                   assume=[(r"lazy_compilation", False), (r"raises\[Unresolved", False), (r"get_discriminator", False),
                           (r"get_declared_hook\(__pre", False), (r"B\.decoder is None", True), (r"bool\(B\.decoder\)", False),
                           (r"forbid_extra_keys", False), (r"get_config\(\)\.debug", False)], max_steps=600000)
    p = Path()
    paths = ev.run(fi, {"self": ev.builder_obj(p), "method_name": Sym("method_name", {"IDENT"})}, p)
    rep.analysed["ctor_layout_paths"] = len(paths)
    seen = set()
    n = 0
    for q in paths:
        if q.ctl == "raise":
            continue
        lines = q.lines()
        if not lines:
            continue
        r = render(lines, wrap=True)
        try:
            tree = ast.parse(r.src)
        except SyntaxError as e:
            rep.violation("R07.4", fi.key, "from_dict body does not parse", str(e), generated=r.describe(r.src)[:800])
            continue
        # which fields took part, which of them are defaulted / kw-only
        fields = []
        for ev_ in q.events:
            if ev_ and ev_[0] == "build_call":
                fields.append(show(ev_[1]))
        hd = {f: q.atoms.get(f"has_default({f})") for f in fields}
        kwonly = q.env.get("kw_only_fields")
        kwonly_names = set(kwonly.entries) if isinstance(kwonly, Dct) else set()
        # the cls(...) call
        calls = [x for x in ast.walk(tree) if isinstance(x, ast.Call) and ast.unparse(x.func) == "cls"]
        if len(calls) != 1:
            rep.violation("R07.4", fi.key, f"{len(calls)} cls(...) calls in one from_dict body", "the instance must be constructed exactly once",
                          generated=r.describe(r.src)[:800])
            continue
        call = calls[0]
        name_of = {m: show(h.val) for m, h in r.holes.items()}
        pos = []
        for a in call.args:
            t = ast.unparse(a)
            m = re.fullmatch(r"__(_h\d+_)", t)
            pos.append(name_of.get(m.group(1)) if m else f"?{t}")
        kws = {}
        star = False
        for k in call.keywords:
            if k.arg is None:
                star = star or ast.unparse(k.value) == "kwargs"
                continue
            t = ast.unparse(k.value)
            m = re.fullmatch(r"__(_h\d+_)", t)
            kws[name_of.get(k.arg, k.arg)] = name_of.get(m.group(1)) if m else f"?{t}"
        kwargs_init = any(isinstance(s, ast.Assign) and ast.unparse(s.targets[0]) == "kwargs" for s in ast.walk(tree))
        layout = [(f, "D" if hd[f] else "R", "K" if f in kwonly_names else "-") for f in fields]
        key = (tuple(layout), tuple(pos), tuple(sorted(kws.items())), star, kwargs_init)
        if key in seen:
            continue
        seen.add(key)
        n += 1
        inst = f"layout {layout} -> cls({', '.join(pos)}{', ' if pos and kws else ''}{', '.join(f'{a}={b}' for a, b in kws.items())}{', **kwargs' if star else ''})"
        problems = []
        required = [f for f in fields if not hd[f]]
        passed = pos + list(kws.values())
        if sorted(passed) != sorted(required):
            problems.append(f"fields passed explicitly {sorted(passed)} != non-defaulted fields {sorted(required)}")
        for a, b in kws.items():
            if a != b:
                problems.append(f"keyword {a} receives the value of {b}")
        if pos != [f for f in fields if f in pos]:
            problems.append("positional arguments are not in declaration order")
        seen_def_or_kw = False
        for f in fields:
            if hd[f]:
                seen_def_or_kw = True
            elif seen_def_or_kw and f in pos:
                problems.append(f"{f} is passed positionally after a defaulted field")
            if f in kwonly_names and f in pos:
                problems.append(f"keyword-only field {f} is passed positionally")
        has_def = any(hd[f] for f in fields)
        if star != has_def:
            problems.append(f"**kwargs present={star} but defaulted fields present={has_def}")
        if star and not kwargs_init:
            problems.append("**kwargs is passed but kwargs is never initialised")
        if problems:
            rep.violation("R07.4", fi.key, inst, "; ".join(problems), generated=r.describe(r.src)[:900])
        else:
            rep.ok("R07.4", inst, {"layout": str(layout), "call": r.describe(ast.unparse(call))})
    rep.floor("R07.4", 6)


def _r07_8(repo: Repo, rep: Report) -> None:
    """R07.8: the from_dict field loop visits the fields in declaration order (the order of get_field_types()), because the
    positional arguments of the generated cls(...) call are emitted in loop order.  Any re-ordering of that iteration
    (sorted / reversed / a set) binds values to the wrong constructor parameters."""
    fi = repo.func(M_BUILDER, "CodeBuilder._add_unpack_method_lines")
    loops = [n for n in walk_no_nested(fi.node) if isinstance(n, ast.For) and "fname" in ast.unparse(n.target)]
    if not loops:
        rep.undecide("R07.8", "field loops of _add_unpack_method_lines not found")
        return
    src = None
    for n in walk_no_nested(fi.node):
        if isinstance(n, ast.Assign) and any(isinstance(t, ast.Name) and t.id == "field_types" for t in n.targets):
            src = ast.unparse(n.value)

    def origins(e, depth=0):
        if isinstance(e, ast.Name) and depth < 3:
            outs = []
            for n in walk_no_nested(fi.node):
                if isinstance(n, (ast.Assign, ast.AnnAssign)):
                    tg = n.targets if isinstance(n, ast.Assign) else [n.target]
                    if any(isinstance(t, ast.Name) and t.id == e.id for t in tg) and n.value is not None:
                        outs += origins(n.value, depth + 1)
            return outs or [e.id]
        return [ast.unparse(e)]

    os_ = []
    for loop in loops:
        os_ += origins(loop.iter)
    bad = [o for o in os_ if re.search(r"\b(sorted|reversed|set|frozenset|dict\.fromkeys)\(", o) or ".sort(" in o]
    for n in walk_no_nested(fi.node):  # an in-place sort of one of the lists the loops run over
        if isinstance(n, ast.Call) and isinstance(n.func, ast.Attribute) and n.func.attr in ("sort", "reverse") and isinstance(n.func.value, ast.Name) \
                and any(isinstance(l.iter, ast.Name) and l.iter.id == n.func.value.id for l in loops):
            bad.append(ast.unparse(n))
    if bad:
        rep.violation("R07.8", fi.key, f"the field loop iterates `{bad[0][:70]}`", "positional constructor arguments are emitted in loop order: a re-ordered iteration "
                      "binds values to the wrong parameters (silently, when the types are compatible)", loc=fi.loc)
    elif all(re.fullmatch(r"field_types\.items\(\)|self\.get_field_types\(.*\)\.items\(\)|\[\]", o) for o in os_):
        rep.ok("R07.8", f"the {len(loops)} field loops iterate {sorted(set(os_))} (declaration order; field_types = {src})", None)
    else:
        rep.undecide("R07.8", f"field loops iterate {sorted(set(os_))}")

def _r07_5(repo: Repo, rep: Report) -> None:
    # (a) init=False fields are skipped before any emission
    fi = repo.func(M_BUILDER, "CodeBuilder._add_unpack_method_lines")
    ev = make_eval(repo, inline_depth=4, force_opaque={"build", "__get_field_alias"}, generic_elems=2,
                   models={f"{M_BUILDER}::FieldUnpackerCodeBlockBuilder.build": corpus_mod.m_build_stub},
                   assume=[(r"lazy_compilation", False), (r"raises\[Unresolved", False), (r"get_discriminator", False),
                           (r"get_declared_hook", False), (r"B\.decoder is None", True), (r"bool\(B\.decoder\)", False),
                           (r"forbid_extra_keys", False), (r"get_config\(\)\.debug", False)])
    p = Path()
    paths = ev.run(fi, {"self": ev.builder_obj(p), "method_name": Sym("method_name", {"IDENT"})}, p)
    n_skip = n_built = 0
    seen_bad = set()
    for q in paths:
        for w in q.worlds():
            at = Path._view(w, "A|")
            idn = Path._view(w, "I|")
            built = [show(e[1]) for e in q.events if e and e[0] == "build_call"]
            for i in (1, 2):
                f = f"B.dataclass_fields.get(fname#{i})"
                init = at.get(f"bool({f}.init)")
                absent = at.get(f"bool({f})") is False or idn.get(f) == "None"
                if f"fname#{i}" in built:
                    n_built += 1
                    if init is not True and not absent and i not in seen_bad:
                        seen_bad.add(i)
                        rep.violation("R07.5", fi.key, f"a field block is emitted for member #{i} although this path never established `field.init`",
                                      "a member that is not a constructor parameter (init=False) is read from the input and passed to the constructor: TypeError for a present key",
                                      generated=q.text()[:400], atoms={k: v for k, v in at.items() if "dataclass_fields" in k})
                elif init is False:
                    n_skip += 1
    if n_skip == 0:
        rep.undecide("R07.5", "no generator path skips a member with `field.init` false in _add_unpack_method_lines")
    elif not seen_bad:
        rep.ok("R07.5", f"every emitted field block follows `field.init` true (or a member without Field); init=False members are skipped ({n_skip} skips, {n_built} blocks over two generic members)", {"skips": n_skip, "blocks": n_built})
    # (b) ClassVar / InitVar / KW_ONLY are filtered by __get_field_types
    gft = repo.func(M_BUILDER, "CodeBuilder.__get_field_types")
    ev2 = make_eval(repo, inline_depth=2, allow_inline={"__get_field_types"})
    p2 = Path()
    paths2 = ev2.run(gft, {"self": ev2.builder_obj(p2), "recursive": Const(True)}, p2)
    checked = 0
    for q in paths2:
        if q.ctl != "return":
            continue
        fields = q.retv
        stored = set(fields.entries) if isinstance(fields, Dct) else None
        if stored is None:
            rep.undecide("R07.5", "__get_field_types does not return a dict built by the function")
            continue
        for w in q.worlds():
            at = Path._view(w, "A|")
            ids = Path._view(w, "I|")
            excl = [k for k, v in at.items() if v and re.search(r"is_class_var|is_init_var|KW_ONLY", k)]
            idn = [k for k, v in ids.items() if v == "KW_ONLY"]
            checked += 1
            if (excl or idn) and stored:
                rep.violation("R07.5", gft.key, f"member kept although {excl or idn}", "ClassVar / InitVar / KW_ONLY members must not become fields", loc=gft.loc)
            else:
                rep.ok("R07.5", f"field filter path: excluded={(excl or idn)} stored={sorted(stored)}", None)
    if checked < 3:
        rep.error("R07.5: fewer than 3 paths through __get_field_types")
    src = ast.unparse(gft.node)
    for pred in ("is_class_var", "is_init_var", "KW_ONLY"):
        if pred not in src:
            rep.violation("R07.5", gft.key, f"{pred} test missing", f"__get_field_types no longer filters {pred} members", loc=gft.loc)


def _r07_6(repo: Repo, rep: Report) -> None:
    fi = repo.func(M_BUILDER, "CodeBuilder.dataclass_fields")
    loops = [n for n in walk_no_nested(fi.node) if isinstance(n, ast.For) and "__mro__" in ast.unparse(n.iter)]
    if len(loops) != 1:
        rep.undecide("R07.6", f"{len(loops)} loops over __mro__ in dataclass_fields")
        return
    it = loops[0].iter
    sample = ["C", "B", "A", "object"]  # __mro__ of class C(B), B(A)
    order = None
    try:
        if isinstance(it, ast.Subscript) and ast.unparse(it.value).endswith("__mro__"):
            order = _slice(sample, it.slice)
        elif isinstance(it, ast.Call) and ast.unparse(it.func) == "reversed" and isinstance(it.args[0], ast.Subscript):
            inner = it.args[0]
            order = list(reversed(_slice(sample, inner.slice)))
    except Exception:
        order = None
    if order is None:
        rep.undecide("R07.6", f"cannot evaluate the ancestor iteration `{ast.unparse(it)}`")
        return
    # later assignments overwrite earlier ones (d[field.name] = field), so the nearest ancestor must come last
    overwrite = any(isinstance(n, ast.Assign) and isinstance(n.targets[0], ast.Subscript) for n in ast.walk(loops[0]))
    inst = f"ancestors visited as {order} for mro {sample}"
    if overwrite and list(order) == ["object", "A", "B"]:
        rep.ok("R07.6", inst, {"iteration": ast.unparse(it)})
    elif not overwrite:
        rep.undecide("R07.6", "dataclass_fields no longer fills its dict by overwriting assignment")
    else:
        rep.violation("R07.6", fi.key, inst,
                      "inherited Field objects are collected so that a farther ancestor overrides a nearer one (or the class itself / object "
                      "is included): an overriding default or init flag of the nearest ancestor is lost", loc=fi.loc)


def _slice(sample, sl):
    """Apply a constant slice / index expression of the source to a sample list (no repository code runs)."""
    def c(x):
        if x is None:
            return None
        v = ast.literal_eval(x)
        if not isinstance(v, int):
            raise ValueError
        return v

    if isinstance(sl, ast.Slice):
        return sample[slice(c(sl.lower), c(sl.upper), c(sl.step))]
    raise ValueError


_ADDENDUM = ' Borrowed: R16.1 (keys are spliced through repr: an alias with escapes or quotes is looked up verbatim).'
EXPLANATION += _ADDENDUM
LEVEL_TEXT += _ADDENDUM
_ADD2 = ' R07.7: contract of get_field_default (Field.default, else the factory -- called only on request --, else the class attribute; MISSING means no default).'
EXPLANATION += _ADD2
LEVEL_TEXT += _ADD2
_ADD3 = " Borrowed: R09.6 (dataclass_fields: the nearest ancestor's Field wins; a bare re-annotation drops the inherited Field)."
EXPLANATION += _ADD3
LEVEL_TEXT += _ADD3
_ADD6 = " Borrowed: R14.11 (a subclass must not run its parent's compiled unpacker)."
EXPLANATION += _ADD6
LEVEL_TEXT += _ADD6
_ADD14 = ' R07.8: the from_dict field loop iterates the fields in declaration order (positional constructor arguments follow it).'
EXPLANATION += _ADD14
LEVEL_TEXT += _ADD14
_ADD18 = ' Borrowed: R09.7.'
EXPLANATION += _ADD18
LEVEL_TEXT += _ADD18
_ADD22 = ' Borrowed: R09.1 (alias source precedence).'
EXPLANATION += _ADD22
LEVEL_TEXT += _ADD22


_run_before_r6b = run


def run(repo, rep, tier):  # noqa: F811 -- round-6 remedies (core/round6.py)
    _run_before_r6b(repo, rep, tier)
    if getattr(rep, "borrowed", False):
        return
    from ..core import round6 as _r6b
    _r6b.nullability_sites_agree(repo, rep, "R08.10")
    _r6b.element_positions_nullable(repo, rep, "R05.15")


_ADDR6C = '  Borrowed: R08.10, R05.15.'
EXPLANATION += _ADDR6C
LEVEL_TEXT += _ADDR6C


_run_before_r7df = run


def run(repo, rep, tier):  # noqa: F811 -- round 7: CodeBuilder.dataclass_fields evaluated on inheritance shapes (typepreds.py)
    _run_before_r7df(repo, rep, tier)
    if getattr(rep, "borrowed", False):
        return
    from ..core import typepreds as _tp7df
    _tp7df.builder_method_cases(repo, rep, "R07.9")


_ADDR7DF = (" R07.9: CodeBuilder.dataclass_fields is interpreted from its own source (type-level evaluator, stub builder) on six inheritance shapes "
            "-- two dataclass bases, an own Field, a bare re-annotation, a finished dataclass, a diamond, no ancestor -- and must return, per "
            "name, the Field object of the nearest declaring ancestor, as dataclasses itself does.")
EXPLANATION += _ADDR7DF
LEVEL_TEXT += _ADDR7DF
