"""C05 -- Failures surface only as the documented exceptions and name the culprit."""

from __future__ import annotations

import ast
import builtins
import re
from typing import Dict, List, Set

from ..core import corpus as corpus_mod
from ..core import fieldblock, genfuncs
from ..core.pe import Path
from ..core.report import Report
from ..core.scen import make_eval
from ..core.skeleton import MARK, Rendered, render
from ..core.srcmodel import AnalysisError, M_BUILDER, M_UNPACK, Repo, Undecided, walk_no_nested
from ..core.values import Const, Hole, Sym, Tmpl, show

TECHNIQUE = "path enumeration of the deserialiser generators + skeleton evaluation against an exception model; scope/vocabulary rules on emitted templates"
EXPLANATION = (
    "R05.1 must-wrap/culprit: on every generator path of the per-field block and every run-time valuation, a failing "
    "conversion raises InvalidFieldValue(this field's name, its type, the raw input value, cls) and an absent required "
    "key raises MissingField(name, type, cls) -- nothing else. R05.3 every dereference of the argument d lies inside "
    "the try whose AttributeError handler turns a non-mapping into ValueError, and d is only dereferenced through "
    "attribute calls (which fail with AttributeError). R05.4 every raise in deserialiser templates names a documented "
    "exception with an accepted argument count. R05.5 every generated helper ends all its paths in return/raise. "
    "R05.6 fallback alternatives of the union unpacker depend on the input. R05.7 registry-miss handlers do not enclose "
    "calls into variant code. R05.8 field blocks are emitted in declaration order (no reordering on the unpack path). "
    "R05.9 no generated statement mutates the argument."
)
LEVEL_TEXT = EXPLANATION + " Exhaustive over generator paths x valuations for one generic field and over the emission corpus."
LEVEL_NOTE = (
    "Not decided: which exceptions the named conversions raise (all are caught by the bare except), exceptions of user "
    "hooks/strategies, deep equality of the input. Known genuine findings are listed in known_findings.json."
)
ASSUMPTIONS = ["attribute access on a non-mapping raises AttributeError", "user callables are opaque"]

# handlers of generated deserialisation code that swallow an exception (body = pass / continue):
# (generator function, exception) -> reason.  Confirmed by reading; anything else is reported.
SWALLOW_OK = {
    ("unpack_named_tuple", "IndexError"): "a NamedTuple with defaults stops at the first missing trailing item",
    ("UnionUnpackerBuilder._add_body", "Exception"): "a union member that rejects the input: try the next member",
    ("LiteralUnpackerBuilder._add_body", "Exception"): "bytes literal: undecodable input does not match, try the next literal",
    ("DiscriminatedUnionUnpackerBuilder._add_body", "KeyError"): "a subclass without its own tag is skipped while refilling the registry",
    ("DiscriminatedUnionUnpackerBuilder._add_body", "Exception"): "no discriminator field: a variant that rejects the input, try the next one",
    ("DiscriminatedUnionUnpackerBuilder._add_build_variant_unpacker", "Exception"): "no discriminator field: freshly compiled variant rejects the input",
}

T_EXC = {"ValueError", "MissingField", "InvalidFieldValue", "ExtraKeysError", "MissingDiscriminatorError",
         "SuitableVariantNotFoundError"}
UNPACK_SCEN = ("unpack", "build", "codec.add_decode")


def _exception_classes(repo: Repo, rep: Report, c=None) -> None:
    """R05.11: the library's exception classes store their constructor arguments verbatim (the reported culprit -- field
    name, type, offending value, extra keys -- is the very object the generated code passed, not a converted copy).
    R05.12: no library exception derives from an exception class that generated code catches for control flow
    (`except KeyError` / `except (KeyError, AttributeError)` of the discriminator dispatcher, `except IndexError` of the
    NamedTuple unpacker): such an exception, raised by a nested unpacker, would be swallowed and re-reported as
    something else."""
    import builtins as _b

    M_EXC_ = "mashumaro.exceptions"
    mi = repo.module(M_EXC_)
    control = set()
    if c is not None:
        for it in c.items:
            for l in it.lines:
                t = l.tmpl.show().strip()
                m = re.match(r"except\s*\(?([\w, ]+)\)?\s*:", t)
                if m:
                    for nm in m.group(1).split(","):
                        nm = nm.strip()
                        if nm and nm not in ("Exception", "BaseException"):
                            control.add(nm)
    if not control:
        control = {"KeyError", "AttributeError", "IndexError"}
    classes = {n.name: n for n in mi.tree.body if isinstance(n, ast.ClassDef)}

    def bases_closure(name, seen=()):
        out = []
        node = classes.get(name)
        if node is None:
            return out
        for b in node.bases:
            bn = ast.unparse(b)
            if bn in classes and bn not in seen:
                out += bases_closure(bn, seen + (name,))
            else:
                out.append(bn)
        return out

    n11 = n12 = 0
    for name, node in classes.items():
        roots = bases_closure(name)
        bad = []
        for r in roots:
            cls = getattr(_b, r, None)
            if isinstance(cls, type):
                bad += [cf for cf in control if isinstance(getattr(_b, cf, None), type) and issubclass(cls, getattr(_b, cf))]
        n12 += 1
        if bad:
            rep.violation("R05.12", f"{M_EXC_}::{name}", f"{name} is a {sorted(set(bad))[0]}",
                          f"generated code catches {sorted(control)} for control flow (registry miss, short tuple): a {name} raised by a nested unpacker is swallowed by the enclosing dispatcher "
                          "and re-reported as another error", loc=f"mashumaro/exceptions.py:{node.lineno}")
        else:
            rep.ok("R05.12", f"{name}({', '.join(roots)}) is not caught by the control-flow handlers {sorted(control)}", None)
        init = next((x for x in node.body if isinstance(x, ast.FunctionDef) and x.name == "__init__"), None)
        if init is None:
            continue
        params = {a.arg for a in init.args.args + init.args.kwonlyargs}
        for st in ast.walk(init):
            if isinstance(st, ast.Assign) and isinstance(st.targets[0], ast.Attribute) and isinstance(st.targets[0].value, ast.Name) and st.targets[0].value.id == "self":
                n11 += 1
                v = st.value
                if isinstance(v, ast.Name) and v.id in params:
                    rep.ok("R05.11", f"{name}.{st.targets[0].attr} = {v.id}", None)
                elif isinstance(v, ast.Constant):
                    rep.ok("R05.11", f"{name}.{st.targets[0].attr} = {ast.unparse(v)}", None, nontrivial=False)
                else:
                    rep.violation("R05.11", f"{M_EXC_}::{name}", f"{name}.{st.targets[0].attr} = {ast.unparse(v)[:60]}",
                                  "the exception no longer reports the object it was given (a key that is not a string, the offending value, the type) but a converted copy: "
                                  "distinct culprits collapse and callers cannot match them against their input", loc=f"mashumaro/exceptions.py:{st.lineno}")
    if n11 < 15 or n12 < 8:
        rep.error(f"exception rules shrank: {n11} attribute stores, {n12} classes")


def run(repo: Repo, rep: Report, tier: str) -> None:
    BUILD = f"{M_BUILDER}::FieldUnpackerCodeBlockBuilder.build"
    res = fieldblock.analyse(repo)
    # R07.1 (owned by C07): a look-up without the MISSING sentinel turns an absent required key into None instead of MissingField
    for _s in sorted(set(res.sentinel_problems)):
        rep.violation("R07.1", BUILD if "BUILD" in globals() else "mashumaro.core.meta.code.builder::FieldUnpackerCodeBlockBuilder.build",
                      f"look-up `{MARK.sub('{}', _s)}` without the MISSING sentinel",
                      "an absent required key is read as None: MissingField is not raised and the field silently becomes None")
    rep.ok("R07.1", f"{res.skeletons} field blocks use d.get(key, MISSING)", {"blocks": res.skeletons})
    rep.analysed.update({"build_paths": res.paths, "distinct_blocks": res.skeletons, "valuations": res.valuations})
    hp = sorted(set(res.handler_problems))
    for h in hp:
        rep.violation("R05.13", BUILD, f"per-field conversion guarded by `{h[:160]}`",
                      "the conversion of a field must be wrapped by exactly one catch-all handler raising InvalidFieldValue(field, type, d[field], cls): with an extra handler "
                      "an inner error escapes as it is and names an inner element / inner type instead of the field's own input value")
    if not hp:
        rep.ok("R05.13", "every per-field try has exactly one catch-all handler that raises InvalidFieldValue for the field", None)
    for u in res.undecided:
        if hp and "unknown run-time test" in u:
            continue  # explained by R05.13
        rep.undecide("R05.1", u)
    seen = set()
    bad = [m for m in res.mismatches if m.clause == "exception"]
    for m in bad:
        inst = f"{m.gen.label()} | " + ",".join(k for k, v in m.valuation.items() if v) + f" -> expected {m.expected}, block does {m.actual}"
        if inst in seen:
            continue
        seen.add(inst)
        rep.violation("R05.1", BUILD, inst, "the generated field block does not raise the documented exception with the culprit's name/value/holder", skeleton=m.skeleton)
    for _ in range(res.checked - len(bad)):
        rep.ok("R05.1", "valuation", None, nontrivial=False)
    rep.distinct.add(("R05.1", f"{res.skeletons} blocks"))
    for s in res.samples:
        rep.samples.append({"rule": "R05.1", **{k: str(v) for k, v in s.items()}})
    rep.floor("R05.1", 150)

    c = corpus_mod.explore_all(repo, tier)
    for e in c.errors:
        rep.undecide("corpus", e)
    sigs = genfuncs.exception_signatures(repo)
    UL = f"{M_BUILDER}::CodeBuilder._add_unpack_method_lines"

    seen4, seen5, seen7, seen9, seen3 = set(), set(), set(), set(), set()
    for it, r, tree in genfuncs.parsed_items(c):
        base = it.scenario.split("#")[0]
        is_unpack = base.startswith(UNPACK_SCEN) or base in ("unpack_lines", "unpack_method")
        if not is_unpack or it.kind != "buffer":
            continue
        site0 = it.lines[0].site[0] if it.lines else it.entry
        # ---- R05.4 vocabulary + arity
        for rs in genfuncs.raises_in(tree):
            exc = rs.exc
            name = exc.func.id if isinstance(exc, ast.Call) and isinstance(exc.func, ast.Name) else (exc.id if isinstance(exc, ast.Name) else None)
            nargs = len(exc.args) if isinstance(exc, ast.Call) else 0
            k = (site0, name, nargs)
            if k in seen4:
                continue
            seen4.add(k)
            inst = f"raise {name}/{nargs} in {base}"
            if name is None or name not in T_EXC:
                rep.violation("R05.4", site0, inst, f"deserialiser template raises `{r.describe(ast.unparse(exc))[:120]}` which is not a documented exception")
                continue
            if name in sigs:
                lo, hi = sigs[name]
                if not (lo <= nargs <= hi):
                    rep.violation("R05.4", site0, inst, f"{name} takes {lo}..{hi} arguments, the template passes {nargs}: a TypeError is born on the error path")
                    continue
            rep.ok("R05.4", inst, {"raise": r.describe(ast.unparse(exc))[:160]})
        # ---- R05.5 fall-through / R05.9 mutation: per generated function
        for fn in genfuncs.functions_of(tree):
            if fn.name == "_skeleton_":
                continue
            key = (site0, r.describe(ast.unparse(fn))[:4000])
            if key in seen5:
                continue
            seen5.add(key)
            try:
                ft = genfuncs.falls_through(fn, r)
            except Undecided as e:
                rep.undecide("R05.5", f"{site0}: {e}")
                ft = None
            label = f"helper generated by {site0.split('::')[-1]} ({base})"
            if ft:
                rep.violation("R05.5", site0, label, "a path of the generated helper falls off the end (returns None silently) " + ft,
                              generated=r.describe(ast.unparse(fn))[:1200])
            else:
                rep.ok("R05.5", label + f" #{len(seen5)}", None)
            params = {a.arg for a in fn.args.args} & {"d", "value"}
            for mut in genfuncs.param_mutations(fn, params):
                inst = f"`{MARK.sub('{}', mut)[:100]}` in {label}"
                if inst not in seen9:
                    seen9.add(inst)
                    rep.violation("R05.9", site0, inst, "generated deserialisation code mutates its argument in place")
            rep.ok("R05.9", f"no in-place mutation of the argument in {label} #{len(seen5)}", None, nontrivial=False)
        # ---- R05.7 handler scope (discriminated unions)
        if "Discriminated" in base or "Subtype" in base:
            for t in ast.walk(tree):
                if not isinstance(t, ast.Try):
                    continue
                for h in t.handlers:
                    ht = ast.unparse(h.type) if h.type is not None else ""
                    if "KeyError" not in ht:
                        continue
                    calls = [n for b in t.body for n in ast.walk(b) if isinstance(n, ast.Call)]
                    body = MARK.sub("{}", " ; ".join(ast.unparse(b) for b in t.body))[:160]
                    refill = any("variants_map" in ast.unparse(x) and isinstance(x, ast.Assign) for x in h.body)
                    k = (refill, bool(calls), ht)
                    if k in seen7:
                        continue
                    seen7.add(k)
                    inst = f"try [{'registry miss/refill' if refill else 'lookup'}] except {ht}: body has {'a call' if calls else 'no call'}"
                    if calls and refill:
                        rep.violation("R05.7", f"{M_UNPACK}::DiscriminatedUnionUnpackerBuilder._add_body", inst,
                                      "the try whose handler treats KeyError/AttributeError as 'tag not registered yet' also encloses the "
                                      "call into the variant's own from_dict: a KeyError raised inside it is reported as an unknown variant",
                                      generated=body)
                    else:
                        rep.ok("R05.7", inst, {"try": body})

    # ---- R05.10 swallowing handlers are exactly the confirmed ones
    seen10 = set()
    for it in c.items:
        base = it.scenario.split("#")[0]
        if it.kind != "buffer" or not (base.startswith(UNPACK_SCEN) or base in ("unpack_lines", "unpack_method")):
            continue
        ls = it.lines
        for i, l in enumerate(ls):
            sk = l.tmpl.skeleton().strip()
            if not sk.startswith("except"):
                continue
            head, _, tail = sk.partition(":")
            exc = head[len("except"):].strip() or "<bare>"
            swallow = tail.strip() in ("pass", "continue")
            if not tail.strip() and i + 1 < len(ls) and ls[i + 1].depth > l.depth:
                nxt = ls[i + 1].tmpl.skeleton().strip()
                last = i + 2 >= len(ls) or ls[i + 2].depth <= l.depth
                swallow = nxt in ("pass", "continue") and last
            if not swallow:
                continue
            fn = l.site[0].split("::")[-1]
            for one in [x.strip() for x in exc.strip("()").split(",")]:
                k = (fn, one)
                if k in seen10:
                    continue
                seen10.add(k)
                if k in SWALLOW_OK:
                    rep.ok("R05.10", f"{fn}: except {one} swallowed ({SWALLOW_OK[k]})", {"handler": sk})
                else:
                    rep.violation("R05.10", l.site[0], f"except {one}: pass/continue in code generated by {fn}",
                                  "generated deserialisation code swallows an exception class that is not among the confirmed, "
                                  "intended ones: invalid data can be silently replaced by a default", handler=sk)
    rep.floor("R05.10", 4)

    # ---- R05.3 guarded dereference of d in from_dict bodies
    n3 = 0
    for it, r, tree in genfuncs.parsed_items(c, ("unpack_lines",)):
        if it.bid != "main" or it.kind != "buffer":
            continue
        guarded = []
        for t in ast.walk(tree):
            if isinstance(t, ast.Try) and any(h.type is not None and "AttributeError" in ast.unparse(h.type) and "isinstance(d, dict)" in ast.unparse(h) and "ValueError" in ast.unparse(h) for h in t.handlers):
                guarded.append(t)
        inside: Set[int] = set()
        for t in guarded:
            for b in t.body:
                for n in ast.walk(b):
                    inside.add(id(n))
        parents: Dict[int, ast.AST] = {}
        for n in ast.walk(tree):
            for ch in ast.iter_child_nodes(n):
                parents[id(ch)] = n
        for n in ast.walk(tree):
            if not (isinstance(n, ast.Name) and n.id == "d" and isinstance(n.ctx, ast.Load)):
                continue
            par = parents.get(id(n))
            form = None
            if isinstance(par, ast.Attribute):
                form = f"d.{par.attr}"
                ok = id(n) in inside
                why = "attribute access outside the try that translates AttributeError into ValueError"
            elif isinstance(par, ast.Call) and n in par.args:
                callee = ast.unparse(par.func)
                form = f"{MARK.sub('{}', callee)}(d)"
                ok = not (callee in dir(builtins) and callee != "isinstance")
                why = f"d is handed to the builtin {callee}(), which does not fail with AttributeError on a non-mapping"
            else:
                form = f"{type(par).__name__} use of d"
                ok = False
                why = "d is used in a way that does not fail with AttributeError on a non-mapping"
            n3 += 1
            k = (form, ok)
            if k in seen3:
                continue
            seen3.add(k)
            if ok:
                rep.ok("R05.3", f"{form} guarded", {"use": form})
            else:
                rep.violation("R05.3", UL, f"use `{form}` of the argument", why + " (non-dict arguments must surface as ValueError)",
                              generated=r.describe(r.src)[:1500])
    rep.analysed["uses_of_d_checked"] = n3
    rep.floor("R05.3", 2)
    # per-field blocks dereference d only through d.get
    for it, r, tree in genfuncs.parsed_items(c, ("build",)):
        for n in ast.walk(tree):
            if isinstance(n, ast.Name) and n.id == "d" and isinstance(n.ctx, ast.Load):
                pass
        uses = {ast.unparse(x.func) for x in ast.walk(tree) if isinstance(x, ast.Call) and "d" in {m.id for m in ast.walk(x.func) if isinstance(m, ast.Name)}}
        bad_uses = {u for u in uses if u not in ("d.get",)}
        if bad_uses:
            rep.violation("R05.3", BUILD, f"field block dereferences d through {sorted(bad_uses)}", "only d.get(...) fails with AttributeError on a non-mapping")
    # ---- R05.3z a dataclass without (init) fields: is the argument checked at all?
    try:
        _fieldless(repo, rep)
    except Undecided as e:
        rep.undecide("R05.3z", str(e))

    # ---- R05.6 type-match eligible (fallback) unpackers must depend on the input
    n6 = 0
    seen6 = set()
    for it in c.items:
        if it.kind != "return" or not it.scenario.startswith("unpack.unpack_"):
            continue
        tme = [e for e in it.path.events if e and e[0] == "type_match_eligible"]
        for e in tme:
            v = e[1]
            t = v if isinstance(v, Tmpl) else Tmpl([v.v]) if isinstance(v, Const) and isinstance(v.v, str) else None
            if t is None:
                continue
            k = (it.entry, t.skeleton())
            if k in seen6:
                continue
            seen6.add(k)
            n6 += 1
            dep = any("EXPR" in h.val.tags or "spec.expression" in show(h.val) for h in t.holes())
            inst = f"fallback-eligible unpacker `{t.skeleton()}`"
            if dep:
                rep.ok("R05.6", inst, {"template": t.show()})
            else:
                rep.violation("R05.6", it.entry, inst,
                              "this unpacker is offered as an untyped fallback alternative of unions but does not depend on the input: "
                              "inside `try: return <it>` it accepts every value (invalid data is silently replaced)", template=t.show())
    rep.floor("R05.6", 3)

    # ---- R05.8 declaration order on the unpack path
    fi = repo.func(M_BUILDER, "CodeBuilder._add_unpack_method_lines")
    reorder = []
    for n in walk_no_nested(fi.node):
        if isinstance(n, ast.Call):
            f = n.func
            nm = f.id if isinstance(f, ast.Name) else f.attr if isinstance(f, ast.Attribute) else ""
            if nm in ("sorted", "sort", "reversed", "reverse", "shuffle"):
                txt = ast.unparse(n)
                # only the sequences that carry the per-field blocks / their order
                if re.search(r"\b(field_blocks|filtered_fields|field_types)\b", txt):
                    reorder.append(txt[:80])
        if isinstance(n, ast.For) and isinstance(n.iter, ast.Call) and isinstance(n.iter.func, ast.Name) and n.iter.func.id in ("set", "frozenset"):
            reorder.append(ast.unparse(n.iter)[:80])
    if reorder:
        rep.violation("R05.8", fi.key, f"reordering call {reorder[0]}", "field blocks must be emitted in declaration order: the first bad field decides the exception", loc=fi.loc)
    else:
        rep.ok("R05.8", "no sort/reverse/set-iteration on the from_dict generation path", {"function": fi.key})
    # rules of sibling properties that are necessary conditions of this one as well (same rule ids)
    from ..core.report import Only
    from . import c12 as _c12
    _c12.run(repo, Only(rep, {"R12.1c"}), tier)
    from ..core import helper_contracts as _hc2
    _hc2.report(repo, rep, "R09.6", _hc2.dataclass_fields_contract(repo), "mashumaro.core.meta.code.builder::CodeBuilder.dataclass_fields")
    _hc2.report(repo, rep, "R17.8", _hc2.add_type_modules_contract(repo), "mashumaro.core.meta.code.builder::CodeBuilder.add_type_modules")
    _exception_classes(repo, rep, corpus_mod.explore_all(repo, tier))
    from ..core.report import Only as _OnlyX
    from ..core import corpus as _corpusX
    from . import c03 as _c03x
    _c03x.run(repo, _OnlyX(rep, {"R03.1", "R03.4"}), tier)

def _fieldless(repo: Repo, rep: Report) -> None:
    fi = repo.func(M_BUILDER, "CodeBuilder._add_unpack_method_lines")
    ev = make_eval(repo, inline_depth=4, empty_loops=True, force_opaque={"build", "__get_field_alias"},
                   models={f"{M_BUILDER}::FieldUnpackerCodeBlockBuilder.build": corpus_mod.m_build_stub},
                   assume=[(r"lazy_compilation", False), (r"raises\[Unresolved", False), (r"get_discriminator", False),
                           (r"get_declared_hook", False), (r"B\.decoder is None", True), (r"bool\(B\.decoder\)", False),
                           (r"forbid_extra_keys", False), (r"field\.init|\.init\)", True)])
    p = Path()
    paths = ev.run(fi, {"self": ev.builder_obj(p), "method_name": Sym("method_name", {"IDENT"})}, p)
    found = False
    for q in paths:
        empty = any(k.startswith("nonempty(") and v is False for k, v in q.atoms.items())
        if not empty:
            continue
        found = True
        text = q.text()
        if "isinstance(d" in text or "d." in text:
            rep.ok("R05.3z", "field-less dataclass still checks its argument", {"generated": text[:300]})
        else:
            rep.violation("R05.3z", fi.key, "dataclass without init fields: generated from_dict never inspects d",
                          "a non-mapping argument is accepted silently (no ValueError)", generated=text[:400], loc=fi.loc)
    if not found:
        rep.undecide("R05.3z", "could not reach the zero-field path of _add_unpack_method_lines")


_ADDENDUM = ' The field block analysis treats a generator path that never asks whether the unpacker is the identity as serving both kinds of field. Borrowed: R12.1c (exception translation of the discriminator dispatcher).'
EXPLANATION += _ADDENDUM
LEVEL_TEXT += _ADDENDUM
_ADD3 = " Borrowed: R09.6 (dataclass_fields: the nearest ancestor's Field wins; a bare re-annotation drops the inherited Field)."
EXPLANATION += _ADD3
LEVEL_TEXT += _ADD3
_ADD4 = ' Borrowed: R17.8 (error paths render type references, whose modules must be registered).'
EXPLANATION += _ADD4
LEVEL_TEXT += _ADD4
_ADD6 = ' R05.11: exception classes store their arguments verbatim. R05.12: no library exception derives from a class that generated code catches for control flow.'
EXPLANATION += _ADD6
LEVEL_TEXT += _ADD6
_ADD19 = ' R05.13: every per-field try has exactly one catch-all handler raising InvalidFieldValue for that field.'
EXPLANATION += _ADD19
LEVEL_TEXT += _ADD19
_ADD22 = ' Borrowed: R03.1 (the unpackers are the documented coercions, which reject non-conforming input).'
EXPLANATION += _ADD22
LEVEL_TEXT += _ADD22

_ADDR5D = ' Borrowed: R03.4 as well (TypedDict / NamedTuple helper bodies: optional keys are read with get(..., MISSING), which fails on a non-mapping).'
EXPLANATION += _ADDR5D
LEVEL_TEXT += _ADDR5D


_run_before_r6 = run


def run(repo, rep, tier):  # noqa: F811 -- round-6 shape rules appended to the rules above
    _run_before_r6(repo, rep, tier)
    if getattr(rep, "borrowed", False):
        return
    from ..core import round6 as _r6
    _r6.nullability_through_annotated(repo, rep, "R05.14")


_ADDR6A = ' R05.14: the None guard is decided on the type the registry dispatches on -- is_optional strips Annotated[...] like Registry.get does, at every could_be_none site of the class and codec builders.'
EXPLANATION += _ADDR6A
LEVEL_TEXT += _ADDR6A


_run_before_r6b = run


def run(repo, rep, tier):  # noqa: F811 -- round-6 remedies (core/round6.py)
    _run_before_r6b(repo, rep, tier)
    if getattr(rep, "borrowed", False):
        return
    from ..core import round6 as _r6b
    _r6b.element_positions_nullable(repo, rep, "R05.15")


_ADDR6C = ' R05.15: inside the registries could_be_none=False is never forced and pack_X / unpack_X judge the same number of element positions afresh (could_be_none=True).'
EXPLANATION += _ADDR6C
LEVEL_TEXT += _ADDR6C


_run_before_r6c = run


def run(repo, rep, tier):  # noqa: F811 -- round-6 remedies, batch 3
    _run_before_r6c(repo, rep, tier)
    if getattr(rep, "borrowed", False):
        return
    from ..core import round6 as _r6c
    _r6c.speculative_variant_calls_guarded(repo, rep, "R05.16")


_ADDR6D = ' R05.16: in no-field discriminator mode every emitted speculative `return <variant>.<call>` (including the retry after an on-demand compilation) sits inside an emitted try.'
EXPLANATION += _ADDR6D
LEVEL_TEXT += _ADDR6D


_run_before_r7df = run


def run(repo, rep, tier):  # noqa: F811 -- round 7: CodeBuilder.dataclass_fields evaluated on inheritance shapes (typepreds.py)
    _run_before_r7df(repo, rep, tier)
    if getattr(rep, "borrowed", False):
        return
    from ..core import typepreds as _tp7df
    _tp7df.builder_method_cases(repo, rep, "R07.9")


_ADDR7DF = (" R07.9: CodeBuilder.dataclass_fields is interpreted from its own source (type-level evaluator, stub builder) on six inheritance shapes "
            "-- two dataclass bases, an own Field, a bare re-annotation, a finished dataclass, a diamond, no ancestor -- and must return, per "
            "name, the Field object of the nearest declaring ancestor, as dataclasses itself does.")
EXPLANATION += _ADDR7DF
LEVEL_TEXT += _ADDR7DF

_ADD_R7S = " Borrowed: R07.1 (every generated look-up is d.get(key, MISSING): absence stays distinguishable from null, so a missing required key raises MissingField)."
EXPLANATION += _ADD_R7S
LEVEL_TEXT += _ADD_R7S


_run_before_r7s = run


def run(repo, rep, tier):  # noqa: F811 -- round-7 remedies / borrowings
    _run_before_r7s(repo, rep, tier)
    if getattr(rep, "borrowed", False):
        return
    from ..core import round7 as _r7s
    _r7s.nullability_on_substituted_type(repo, rep, "R05.17")


_ADD_R7S = " R05.17: the field-level None guard is decided on get_real_type(name, type) -- the type Registry.get dispatches on, with the owner's type parameters substituted -- at both builder sites."
EXPLANATION += _ADD_R7S
LEVEL_TEXT += _ADD_R7S
