"""Direction discipline of the mirrored serialize / deserialize halves of the generator.

The library is written as two mirrored halves (pack.py / unpack.py, _add_pack_* / _add_unpack_*, get_pack_method_flags /
get_unpack_method_flags, PackerRegistry / UnpackerRegistry, __PRE_SERIALIZE__ / __PRE_DESERIALIZE__, encoder / decoder).
A *directional helper* is an identifier whose mirror image (pack<->unpack, serializ<->deserializ, encod<->decod,
to_<->from_) is also defined in the library; a *directional function* is one that lives in pack.py / unpack.py or is
itself such an identifier.  Rule: a function of one direction never refers to a helper of the other direction
(copy-and-paste slips between the halves still compile and still pass every test that does not exercise the
forwarded flag / name / hook)."""

from __future__ import annotations

import ast
from typing import Dict, List, Tuple

from .srcmodel import M_BUILDER, M_PACK, M_UNPACK, Repo, walk_no_nested

SUBS = [("unpack", "pack"), ("Unpack", "Pack"), ("UNPACK", "PACK"), ("deserializ", "serializ"), ("DESERIALIZ", "SERIALIZ"),
        ("Deserializ", "Serializ"), ("decod", "encod"), ("Decod", "Encod"), ("from_", "to_")]
NOT_HELPERS = {"decode", "encode"}  # str / bytes methods share these names


def pairs(repo: Repo) -> Dict[str, Tuple[str, str]]:
    names = set()
    for key, fi in repo.funcs.items():
        if fi.module.startswith("mashumaro") and not fi.module.startswith("mashumaro.jsonschema"):
            names.add(fi.qualname.split(".")[-1])
    for mn, mi in repo.modules.items():
        if not mn.startswith("mashumaro") or mn.startswith("mashumaro.jsonschema"):
            continue
        for st in mi.tree.body:
            if isinstance(st, ast.Assign):
                for t in st.targets:
                    if isinstance(t, ast.Name):
                        names.add(t.id)
            if isinstance(st, ast.ClassDef):
                names.add(st.name)
    for n in ast.walk(repo.func(M_BUILDER, "CodeBuilder.__init__").node):
        if isinstance(n, ast.Attribute) and isinstance(n.value, ast.Name) and n.value.id == "self":
            names.add(n.attr)
    out: Dict[str, Tuple[str, str]] = {}
    for n in names:
        for u, p in SUBS:
            if u in n:
                m = n.replace(u, p)
                if m in names and m != n and n not in NOT_HELPERS and m not in NOT_HELPERS:
                    out[n] = ("U", m)
                    out[m] = ("P", n)
    return out


def analyse(repo: Repo):
    """-> (pairs, n_directional_functions, n_refs_checked, crossings[(FuncInfo, direction, name, lineno)])"""
    pr = pairs(repo)
    crossings = []
    nfun = nref = 0
    for key, fi in sorted(repo.funcs.items()):
        if not fi.module.startswith("mashumaro") or fi.module.startswith("mashumaro.jsonschema"):
            continue
        nm = fi.qualname.split(".")[-1]
        d = "P" if fi.module == M_PACK else "U" if fi.module == M_UNPACK else pr[nm][0] if nm in pr else None
        if d is None:
            continue
        nfun += 1
        for n in walk_no_nested(fi.node):
            ident = n.id if isinstance(n, ast.Name) else n.attr if isinstance(n, ast.Attribute) else None
            if ident in pr:
                nref += 1
                if pr[ident][0] != d:
                    crossings.append((fi, d, ident, n.lineno))
    return pr, nfun, nref, crossings


def report(repo: Repo, rep, rule: str) -> None:
    pr, nfun, nref, crossings = analyse(repo)
    if len(pr) < 80 or nfun < 60 or nref < 100:
        rep.error(f"{rule}: direction analysis shrank: {len(pr)} mirrored identifiers, {nfun} directional functions, {nref} references")
    rep.analysed["direction"] = {"mirrored_identifiers": len(pr), "directional_functions": nfun, "references": nref}
    rep.ok(rule, f"{nref} references to directional helpers in {nfun} directional functions stay within their direction ({len(pr)} mirrored identifiers)", None)
    for fi, d, ident, ln in crossings:
        rep.violation(rule, fi.key, f"{'serialization' if d == 'P' else 'deserialization'}-side function refers to `{ident}` (mirror of `{pr[ident][1]}`)",
                      "a helper of the opposite direction is used: the flags / method name / registry / hook of the other half are forwarded "
                      "(e.g. the unpack flags carry no omit_none / by_alias, so keyword arguments are silently dropped)", loc=f"{fi.loc.split(':')[0]}:{ln}")
