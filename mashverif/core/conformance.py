"""Catalogue conformance: dispatch simulation (E6) vs reference semantics (T-PACK/T-UNPACK)."""

from __future__ import annotations

import ast
import datetime
import re
import typing
from dataclasses import dataclass
from typing import Any, Dict, List, Optional, Tuple

from . import oracle
from .dispatch import Dispatcher, Entry, Outcome, canonise, catalogue
from .skeleton import Rendered, render
from .srcmodel import Repo, Undecided
from .values import Const, Sym, show


@dataclass
class Row:
    entry: Entry
    kind: str
    cbn: bool
    actual: List[str]
    ref: List[str]
    funcs: List[str]
    ok: bool
    raised: List[str]
    outcomes: List[Outcome]


_CACHE: Dict[Any, List[Row]] = {}


def run_catalogue(repo: Repo, kind: str, no_copy: Tuple = (), cbn: bool = False, tier: str = "quick") -> List[Row]:
    key = (repo.digest, kind, tuple(map(repr, no_copy)), cbn)
    if key in _CACHE:
        return _CACHE[key]
    d = Dispatcher(repo, kind, no_copy=no_copy)
    rows = []
    for e in catalogue(tier):
        outs = d.dispatch(e, could_be_none=cbn)
        cs = sorted({canonise(o) for o in outs})
        ref = oracle.ref_pack(e.type, "X", no_copy, cbn=cbn) if kind == "PACK" else oracle.ref_unpack(e.type, "X", cbn=cbn)
        ok = len(cs) == 1 and (cs[0] in ref or any(oracle.canon_text(cs[0]) == oracle.canon_text(r) for r in ref))
        rows.append(Row(e, kind, cbn, cs, ref, sorted({o.func.split("::")[-1] if o.func else "-" for o in outs}), ok,
                        [o.raised for o in outs if o.raised], outs))
    _CACHE[key] = rows
    return rows


def run_entries(repo: Repo, kind: str, entries, cbn: bool = False) -> List[Row]:
    """The same comparison for an explicit list of entries (not part of the shared catalogue, not cached)."""
    d = Dispatcher(repo, kind)
    rows = []
    for e in entries:
        outs = d.dispatch(e, could_be_none=cbn)
        cs = sorted({canonise(o) for o in outs})
        ref = oracle.ref_pack(e.type, "X", (), cbn=cbn) if kind == "PACK" else oracle.ref_unpack(e.type, "X", cbn=cbn)
        ok = len(cs) == 1 and (cs[0] in ref or any(oracle.canon_text(cs[0]) == oracle.canon_text(r) for r in ref))
        rows.append(Row(e, kind, cbn, cs, ref, sorted({o.func.split("::")[-1] if o.func else "-" for o in outs}), ok,
                        [o.raised for o in outs if o.raised], outs))
    return rows


# --------------------------------------------------------------------------- helper bodies (TypedDict / NamedTuple with defaults)
def helper_body(o: Outcome) -> Optional[str]:
    """Canonical text of the helper function compiled on this outcome's path (statements only)."""
    for bid, lines in o.path.bufs.items():
        if bid == "main" or not lines:
            continue
        first = [l for l in lines if l.tmpl.skeleton().lstrip().startswith("def ")]
        if not first:
            continue
        body = [l for l in lines if l.depth >= 1]
        r = Rendered()
        render(body, wrap=False, r=r)
        # depth-1 lines -> dedent one level
        src = "\n".join(s[4:] if s.startswith("    ") else s for s in r.src.splitlines())
        try:
            tree = ast.parse(src)
        except SyntaxError:
            return "<unparseable> " + r.describe(src)
        reg = oracle.registered_objects(o.path)
        holes = {m: oracle.hole_token(h) for m, h in r.holes.items() if oracle.hole_token(h)}
        tree = oracle.Canon(reg, holes).visit(tree)
        return ast.unparse(tree)
    return None


def _strip_td_qualifiers(t):
    while typing.get_origin(t) in (typing.Required, typing.NotRequired, getattr(typing, "ReadOnly", None)) and typing.get_origin(t) is not None:
        t = typing.get_args(t)[0]
    return t


def ref_typeddict_body(td, kind: str) -> str:
    anns = {k: _strip_td_qualifiers(v) for k, v in td.__annotations__.items()}
    all_keys = list(anns)
    req = sorted(td.__required_keys__, key=all_keys.index)
    opt = sorted(td.__optional_keys__, key=all_keys.index)
    f = oracle.ref_pack if kind == "PACK" else oracle.ref_unpack
    out = ["d = {}"]
    for k in req:
        out.append(f"d[{k!r}] = {f(anns[k], f'value[{k!r}]')[0]}")
    for k in opt:
        out.append(f"key_value = value.get({k!r}, MISSING)")
        out.append(f"if key_value is not MISSING:\n    d[{k!r}] = {f(anns[k], 'key_value')[0]}")
    out.append("return d")
    return ast.unparse(ast.parse("\n".join(out)))


def ref_namedtuple_defaults_body(nt) -> str:
    anns = nt.__annotations__
    out = ["fields = []", "try:"]
    for i, fn in enumerate(nt._fields):
        out.append(f"    fields.append({oracle.ref_unpack(anns.get(fn, typing.Any), f'value[{i}]')[0]})")
    out.append("except IndexError:\n    pass")
    out.append(f"return {oracle.tok(nt)}(*fields)")
    return ast.unparse(ast.parse("\n".join(out)))
