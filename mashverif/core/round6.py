"""Repository-specific shape rules added in the sixth round.

Every rule decides a structural necessary condition named in its docstring, has a vacuity floor and reports
file:line of the offending construct.  Pure ``ast`` rules over the current tree.
"""

from __future__ import annotations

import ast
from typing import List, Optional, Set

from .report import Report
from .round5 import _loc, _own_nodes
from .srcmodel import AnalysisError, M_BUILDER, M_CODEC_BUILDER, M_COMMON, M_HELPERS, FuncInfo, Repo

UNWRAP_FORMS = ("get_type_origin({p})", "{p}.__origin__", "get_args({p})[0]", "typing.get_args({p})[0]")


def _registry_get_unwraps(repo: Repo) -> Optional[ast.If]:
    fi = repo.func(M_COMMON, "Registry.get")
    for n in _own_nodes(fi.node):
        if isinstance(n, ast.If) and "is_annotated(spec.type)" in ast.unparse(n.test):
            for st in n.body:
                if isinstance(st, ast.Assign) and ast.unparse(st.targets[0]) == "spec.type" and "spec.type" in ast.unparse(st.value):
                    return n
    return None


def _predicate_unwraps(fi: FuncInfo) -> Optional[bool]:
    """True: every path to the union test first replaces an Annotated parameter by its origin; False: the parameter
    reaches the union test as given; None: a form this rule does not recognise."""
    if not fi.node.args.args:
        return None
    p = fi.node.args.args[0].arg
    forms = {f.format(p=p) for f in UNWRAP_FORMS}
    union_line = min((n.lineno for n in _own_nodes(fi.node) if isinstance(n, ast.Call) and ast.unparse(n.func) in ("is_union", "get_args")
                      and n.args and ast.unparse(n.args[0]) == p), default=None)
    if union_line is None:
        return None
    mentions = [n for n in _own_nodes(fi.node) if isinstance(n, ast.Call) and ast.unparse(n.func) == "is_annotated"]
    if not mentions:
        return False
    for st in fi.node.body:
        if st.lineno >= union_line:
            break
        if isinstance(st, ast.If) and ast.unparse(st.test) == f"is_annotated({p})" and not st.orelse:
            for b in st.body:
                if isinstance(b, ast.Assign) and len(b.targets) == 1 and ast.unparse(b.targets[0]) == p and ast.unparse(b.value) in forms:
                    return True
                if isinstance(b, ast.Return) and isinstance(b.value, ast.Call) and ast.unparse(b.value.func) == fi.node.name \
                        and b.value.args and ast.unparse(b.value.args[0]) in forms:
                    return True
        if isinstance(st, ast.While) and ast.unparse(st.test) == f"is_annotated({p})":
            for b in st.body:
                if isinstance(b, ast.Assign) and ast.unparse(b.targets[0]) == p and ast.unparse(b.value) in forms:
                    return True
    return None


def nullability_through_annotated(repo: Repo, rep: Report, rule: str) -> None:
    """The None guard of a field / codec root is decided by the *caller* of the registries (`could_be_none = ... or
    is_optional(<type>, ...)`), on the type as annotated, whereas Registry.get strips `Annotated[...]` before it
    dispatches.  Both must see the same type: either is_optional replaces an Annotated argument by its origin before the
    union test, or the call site passes an unwrapped type.  Otherwise `Annotated[Optional[X], m]` dispatches to X's
    converter with no `is not None` guard: a declared-legal None raises AttributeError / ValueError (round trip, documented
    exceptions, schema default rendering)."""
    if _registry_get_unwraps(repo) is None:
        rep.undecide(rule, "Registry.get no longer strips Annotated before dispatch: the premise of this rule is gone")
        return
    pred = repo.func(M_HELPERS, "is_optional")
    unwraps = _predicate_unwraps(pred)
    sites: List = []
    for mod in (M_BUILDER, M_CODEC_BUILDER):
        for fi in repo.funcs.values():
            if fi.module != mod:
                continue
            for n in _own_nodes(fi.node):
                if isinstance(n, (ast.Assign, ast.AnnAssign)) and n.value is not None:
                    tgt = n.targets[0] if isinstance(n, ast.Assign) else n.target
                    if ast.unparse(tgt) != "could_be_none":
                        continue
                    for c in ast.walk(n.value):
                        if isinstance(c, ast.Call) and ast.unparse(c.func) == "is_optional" and c.args:
                            sites.append((fi, c))
    for fi, c in sites:
        arg = ast.unparse(c.args[0])
        inst = f"{fi.qualname}: could_be_none consults is_optional({arg}, ...)"
        local_unwrap = any(isinstance(n, ast.Assign) and ast.unparse(n.targets[0]) == arg and "is_annotated" in ast.unparse(fi.node)
                           and ast.unparse(n.value) in {f.format(p=arg) for f in UNWRAP_FORMS} and n.lineno < c.lineno for n in _own_nodes(fi.node))
        if unwraps is True or local_unwrap:
            rep.ok(rule, inst + (" -- is_optional strips Annotated first" if unwraps else " -- unwrapped at the call site"), None)
        elif unwraps is False:
            rep.violation(rule, pred.key, inst + "; is_optional tests the argument as given",
                          "Registry.get strips Annotated[...] before dispatch but the nullability of the position is decided on the annotated type: "
                          "Annotated[Optional[X], m] gets X's converter without a None guard, so a None value raises AttributeError (to_dict / encode), "
                          "ValueError (decode) and build_json_schema fails while rendering a None default", loc=_loc(fi, c))
        else:
            rep.undecide(rule, inst + "; is_optional mentions is_annotated in a form this rule does not recognise")
    rep.floor(rule, 4)


# ------------------------------------------------------------------------------------------------ Instance typestate
def instance_type_state(repo: Repo, rep: Report, rule: str) -> None:
    """jsonschema Instance keeps three facts derived from `self.type`: `origin_type`, and the private `__self_builder`
    (the CodeBuilder of a dataclass type together with its type arguments) which only `update_type` computes.  Every
    write of `self.type` in a method of Instance other than update_type is followed, on the fall-through path of its
    block, by a call of `self.update_type(...)`; otherwise the derived facts describe the previous type (for
    `Annotated[G[int], m]` the builder of the Annotated alias, i.e. none: `fields()` fails its assertion)."""
    from .srcmodel import M_SCHEMA
    ci = repo.cls(M_SCHEMA, "Instance")
    n = 0
    for fn in ci.node.body:
        if not isinstance(fn, ast.FunctionDef) or fn.name == "update_type":
            continue

        def visit(stmts: List[ast.stmt], tail_has_update: bool) -> None:
            nonlocal n
            for i, st in enumerate(stmts):
                rest = stmts[i + 1:]
                later = tail_has_update or any(isinstance(c, ast.Call) and ast.unparse(c.func) == "self.update_type" for r in rest for c in ast.walk(r))
                if isinstance(st, (ast.Assign, ast.AugAssign, ast.AnnAssign)):
                    tgts = st.targets if isinstance(st, ast.Assign) else [st.target]
                    if any(ast.unparse(t) == "self.type" for tg in tgts for t in ast.walk(tg) if isinstance(t, ast.Attribute)):
                        n += 1
                        inst = f"Instance.{fn.name}: `{ast.unparse(st)[:70]}`"
                        if later:
                            rep.ok(rule, inst + " is followed by update_type", None)
                        else:
                            rep.violation(rule, f"{M_SCHEMA}::Instance.{fn.name}", inst + " is not followed by self.update_type(...)",
                                          "origin_type and the dataclass builder (with its type arguments) are derived from self.type by update_type only; "
                                          "after this write they still describe the previous type: Annotated[G[int], m] for a generic dataclass G keeps "
                                          "no builder and Instance.fields() fails with AssertionError inside build_json_schema",
                                          loc=f"mashumaro/jsonschema/schema.py:{st.lineno}")
                for name in ("body", "orelse", "finalbody"):
                    sub = getattr(st, name, None)
                    if isinstance(sub, list) and sub and isinstance(sub[0], ast.stmt):
                        visit(sub, later)
                for h in getattr(st, "handlers", []) or []:
                    visit(h.body, later)

        visit(fn.body, False)
    writers = [fn.name for fn in ci.node.body if isinstance(fn, ast.FunctionDef)
               and any(isinstance(a, ast.Attribute) and a.attr.endswith("__self_builder") and isinstance(a.ctx, ast.Store) for a in ast.walk(fn))]
    if writers == ["update_type"]:
        rep.ok(rule, "only Instance.update_type writes __self_builder", None)
    elif "update_type" not in writers:
        raise AnalysisError(f"Instance.update_type no longer computes __self_builder (writers: {writers})")
    else:
        extra = [w for w in writers if w != "update_type"]
        if extra == ["derive"]:
            rep.ok(rule, "Instance.derive hands its own builder down as the owner builder; update_type is the only writer of __self_builder", None)
        else:
            rep.undecide(rule, f"__self_builder is also written by {extra}")
    if n < 1:
        raise AnalysisError("no write of self.type found in Instance outside update_type")
    rep.floor(rule, 2)
