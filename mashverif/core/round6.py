"""Repository-specific shape rules added in the sixth round.

Every rule decides a structural necessary condition named in its docstring, has a vacuity floor and reports
file:line of the offending construct.  Pure ``ast`` rules over the current tree.
"""

from __future__ import annotations

import ast
from typing import List, Optional, Set

from .report import Report
from .round5 import _loc, _own_nodes
from .srcmodel import AnalysisError, M_BUILDER, M_CODEC_BUILDER, M_COMMON, M_HELPERS, FuncInfo, Repo

UNWRAP_FORMS = ("get_type_origin({p})", "{p}.__origin__", "get_args({p})[0]", "typing.get_args({p})[0]")


def _registry_get_unwraps(repo: Repo) -> Optional[ast.If]:
    fi = repo.func(M_COMMON, "Registry.get")
    for n in _own_nodes(fi.node):
        if isinstance(n, ast.If) and "is_annotated(spec.type)" in ast.unparse(n.test):
            for st in n.body:
                if isinstance(st, ast.Assign) and ast.unparse(st.targets[0]) == "spec.type" and "spec.type" in ast.unparse(st.value):
                    return n
    return None


def _predicate_unwraps(fi: FuncInfo) -> Optional[bool]:
    """True: every path to the union test first replaces an Annotated parameter by its origin; False: the parameter
    reaches the union test as given; None: a form this rule does not recognise."""
    if not fi.node.args.args:
        return None
    p = fi.node.args.args[0].arg
    forms = {f.format(p=p) for f in UNWRAP_FORMS}
    union_line = min((n.lineno for n in _own_nodes(fi.node) if isinstance(n, ast.Call) and ast.unparse(n.func) in ("is_union", "get_args")
                      and n.args and ast.unparse(n.args[0]) == p), default=None)
    if union_line is None:
        return None
    mentions = [n for n in _own_nodes(fi.node) if isinstance(n, ast.Call) and ast.unparse(n.func) == "is_annotated"]
    if not mentions:
        return False
    for st in fi.node.body:
        if st.lineno >= union_line:
            break
        if isinstance(st, ast.If) and ast.unparse(st.test) == f"is_annotated({p})" and not st.orelse:
            for b in st.body:
                if isinstance(b, ast.Assign) and len(b.targets) == 1 and ast.unparse(b.targets[0]) == p and ast.unparse(b.value) in forms:
                    return True
                if isinstance(b, ast.Return) and isinstance(b.value, ast.Call) and ast.unparse(b.value.func) == fi.node.name \
                        and b.value.args and ast.unparse(b.value.args[0]) in forms:
                    return True
        if isinstance(st, ast.While) and ast.unparse(st.test) == f"is_annotated({p})":
            for b in st.body:
                if isinstance(b, ast.Assign) and ast.unparse(b.targets[0]) == p and ast.unparse(b.value) in forms:
                    return True
    return None


def nullability_through_annotated(repo: Repo, rep: Report, rule: str) -> None:
    """The None guard of a field / codec root is decided by the *caller* of the registries (`could_be_none = ... or
    is_optional(<type>, ...)`), on the type as annotated, whereas Registry.get strips `Annotated[...]` before it
    dispatches.  Both must see the same type: either is_optional replaces an Annotated argument by its origin before the
    union test, or the call site passes an unwrapped type.  Otherwise `Annotated[Optional[X], m]` dispatches to X's
    converter with no `is not None` guard: a declared-legal None raises AttributeError / ValueError (round trip, documented
    exceptions, schema default rendering)."""
    if _registry_get_unwraps(repo) is None:
        rep.undecide(rule, "Registry.get no longer strips Annotated before dispatch: the premise of this rule is gone")
        return
    pred = repo.func(M_HELPERS, "is_optional")
    unwraps = _predicate_unwraps(pred)
    sites: List = []
    for mod in (M_BUILDER, M_CODEC_BUILDER):
        for fi in repo.funcs.values():
            if fi.module != mod:
                continue
            for n in _own_nodes(fi.node):
                if isinstance(n, (ast.Assign, ast.AnnAssign)) and n.value is not None:
                    if not isinstance(n.value, ast.BoolOp):
                        continue
                    for c in ast.walk(n.value):
                        if isinstance(c, ast.Call) and ast.unparse(c.func) == "is_optional" and c.args:
                            sites.append((fi, c))
    for fi, c in sites:
        arg = ast.unparse(c.args[0])
        inst = f"{fi.qualname}: could_be_none consults is_optional({arg}, ...)"
        local_unwrap = any(isinstance(n, ast.Assign) and ast.unparse(n.targets[0]) == arg and "is_annotated" in ast.unparse(fi.node)
                           and ast.unparse(n.value) in {f.format(p=arg) for f in UNWRAP_FORMS} and n.lineno < c.lineno for n in _own_nodes(fi.node))
        if unwraps is True or local_unwrap:
            rep.ok(rule, inst + (" -- is_optional strips Annotated first" if unwraps else " -- unwrapped at the call site"), None)
        elif unwraps is False:
            rep.violation(rule, pred.key, inst + "; is_optional tests the argument as given",
                          "Registry.get strips Annotated[...] before dispatch but the nullability of the position is decided on the annotated type: "
                          "Annotated[Optional[X], m] gets X's converter without a None guard, so a None value raises AttributeError (to_dict / encode), "
                          "ValueError (decode) and build_json_schema fails while rendering a None default", loc=_loc(fi, c))
        else:
            rep.undecide(rule, inst + "; is_optional mentions is_annotated in a form this rule does not recognise")
    rep.floor(rule, 4)


# ------------------------------------------------------------------------------------------------ Instance typestate
def instance_type_state(repo: Repo, rep: Report, rule: str) -> None:
    """jsonschema Instance keeps three facts derived from `self.type`: `origin_type`, and the private `__self_builder`
    (the CodeBuilder of a dataclass type together with its type arguments) which only `update_type` computes.  Every
    write of `self.type` in a method of Instance other than update_type is followed, on the fall-through path of its
    block, by a call of `self.update_type(...)`; otherwise the derived facts describe the previous type (for
    `Annotated[G[int], m]` the builder of the Annotated alias, i.e. none: `fields()` fails its assertion)."""
    from .srcmodel import M_SCHEMA
    ci = repo.cls(M_SCHEMA, "Instance")
    n = 0
    for fn in ci.node.body:
        if not isinstance(fn, ast.FunctionDef) or fn.name == "update_type":
            continue

        def visit(stmts: List[ast.stmt], tail_has_update: bool) -> None:
            nonlocal n
            for i, st in enumerate(stmts):
                rest = stmts[i + 1:]
                later = tail_has_update or any(isinstance(c, ast.Call) and ast.unparse(c.func) == "self.update_type" for r in rest for c in ast.walk(r))
                if isinstance(st, (ast.Assign, ast.AugAssign, ast.AnnAssign)):
                    tgts = st.targets if isinstance(st, ast.Assign) else [st.target]
                    if any(ast.unparse(t) == "self.type" for tg in tgts for t in ast.walk(tg) if isinstance(t, ast.Attribute)):
                        n += 1
                        inst = f"Instance.{fn.name}: `{ast.unparse(st)[:70]}`"
                        if later:
                            rep.ok(rule, inst + " is followed by update_type", None)
                        else:
                            rep.violation(rule, f"{M_SCHEMA}::Instance.{fn.name}", inst + " is not followed by self.update_type(...)",
                                          "origin_type and the dataclass builder (with its type arguments) are derived from self.type by update_type only; "
                                          "after this write they still describe the previous type: Annotated[G[int], m] for a generic dataclass G keeps "
                                          "no builder and Instance.fields() fails with AssertionError inside build_json_schema",
                                          loc=f"mashumaro/jsonschema/schema.py:{st.lineno}")
                for name in ("body", "orelse", "finalbody"):
                    sub = getattr(st, name, None)
                    if isinstance(sub, list) and sub and isinstance(sub[0], ast.stmt):
                        visit(sub, later)
                for h in getattr(st, "handlers", []) or []:
                    visit(h.body, later)

        visit(fn.body, False)
    writers = [fn.name for fn in ci.node.body if isinstance(fn, ast.FunctionDef)
               and any(isinstance(a, ast.Attribute) and a.attr.endswith("__self_builder") and isinstance(a.ctx, ast.Store) for a in ast.walk(fn))]
    if writers == ["update_type"]:
        rep.ok(rule, "only Instance.update_type writes __self_builder", None)
    elif "update_type" not in writers:
        raise AnalysisError(f"Instance.update_type no longer computes __self_builder (writers: {writers})")
    else:
        extra = [w for w in writers if w != "update_type"]
        if extra == ["derive"]:
            rep.ok(rule, "Instance.derive hands its own builder down as the owner builder; update_type is the only writer of __self_builder", None)
        else:
            rep.undecide(rule, f"__self_builder is also written by {extra}")
    if n < 1:
        raise AnalysisError("no write of self.type found in Instance outside update_type")
    rep.floor(rule, 2)


# ================================================================================================ round-6 remedies
from .srcmodel import M_PACK, M_UNPACK, M_SCHEMA  # noqa: E402

M_MIXINS = {"msgpack": "mashumaro.mixins.msgpack", "toml": "mashumaro.mixins.toml", "orjson": "mashumaro.mixins.orjson", "yaml": "mashumaro.mixins.yaml"}
M_CODECS = {"msgpack": "mashumaro.codecs.msgpack", "toml": "mashumaro.codecs.toml", "orjson": "mashumaro.codecs.orjson", "yaml": "mashumaro.codecs.yaml"}


def _func(repo: Repo, module: str, name: str) -> Optional[FuncInfo]:
    return repo.funcs.get(f"{module}::{name}")


def _strings(node: ast.AST) -> str:
    """Concatenated constant text of the string pieces under node (f-string holes rendered as {..})."""
    out = []
    for n in ast.walk(node):
        if isinstance(n, ast.Constant) and isinstance(n.value, str):
            out.append(n.value)
    return "".join(out)


def dispatcher_paths_agree(repo: Repo, rep: Report, rule: str) -> None:
    """The dialect dispatcher emitted by _add_pack_method_with_dialect_lines / _add_unpack_method_with_dialect_lines
    has two exits: the cache hit (`packer(...)`) and the compile-then-call (`<cache>[dialect](...)`).  Both forward
    the same argument list (one variable, built once from get_*_method_flags) through the same return template (one
    variable with a single reaching definition group before the first exit).  Otherwise the second and later calls
    with a dialect behave differently from the first (encoder options, context, flags dropped on one exit only)."""
    n = 0
    for qn, hit, helper in (("CodeBuilder._add_pack_method_with_dialect_lines", "packer(", "get_pack_method_flags"),
                            ("CodeBuilder._add_unpack_method_with_dialect_lines", "unpacker(", "get_unpack_method_flags")):
        fi = repo.func(M_BUILDER, qn)
        exits = []
        for c in _own_nodes(fi.node):
            if isinstance(c, ast.JoinedStr):
                txt = _strings(c)
                if (hit in txt and "=" not in txt.split(hit)[0][-12:] and ".get(" not in txt) or "[dialect](" in txt:
                    names = sorted({x.id for v in c.values if isinstance(v, ast.FormattedValue) for x in ast.walk(v.value) if isinstance(x, ast.Name)} - {"cache_name"})
                    exits.append((c, names))
        if len(exits) != 2:
            raise AnalysisError(f"{qn}: expected the two exits of the dialect dispatcher, found {len(exits)}")
        (a, na), (b, nb) = sorted(exits, key=lambda e: e[0].lineno)
        n += 1
        inst = f"{qn.split('.')[-1]}: cache-hit exit forwards {na}, compile exit forwards {nb}"
        if na != nb or len(na) != 1:
            rep.violation(rule, fi.key, inst, "both exits of the dialect dispatcher must forward the same argument list: with different lists the "
                          "first call with a dialect and the later ones (cache hit) pass different flags / context to the same compiled method", loc=_loc(fi, a))
            continue
        var = na[0]
        defs = [st for st in _own_nodes(fi.node) if isinstance(st, ast.Assign) and any(ast.unparse(t) == var for t in st.targets)]
        if len(defs) != 1 or helper not in ast.unparse(defs[0].value):
            rep.violation(rule, fi.key, inst + f"; `{var}` is not built once from {helper}()", "the forwarded flags are exactly the ones the compiled method declares "
                          f"({helper} is their single source)", loc=_loc(fi, defs[0] if defs else a))
            continue
        # the return template (if any): every definition precedes the first exit
        tmpl = set()
        for c in _own_nodes(fi.node):
            if isinstance(c, ast.Call) and isinstance(c.func, ast.Attribute) and c.func.attr == "format" and isinstance(c.func.value, ast.Name):
                tmpl.add(c.func.value.id)
        bad = None
        for t in tmpl:
            for st in _own_nodes(fi.node):
                if isinstance(st, ast.Assign) and any(ast.unparse(x) == t for x in st.targets) and st.lineno > a.lineno:
                    bad = (t, st)
        uses = [c for c in _own_nodes(fi.node) if isinstance(c, ast.Call) and isinstance(c.func, ast.Attribute) and c.func.attr == "format"]
        if bad:
            rep.violation(rule, fi.key, inst + f"; the return template `{bad[0]}` is redefined between the two exits",
                          "the encoder and its options wrap both exits identically", loc=_loc(fi, bad[1]))
        elif tmpl and len(uses) != 2:
            rep.violation(rule, fi.key, inst + f"; the return template is applied {len(uses)} time(s), not on both exits", "the encoder and its options wrap both exits identically", loc=fi.loc)
        else:
            rep.ok(rule, inst + (f"; one return template {sorted(tmpl)} defined before the first exit" if tmpl else ""), None)
    # sibling: the emitted CodeBuilder(...) constructor calls carry the same keywords
    kws = {}
    for qn in ("CodeBuilder._add_pack_method_with_dialect_lines", "CodeBuilder._add_unpack_method_with_dialect_lines"):
        fi = repo.func(M_BUILDER, qn)
        import re
        for c in _own_nodes(fi.node):
            if isinstance(c, ast.Call) and ast.unparse(c.func) == "self.add_line" and c.args and "CodeBuilder(" in _strings(c.args[0]):
                kws[qn] = (set(re.findall(r"(\w+)=", _strings(c.args[0]))), c, fi)
    if len(kws) != 2:
        raise AnalysisError("the emitted CodeBuilder(...) call of a dialect dispatcher was not found")
    (pa, ca, fa), (pb, cb, fb) = kws.values()
    inst = f"emitted CodeBuilder(...) keywords: pack {sorted(pa)}, unpack {sorted(pb)}"
    need = {"dialect", "first_method", "format_name", "default_dialect"}
    if pa != pb or not need <= pa:
        miss_fi, miss_c = (fa, ca) if not need <= pa else (fb, cb)
        rep.violation(rule, miss_fi.key, inst, "the dialect-specific builder is created with the same parameters on the pack and the unpack side "
                      "(call dialect, first method, format, the format's default dialect): dropping default_dialect on one side makes "
                      "encode and decode disagree about the format dialect (msgpack bytes) when a dialect is passed", loc=_loc(miss_fi, miss_c))
    else:
        rep.ok(rule, inst, None)
    rep.floor(rule, 3)


def flag_lists_owned(repo: Repo, rep: Report, rule: str) -> None:
    """Keyword lists of the form `<flag>=<flag>` forwarded between generated methods are built in
    get_pack_method_flags / get_unpack_method_flags only (they know context, dialect, encoder/decoder, omit_none,
    by_alias together).  A second, hand-built list elsewhere in CodeBuilder forgets whatever flag is added later."""
    owners = {"get_pack_method_flags", "get_unpack_method_flags"}
    n = 0
    for fi in repo.funcs.values():
        if fi.module != M_BUILDER:
            continue
        for c in _own_nodes(fi.node):
            if not isinstance(c, ast.JoinedStr) or len(c.values) != 3:
                continue
            a, eq, b = c.values
            if isinstance(a, ast.FormattedValue) and isinstance(b, ast.FormattedValue) and isinstance(eq, ast.Constant) and eq.value == "=" \
                    and ast.unparse(a.value) == ast.unparse(b.value):
                n += 1
                name = fi.qualname.split(".")[-1]
                inst = f"{fi.qualname}: builds `{ast.unparse(c)}`"
                if name in owners:
                    rep.ok(rule, inst, None)
                else:
                    rep.violation(rule, fi.key, inst + " outside get_pack_method_flags / get_unpack_method_flags",
                                  "a hand-built flag list forwards only the flags its author thought of: context (ADD_SERIALIZATION_CONTEXT) or a later flag "
                                  "is dropped on that path, so hooks of nested instances see context=None", loc=_loc(fi, c))
    rep.floor(rule, 3)


def default_dialect_is_default(repo: Repo, rep: Report, rule: str) -> None:
    """Whatever is passed as `default_dialect=` to a CodeBuilder (a real call or an emitted one) is the default dialect
    of the compilation in progress, never the dialect of the call in progress: the method compiled there is stored in
    the class's permanent slot and serves every later call without a dialect."""
    import re
    n = 0
    allowed_names = {"default_dialect", "_default_dialect"}
    for mod in (M_BUILDER, M_PACK, M_UNPACK, M_CODEC_BUILDER):
        for fi in repo.funcs.values():
            if fi.module != mod:
                continue
            for c in _own_nodes(fi.node):
                if isinstance(c, ast.Call):
                    for kw in c.keywords:
                        if kw.arg == "default_dialect":
                            n += 1
                            names = {x.attr if isinstance(x, ast.Attribute) else x.id for x in ast.walk(kw.value) if isinstance(x, (ast.Name, ast.Attribute))}
                            bad = {"dialect", "_dialect"} & names or isinstance(kw.value, (ast.BoolOp, ast.IfExp))
                            inst = f"{fi.qualname}: {ast.unparse(c.func)}(default_dialect={ast.unparse(kw.value)[:60]})"
                            if bad:
                                rep.violation(rule, fi.key, inst, "the call dialect leaks into the permanently stored method of a nested / variant class: "
                                              "later calls without a dialect behave as if the first call's dialect were the default", loc=_loc(fi, c))
                            else:
                                rep.ok(rule, inst, None)
                elif isinstance(c, (ast.JoinedStr, ast.Constant)) and not isinstance(getattr(c, "value", ""), (int, float, bytes, type(None), bool)):
                    txt = _strings(c) if isinstance(c, ast.JoinedStr) else (c.value if isinstance(c.value, str) else "")
                    for m in re.finditer(r"default_dialect=([^,)]*)", txt):
                        val = m.group(1).strip()
                        if isinstance(c, ast.JoinedStr) and val == "":
                            # hole follows: take the hole expression
                            holes = [ast.unparse(v.value) for v in c.values if isinstance(v, ast.FormattedValue)]
                            val = next((h for h in holes if "default_dialect" in h), "")
                            if not val:
                                continue
                        n += 1
                        toks = set(re.findall(r"[A-Za-z_][A-Za-z_0-9]*", val))
                        inst = f"{fi.qualname}: emits default_dialect={val[:60]}"
                        if ({"dialect", "_dialect"} & toks) or " or " in val or " if " in val:
                            rep.violation(rule, fi.key, inst, "the call dialect leaks into the permanently stored method of a nested / variant class: "
                                          "later calls without a dialect behave as if the first call's dialect were the default", loc=_loc(fi, c))
                        else:
                            rep.ok(rule, inst, None)
    rep.floor(rule, 5)


def codec_dialect_merge_order(repo: Repo, rep: Report, rule: str) -> None:
    """In the format codecs the user's default_dialect is merged *onto* the format dialect
    (`<Format>Dialect.merge(default_dialect)`: entries of the argument win), in the encoder and the decoder alike."""
    n = 0
    for fmt, mod in M_CODECS.items():
        mi = repo.modules.get(mod)
        if mi is None:
            continue
        for c in ast.walk(mi.tree):
            if isinstance(c, ast.Call) and isinstance(c.func, ast.Attribute) and c.func.attr == "merge":
                n += 1
                recv, arg = ast.unparse(c.func.value), ast.unparse(c.args[0]) if c.args else ""
                inst = f"{mod}: {recv}.merge({arg})"
                if recv.endswith("Dialect") and recv[0].isupper() and arg == "default_dialect":
                    rep.ok(rule, inst, None)
                else:
                    rep.violation(rule, f"{mod}::<codec __init__>", inst, "Dialect.merge gives precedence to its argument: the user's dialect must be the argument, "
                                  "the format dialect the receiver, in the encoder and the decoder alike; otherwise the format's pass-through entries "
                                  "override the user's strategy on one side only", loc=f"{mod.replace('.', '/')}.py:{c.lineno}")
    rep.floor(rule, 6)


def format_endpoints_agree(repo: Repo, rep: Report, rule: str) -> None:
    """For every format the codec module's _default_encoder/_default_decoder and the mixin module's
    default_encoder/default_decoder are the same call (callee and keyword arguments): the two entry points of one format."""
    n = 0
    for fmt in ("msgpack", "yaml"):
        for kind in ("encoder", "decoder"):
            a = _func(repo, M_MIXINS[fmt], f"default_{kind}")
            b = _func(repo, M_CODECS[fmt], f"_default_{kind}")
            if a is None or b is None:
                continue
            def ret(fi):
                rs = [x for x in _own_nodes(fi.node) if isinstance(x, ast.Return) and x.value is not None]
                return ast.unparse(rs[0].value) if len(rs) == 1 else None
            ra, rb = ret(a), ret(b)
            n += 1
            inst = f"{fmt} {kind}: mixin `{ra}`, codec `{rb}`"
            if ra is None or rb is None:
                rep.undecide(rule, inst)
            elif ra == rb:
                rep.ok(rule, inst, None)
            else:
                rep.violation(rule, b.key, inst, "the mixin and the codec of one format must parse / render with the same parameters; "
                              "otherwise from_<fmt> and the Decoder disagree on the same bytes (e.g. integer map keys)", loc=b.loc)
    rep.floor(rule, 4)


NATIVE_DECODED = {"msgpack": {"bytes"}, "toml": {"datetime", "date", "time"}}


def format_dialect_tables(repo: Repo, rep: Report, rule: str) -> None:
    """A whole-entry `T: pass_through` in a format dialect's serialization_strategy means the format's own decoder
    already returns a T.  That is so for bytes (msgpack bin) and date/time/datetime (TOML); any other type needs a
    `deserialize` that builds T (msgpack returns bytes for a bytearray), and a dict entry's `deserialize` for T is T
    itself or a callable named after it."""
    n = 0
    for fmt, mod in M_MIXINS.items():
        mi = repo.modules.get(mod)
        if mi is None:
            continue
        for cls in mi.tree.body:
            if not (isinstance(cls, ast.ClassDef) and cls.name.endswith("Dialect")):
                continue
            for st in cls.body:
                if isinstance(st, ast.Assign) and ast.unparse(st.targets[0]) == "serialization_strategy" and isinstance(st.value, ast.Dict):
                    for k, v in zip(st.value.keys, st.value.values):
                        t = ast.unparse(k)
                        n += 1
                        inst = f"{cls.name}.serialization_strategy[{t}] = {ast.unparse(v)[:60]}"
                        if isinstance(v, ast.Name) and v.id == "pass_through":
                            if t in NATIVE_DECODED.get(fmt, set()):
                                rep.ok(rule, inst + f" ({fmt} decodes to {t} natively)", None)
                            else:
                                rep.violation(rule, f"{mod}::{cls.name}", inst, f"the {fmt} decoder does not return a {t}: with pass_through in both directions "
                                              f"a field annotated {t} is left holding the decoder's native type (bytes for a bytearray)", loc=f"{mod.replace('.', '/')}.py:{v.lineno}")
                        elif isinstance(v, ast.Dict):
                            d = {ast.literal_eval(kk): ast.unparse(vv) for kk, vv in zip(v.keys, v.values)}
                            if "deserialize" in d and d["deserialize"] == "pass_through" and t not in NATIVE_DECODED.get(fmt, set()):
                                rep.violation(rule, f"{mod}::{cls.name}", inst, f"the {fmt} decoder does not return a {t}", loc=f"{mod.replace('.', '/')}.py:{v.lineno}")
                            else:
                                rep.ok(rule, inst, None)
                        else:
                            rep.undecide(rule, inst)
    rep.floor(rule, 6)


# ------------------------------------------------------------------------------------------------ batch 2
SHARED_OPTIONS = {"serialize_by_alias", "omit_none", "omit_default", "namedtuple_as_dict", "no_copy_collections"}


def _parents(fn: ast.AST):
    par = {}
    for n in ast.walk(fn):
        for c in ast.iter_child_nodes(n):
            par[c] = n
    return par


def shared_options_read_through_chain(repo: Repo, rep: Report, rule: str) -> None:
    """Options that both Dialect and BaseConfig declare (serialize_by_alias, omit_none, omit_default,
    namedtuple_as_dict, no_copy_collections) are read by the generators through get_dialect_or_config_option only,
    which walks call dialect -> Config.dialect -> Config -> default dialect.  A direct attribute read on self.dialect /
    get_config() skips part of the chain (Config.dialect, the format's default dialect)."""
    n = 0
    for mod in (M_BUILDER, M_PACK, M_UNPACK, M_CODEC_BUILDER):
        for fi in repo.funcs.values():
            if fi.module != mod:
                continue
            name = fi.qualname.split(".")[-1]
            for c in _own_nodes(fi.node):
                opt = None
                if isinstance(c, ast.Attribute) and c.attr in SHARED_OPTIONS and isinstance(c.ctx, ast.Load):
                    recv = ast.unparse(c.value)
                    if recv in ("spec",):
                        continue  # ValueSpec.no_copy_collections: the value already resolved by the caller
                    opt, how = c.attr, f"{recv}.{c.attr}"
                elif isinstance(c, ast.Call) and isinstance(c.func, ast.Name) and c.func.id == "getattr" and len(c.args) >= 2 \
                        and isinstance(c.args[1], ast.Constant) and c.args[1].value in SHARED_OPTIONS:
                    opt, how = c.args[1].value, ast.unparse(c)[:70]
                elif isinstance(c, ast.Call) and isinstance(c.func, ast.Attribute) and c.func.attr in ("get_dialect_or_config_option", "get_owner_dialect_or_config_option") \
                        and c.args and isinstance(c.args[0], ast.Constant) and c.args[0].value in SHARED_OPTIONS:
                    n += 1
                    recv = ast.unparse(c.func.value)
                    inst = f"{fi.qualname}: {c.args[0].value} through {recv}.{c.func.attr}"
                    if recv in ("self", "spec.builder", "self.parent", "builder", "self._self_builder", "self.__owner_builder"):
                        rep.ok(rule, inst, None)
                    else:
                        rep.undecide(rule, inst + " (unrecognised receiver)")
                    continue
                if opt is None:
                    continue
                n += 1
                inst = f"{fi.qualname}: reads {how}"
                if name in ("get_dialect_or_config_option", "get_owner_dialect_or_config_option"):
                    rep.ok(rule, inst + " (the chain itself)", None)
                else:
                    rep.violation(rule, fi.key, inst + " directly", f"`{opt}` is declared by Dialect and by BaseConfig and is resolved along the chain call dialect -> "
                                  "Config.dialect -> Config -> default dialect; a direct read skips Config.dialect / the default dialect, so to_dict and from_dict "
                                  "(which use the chain) disagree about keys", loc=_loc(fi, c))
    rep.floor(rule, 6)


def short_names_not_identifiers(repo: Repo, rep: Report, rule: str) -> None:
    """type_name(..., short=True) drops the module: it is used for messages only (exceptions, error text), never for a
    name bound in the generated namespace, where two classes of the same name from different modules would collide."""
    n = 0
    for fi in repo.funcs.values():
        if not fi.module.startswith("mashumaro"):
            continue
        par = None
        for c in _own_nodes(fi.node):
            if isinstance(c, ast.Call) and ast.unparse(c.func).endswith("type_name") and any(k.arg == "short" and isinstance(k.value, ast.Constant) and k.value.value is True for k in c.keywords):
                n += 1
                inst = f"{fi.qualname}: {ast.unparse(c)[:70]}"
                if fi.module == "mashumaro.exceptions":
                    rep.ok(rule, inst + " (exception text)", None)
                    continue
                par = par or _parents(fi.node)
                p, msg = c, False
                sink = None
                while p in par:
                    p = par[p]
                    if isinstance(p, ast.Call) and ast.unparse(p.func) in ("clean_id", "spec.builder.ensure_object_imported", "self.ensure_object_imported"):
                        sink = ast.unparse(p.func)
                        break
                    if isinstance(p, ast.Raise):
                        msg = True
                        break
                    if isinstance(p, ast.Assign):
                        sink = "assigned to " + ast.unparse(p.targets[0])
                        break
                if msg:
                    rep.ok(rule, inst + " (raise message)", None)
                else:
                    rep.violation(rule, fi.key, inst + f" flows into {sink or 'generated code'}", "a short type name identifies a class only within its module; used as a bound name "
                                  "(ensure_object_imported binds with setdefault) the second same-named class silently gets the first one's method", loc=_loc(fi, c))
    rep.floor(rule, 5)


def _disjunct_kinds(expr: ast.AST) -> Set[str]:
    kinds = set()
    vals = expr.values if isinstance(expr, ast.BoolOp) and isinstance(expr.op, ast.Or) else [expr]
    for v in vals:
        t = ast.unparse(v)
        if "is_type_var_any(" in t:
            kinds.add("type_var_any")
        elif "is_optional(" in t:
            kinds.add("optional")
        elif " in (" in t and "Any" in t and "None" in t:
            kinds.add("any_or_none:" + t.split(" in ")[0].strip())
        elif t.endswith("is None"):
            kinds.add("default_is_none")
        else:
            kinds.add("other:" + t[:40])
    return kinds


def nullability_sites_agree(repo: Repo, rep: Report, rule: str) -> None:
    """The four places that decide `could_be_none` (field packer, field unpacker, codec encode, codec decode) use the
    same disjuncts: the annotated type is Any/None, the resolved type is an unconstrained TypeVar, the type is Optional
    (+ the default is None for fields).  Pack and unpack must agree, or omit_none / the None guard differ by direction."""
    sites = {}
    for mod in (M_BUILDER, M_CODEC_BUILDER):
        for fi in repo.funcs.values():
            if fi.module != mod:
                continue
            for st in _own_nodes(fi.node):
                if isinstance(st, ast.Assign) and isinstance(st.value, ast.BoolOp) and isinstance(st.value.op, ast.Or) and "is_optional(" in ast.unparse(st.value):
                    sites[fi.qualname] = (fi, st, _disjunct_kinds(st.value))
    if len(sites) < 4:
        raise AnalysisError(f"only {len(sites)} could_be_none decisions found")
    need = {"type_var_any", "optional"}
    for qn, (fi, st, kinds) in sites.items():
        k2 = {k.split(":")[0] for k in kinds}
        subj = [k.split(":", 1)[1] for k in kinds if k.startswith("any_or_none:")]
        inst = f"{qn}: could_be_none = {sorted(k2)}" + (f" on `{subj[0]}`" if subj else "")
        bad = None
        if not need <= k2 or "any_or_none" not in k2:
            bad = f"misses {sorted((need | {'any_or_none'}) - k2)}"
        elif any(k.startswith("other") for k in k2):
            rep.undecide(rule, inst)
            continue
        elif subj and subj[0] not in ("ftype", "shape_type"):
            bad = f"tests `{subj[0]}` instead of the annotated type for Any / None"
        if bad:
            rep.violation(rule, fi.key, inst + " -- " + bad, "a position typed with a bare TypeVar (or Any, None, Optional) may hold None: without that disjunct the value is packed "
                          "through `self.<field>` with no None guard and omit_none never drops it; the four decision sites must agree", loc=_loc(fi, st))
        else:
            rep.ok(rule, inst, None)
    rep.floor(rule, 4)


def element_positions_nullable(repo: Repo, rep: Report, rule: str) -> None:
    """In the registries (pack.py / unpack.py) `could_be_none=False` is never written (only the field-level callers
    know that), a wrapper that merely unwraps a type (Final, Annotated, NewType, Required...) copies the spec without
    touching could_be_none, and the number of `could_be_none=True` element copies of a pack_X / unpack_X pair agree."""
    per_func = {}
    for mod in (M_PACK, M_UNPACK):
        for fi in repo.funcs.values():
            if fi.module != mod:
                continue
            cnt = 0
            for c in _own_nodes(fi.node):
                if isinstance(c, ast.keyword) and c.arg == "could_be_none":
                    if isinstance(c.value, ast.Constant) and c.value.value is True:
                        cnt += 1
                    else:
                        rep.violation(rule, fi.key, f"{fi.qualname}: could_be_none={ast.unparse(c.value)[:40]}",
                                      "inside the registries a derived position is either judged afresh (could_be_none=True) or inherits the caller's verdict; "
                                      "forcing False removes the None guard of Optional members below (Final[Optional[X]] = null is rejected)", loc=_loc(fi, c.value))
            per_func[(mod, fi.qualname)] = (cnt, fi)
    pairs = 0
    for (mod, qn), (cnt, fi) in per_func.items():
        if mod != M_PACK or not qn.startswith("pack_"):
            continue
        twin = per_func.get((M_UNPACK, "un" + qn))
        if twin is None:
            continue
        pairs += 1
        inst = f"{qn}: {cnt} element position(s) judged afresh; un{qn}: {twin[0]}"
        if cnt == twin[0]:
            rep.ok(rule, inst, None)
        else:
            low = fi if cnt < twin[0] else twin[1]
            rep.violation(rule, low.key, inst, "the packer and the unpacker of one container type visit the same element positions; a position that loses could_be_none=True "
                          "inherits the enclosing field's verdict, so Optional elements lose their None guard exactly when the field itself is Optional", loc=low.loc)
    if pairs < 4:
        raise AnalysisError(f"only {pairs} pack_X / unpack_X pairs found")
    rep.floor(rule, 4)


NUMERIC_KEYWORDS = {"minContains", "maxContains", "minItems", "maxItems", "minLength", "maxLength", "minimum", "maximum", "exclusiveMinimum",
                    "exclusiveMaximum", "multipleOf", "minProperties", "maxProperties"}


def numeric_keywords_not_truthy(repo: Repo, rep: Report, rule: str) -> None:
    """Numeric JSON Schema keywords (minContains, minItems, minimum, ...) are set from annotation values under an
    `is not None` test, never through truthiness (`x or None`, `if x:`): 0 is a meaningful value (minContains 0)."""
    n = 0
    for fi in repo.funcs.values():
        if fi.module != M_SCHEMA:
            continue
        par = None
        for st in _own_nodes(fi.node):
            if isinstance(st, ast.Assign) and isinstance(st.targets[0], ast.Attribute) and st.targets[0].attr in NUMERIC_KEYWORDS:
                n += 1
                inst = f"{fi.qualname}: {ast.unparse(st)[:70]}"
                bad = any(isinstance(x, ast.BoolOp) for x in ast.walk(st.value))
                par = par or _parents(fi.node)
                p = st
                while p in par and not bad:
                    q = par[p]
                    if isinstance(q, ast.If) and p in q.body and isinstance(q.test, (ast.Name, ast.Attribute)) \
                            and ast.unparse(q.test) in {ast.unparse(x) for x in ast.walk(st.value) if isinstance(x, (ast.Name, ast.Attribute))}:
                        bad = True
                    p = q
                if bad:
                    rep.violation(rule, fi.key, inst + " decided by truthiness", "an explicit 0 (MinContains(0), MinItems(0), Minimum(0)) is dropped from the schema; for minContains the "
                                  "validator's default is 1, so a conforming array without a matching item is rejected", loc=_loc(fi, st))
                else:
                    rep.ok(rule, inst, None)
    rep.floor(rule, 6)


def own_config_only_sites(repo: Repo, rep: Report, rule: str) -> None:
    """`look_in_parents=False` (ask the class's own Config only) is passed to get_config by get_discriminator only;
    every other consumer sees the inherited Config, as the serializer does."""
    n = 0
    for fi in repo.funcs.values():
        if not fi.module.startswith("mashumaro"):
            continue
        for c in _own_nodes(fi.node):
            if isinstance(c, ast.Call) and ast.unparse(c.func).endswith("get_config") and any(k.arg == "look_in_parents" and isinstance(k.value, ast.Constant) and k.value.value is False for k in c.keywords):
                n += 1
                inst = f"{fi.qualname}: {ast.unparse(c)[:60]}"
                if fi.qualname == "CodeBuilder.get_discriminator":
                    rep.ok(rule, inst, None)
                else:
                    rep.violation(rule, fi.key, inst, "a class without a Config of its own inherits its parent's (aliases, serialize_by_alias, code generation options): "
                                  "a consumer that asks for the own Config only disagrees with the serializer for such classes", loc=_loc(fi, c))
    rep.floor(rule, 1)


def optional_member_selection(repo: Repo, rep: Report, rule: str) -> None:
    """Where a registry function handles `is_optional(spec.type, ...)`, the non-None member is selected with
    not_none_type_arg(get_args(...), resolved params) -- Union[None, X] and `None | X` keep None first."""
    n = 0
    for mod in (M_PACK, M_UNPACK):
        for fi in repo.funcs.values():
            if fi.module != mod:
                continue
            for st in _own_nodes(fi.node):
                if isinstance(st, ast.If) and "is_optional(" in ast.unparse(st.test):
                    n += 1
                    body = "\n".join(ast.unparse(b) for b in st.body)
                    inst = f"{fi.qualname}: Optional branch"
                    idx = [x for b in st.body for x in ast.walk(b) if isinstance(x, ast.Subscript) and "get_args(" in ast.unparse(x.value) and isinstance(x.slice, ast.Constant)]
                    if "not_none_type_arg(" in body and not idx:
                        rep.ok(rule, inst + " selects the member with not_none_type_arg", None)
                    else:
                        rep.violation(rule, fi.key, inst + (f" selects the member by position `{ast.unparse(idx[0])}`" if idx else " does not use not_none_type_arg"),
                                      "Optional[X] is Union[X, None] only when written that way: Union[None, X] and None | X keep NoneType first, so the positional choice "
                                      "packs X values with the NoneType packer (the raw object is emitted)", loc=_loc(fi, st))
    rep.floor(rule, 2)


def omit_default_comparison(repo: Repo, rep: Report, rule: str) -> None:
    """The omit_default guard compares the value with the default (`value != <default>`, or the NaN form); it is never a
    truthiness test (falsy non-default values 0, '', False would be dropped)."""
    n = 0
    for fi in repo.funcs.values():
        if fi.module != M_BUILDER:
            continue
        for st in _own_nodes(fi.node):
            if isinstance(st, ast.Assign) and ast.unparse(st.targets[0]) == "comp_expr":
                n += 1
                txt = _strings(st.value)
                inst = f"{fi.qualname}: comp_expr = {ast.unparse(st.value)[:60]}"
                if "!=" in txt or "is not" in txt or "isnan(" in txt:
                    rep.ok(rule, inst, None)
                else:
                    rep.violation(rule, fi.key, inst, "omit_default drops a key only when the value equals the default; a truthiness test also drops 0, '', False, 0.0 "
                                  "for a field whose default is an empty container", loc=_loc(fi, st))
    rep.floor(rule, 2)


def plain_config_copied_whole(repo: Repo, rep: Report, rule: str) -> None:
    """A plain `class Config:` (not a BaseConfig subclass) is lifted to a BaseConfig subclass carrying *all* its
    attributes: the namespace passed to type(...) unpacks config_cls.__dict__ unfiltered."""
    fi = repo.func(M_BUILDER, "CodeBuilder.get_config")
    hits = [c for c in _own_nodes(fi.node) if isinstance(c, ast.Call) and isinstance(c.func, ast.Name) and c.func.id == "type" and len(c.args) == 3]
    if not hits:
        raise AnalysisError("get_config no longer lifts a plain Config with type(...)")
    for c in hits:
        ns = c.args[2]
        inst = f"get_config: type('Config', ..., {ast.unparse(ns)[:70]})"
        whole = isinstance(ns, ast.Dict) and any(k is None and isinstance(v, ast.Attribute) and v.attr == "__dict__" and ast.unparse(v.value) != "BaseConfig"
                                                 for k, v in zip(ns.keys, ns.values))
        filtered = any(isinstance(x, (ast.DictComp, ast.GeneratorExp, ast.ListComp)) and any(g.ifs for g in x.generators) for x in ast.walk(ns))
        if whole and not filtered:
            rep.ok(rule, inst, None)
        elif filtered:
            rep.violation(rule, fi.key, inst + " filters the plain Config's attributes", "an option missing from the filter silently keeps its BaseConfig default "
                          "for plain `class Config:` declarations only (allow_deserialization_not_by_alias, ...)", loc=_loc(fi, c))
        else:
            rep.undecide(rule, inst)
    rep.floor(rule, 1)


def emitted_tuple_displays(repo: Repo, rep: Report, rule: str) -> None:
    """A generated membership test `in (<joined items>)` is emitted only under a `len(items) > 1` test (or with a
    trailing comma): with one item the parentheses are not a tuple (`x in ('abc')` is a substring test)."""
    import re
    n = 0
    for mod in (M_PACK, M_UNPACK, M_BUILDER):
        for fi in repo.funcs.values():
            if fi.module != mod:
                continue
            par = None
            for c in _own_nodes(fi.node):
                if not isinstance(c, ast.JoinedStr):
                    continue
                for i, v in enumerate(c.values[:-1]):
                    if isinstance(v, ast.Constant) and isinstance(v.value, str) and re.search(r"\bin \($", v.value) and isinstance(c.values[i + 1], ast.FormattedValue):
                        after = c.values[i + 2].value if i + 2 < len(c.values) and isinstance(c.values[i + 2], ast.Constant) else ""
                        hole = c.values[i + 1].value
                        joined = "join(" in ast.unparse(hole)
                        if isinstance(hole, ast.Name):
                            joined = any(isinstance(s, ast.Assign) and ast.unparse(s.targets[0]) == hole.id and "join(" in ast.unparse(s.value) for s in _own_nodes(fi.node))
                        if not joined:
                            continue
                        n += 1
                        inst = f"{fi.qualname}: emits `in ({{{ast.unparse(hole)[:40]}}}{after[:3]}`"
                        par = par or _parents(fi.node)
                        p, guarded = c, after.startswith(",")
                        while p in par and not guarded:
                            q = par[p]
                            if isinstance(q, ast.If) and re.search(r"len\(.+\) (>|>=) [12]", ast.unparse(q.test)) and any(p is b or p in ast.walk(b) for b in q.body):
                                guarded = True
                            p = q
                        if guarded:
                            rep.ok(rule, inst + " under a len(...) > 1 test", None)
                        else:
                            rep.violation(rule, fi.key, inst + " for any number of items", "with a single item `(x)` is not a tuple: a str item turns the membership test into a "
                                          "substring test ('' and 'ab' pass for Literal['abc']), a class item raises TypeError", loc=_loc(fi, c))
    rep.floor(rule, 1)


# ------------------------------------------------------------------------------------------------ batch 3
def speculative_variant_calls_guarded(repo: Repo, rep: Report, rule: str) -> None:
    """Without a discriminator field every variant is *tried*: each emitted `return <variant>.<from_dict call>` of
    DiscriminatedUnionUnpackerBuilder that belongs to the no-field mode sits inside an emitted `try:` whose handler
    skips to the next variant -- including the retry emitted after compiling a variant on demand, which runs inside an
    `except AttributeError:` handler where the loop's own `except Exception: pass` does not apply."""
    n = 0
    for qn in ("DiscriminatedUnionUnpackerBuilder._add_body", "DiscriminatedUnionUnpackerBuilder._add_build_variant_unpacker"):
        fi = repo.func(M_UNPACK, qn)
        par = _parents(fi.node)
        for c in _own_nodes(fi.node):
            if not (isinstance(c, ast.Call) and ast.unparse(c.func) == "lines.append" and c.args and isinstance(c.args[0], ast.JoinedStr)):
                continue
            vals = c.args[0].values
            # `return <receiver>.{call text}`: the f-string ends with a hole holding the call, right after a dot
            if not (_strings(c.args[0]).startswith("return ") and len(vals) >= 2 and isinstance(vals[-1], ast.FormattedValue)
                    and isinstance(vals[-1].value, ast.Name) and isinstance(vals[-2], ast.Constant) and str(vals[-2].value).endswith(".")):
                continue
            # no-field context?
            p, nofield, tried = c, False, False
            while p in par:
                q = par[p]
                if isinstance(q, ast.With) and any(ast.unparse(it.context_expr) in ("lines.indent('try:')",) for it in q.items) and not nofield:
                    tried = True
                if isinstance(q, ast.If) and "discriminator.field" in ast.unparse(q.test):
                    neg = isinstance(q.test, ast.UnaryOp) and isinstance(q.test.op, ast.Not)
                    in_body = any(p is b for b in q.body)
                    if (neg and in_body) or (not neg and not in_body):
                        nofield = True
                        break
                p = q
            if not nofield:
                continue
            n += 1
            inst = f"{qn.split('.')[-1]}: no-field mode emits `{_strings(c.args[0])[:40]}...`"
            if tried:
                rep.ok(rule, inst + " inside try:", None)
            else:
                rep.violation(rule, fi.key, inst + " outside any try:", "in no-field mode a variant that rejects the input must be skipped; the retry after an on-demand compilation runs "
                              "inside the `except AttributeError` handler, so an unguarded call lets the first non-matching variant's error escape (first call only)", loc=_loc(fi, c))
    rep.floor(rule, 3)


def _single_compare(fi: FuncInfo, test: ast.AST, a: str, b: str) -> Optional[bool]:
    if isinstance(test, ast.Compare) and len(test.ops) == 1 and isinstance(test.ops[0], (ast.Is, ast.Eq)):
        l, r = ast.unparse(test.left), ast.unparse(test.comparators[0])
        return {l, r} == {a, b}
    return False


def identity_guards(repo: Repo, rep: Report, rule_union: str, rule_schema: str, rule_fwd: str, only: Optional[Set[str]] = None) -> None:
    """Three guards whose operands matter:
    (union) UnionUnpackerBuilder._get_existing_method reuses the method under construction only when the owner *is* the
    type being unpacked (`spec.owner is spec.type`) -- any other union nested below must get its own method;
    (schema) on_type_with_overridden_serialization stops when the override returns `instance.type`, the attribute that
    update_type replaces (the fixpoint of the re-entry);
    (forward refs) Instance.derive resolves a ForwardRef in the globals of `self.type`, the type that carries the annotation."""
    if only is None or rule_union in only:
        fi = repo.func(M_UNPACK, "UnionUnpackerBuilder._get_existing_method")
        ifs = [st for st in fi.node.body if isinstance(st, ast.If)]
        if len(ifs) != 1:
            rep.undecide(rule_union, "_get_existing_method is no longer a single guarded return")
        else:
            ok = _single_compare(fi, ifs[0].test, "spec.owner", "spec.type")
            inst = f"_get_existing_method: reuse guarded by `{ast.unparse(ifs[0].test)}`"
            if ok:
                rep.ok(rule_union, inst, None)
            else:
                rep.violation(rule_union, fi.key, inst, "the method under construction belongs to one union; a different union nested inside one of its members (List[Union[float, date]] "
                              "inside Union[int, List[...]]) must not be decoded by it: values are coerced by the outer members", loc=_loc(fi, ifs[0]))
    if only is None or rule_schema in only:
        fi = repo.func(M_SCHEMA, "on_type_with_overridden_serialization")
        cmps = [st for st in _own_nodes(fi.node) if isinstance(st, ast.If) and "new_type" in ast.unparse(st.test)]
        if len(cmps) != 1:
            rep.undecide(rule_schema, "on_type_with_overridden_serialization: the re-entry guard was not found")
        else:
            ok = _single_compare(fi, cmps[0].test, "new_type", "instance.type")
            inst = f"on_type_with_overridden_serialization: re-entry stops when `{ast.unparse(cmps[0].test)}`"
            if ok:
                rep.ok(rule_schema, inst, None)
            else:
                rep.violation(rule_schema, fi.key, inst, "get_schema is re-entered after update_type(new_type) replaced instance.type; the recursion ends only when the override returns "
                              "that same attribute -- compared with anything else (the Annotated original) a strategy returning its own type recurses without bound", loc=_loc(fi, cmps[0]))
    if only is None or rule_fwd in only:
        fi = repo.func(M_SCHEMA, "Instance.derive")
        calls = [c for c in _own_nodes(fi.node) if isinstance(c, ast.Call) and ast.unparse(c.func) == "get_forward_ref_referencing_globals"]
        if len(calls) != 1 or len(calls[0].args) < 2:
            rep.undecide(rule_fwd, "Instance.derive: forward-reference resolution was not found")
        else:
            arg = ast.unparse(calls[0].args[1])
            inst = f"Instance.derive: forward references are resolved in the globals of `{arg}`"
            if arg == "self.type":
                rep.ok(rule_fwd, inst, None)
            else:
                rep.violation(rule_fwd, fi.key, inst, "a string annotation names something in the module of the type that carries it (the NamedTuple / TypedDict / dataclass being "
                              "walked), not in the module of the dataclass that uses that type as a field: build_json_schema raises NameError across modules", loc=_loc(fi, calls[0]))


def no_memo_across_literal_values(repo: Repo, rep: Report, rule: str) -> None:
    """In the Literal packer / unpacker each literal value is rendered from its own type: no name computed from the loop
    variable is memoised across iterations (`if name is None: name = f(type(value))`) -- a Literal may mix members of
    several Enum classes."""
    n = 0
    for mod, qn in ((M_PACK, "pack_literal"), (M_UNPACK, "LiteralUnpackerBuilder._add_body")):
        fi = repo.func(mod, qn)
        for loop in [x for x in _own_nodes(fi.node) if isinstance(x, ast.For)]:
            n += 1
            lv = {t.id for t in ast.walk(loop.target) if isinstance(t, ast.Name)}
            bad = None
            for st in ast.walk(loop):
                if isinstance(st, ast.If) and isinstance(st.test, ast.Compare) and len(st.test.ops) == 1 and isinstance(st.test.ops[0], ast.Is) \
                        and isinstance(st.test.comparators[0], ast.Constant) and st.test.comparators[0].value is None and isinstance(st.test.left, ast.Name):
                    nm = st.test.left.id
                    for b in st.body:
                        if isinstance(b, ast.Assign) and ast.unparse(b.targets[0]) == nm and lv & {x.id for x in ast.walk(b.value) if isinstance(x, ast.Name)}:
                            bad = (nm, st)
            inst = f"{qn}: loop over `{ast.unparse(loop.iter)[:40]}`"
            if bad:
                rep.violation(rule, fi.key, inst + f" memoises `{bad[0]}` from the first value", "the name rendered for the first enum member is reused for members of another Enum class: "
                              "the generated code compares with Color.CALM for Mood.CALM (AttributeError, or a wrong member accepted)", loc=_loc(fi, bad[1]))
            else:
                rep.ok(rule, inst + " renders every value from its own type", None)
    rep.floor(rule, 2)


def codec_binds_from_attrs(repo: Repo, rep: Report, rule: str) -> None:
    """pack_dataclass / unpack_dataclass bind a nested dataclass method into generated code only from the builder's own
    holder (`getattr(spec.attrs, method_name)`): a method found on the class itself was compiled for the class's mixin
    configuration, not for this codec's default dialect."""
    n = 0
    for mod, qn in ((M_PACK, "pack_dataclass"), (M_UNPACK, "unpack_dataclass")):
        fi = repo.func(mod, qn)
        for c in _own_nodes(fi.node):
            if isinstance(c, ast.Call) and ast.unparse(c.func).endswith("ensure_object_imported") and len(c.args) == 2 and "method_name" in ast.unparse(c.args[1]):
                n += 1
                src = ast.unparse(c.args[0])
                inst = f"{qn}: binds `{src[:60]}`"
                if src == "getattr(spec.attrs, method_name)":
                    rep.ok(rule, inst, None)
                else:
                    rep.violation(rule, fi.key, inst, "a codec compiles nested dataclasses with its own default dialect into its own holder; binding the class's own compiled method "
                                  "instead makes the codec ignore its dialect level for dataclasses that also inherit a mixin", loc=_loc(fi, c))
    rep.floor(rule, 2)
