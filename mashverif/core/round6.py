"""Repository-specific shape rules added in the sixth round.

Every rule decides a structural necessary condition named in its docstring, has a vacuity floor and reports
file:line of the offending construct.  Pure ``ast`` rules over the current tree.
"""

from __future__ import annotations

import ast
from typing import List, Optional, Set

from .report import Report
from .round5 import _loc, _own_nodes
from .srcmodel import AnalysisError, M_BUILDER, M_CODEC_BUILDER, M_COMMON, M_HELPERS, FuncInfo, Repo

UNWRAP_FORMS = ("get_type_origin({p})", "{p}.__origin__", "get_args({p})[0]", "typing.get_args({p})[0]")


def _registry_get_unwraps(repo: Repo) -> Optional[ast.If]:
    fi = repo.func(M_COMMON, "Registry.get")
    for n in _own_nodes(fi.node):
        if isinstance(n, ast.If) and "is_annotated(spec.type)" in ast.unparse(n.test):
            for st in n.body:
                if isinstance(st, ast.Assign) and ast.unparse(st.targets[0]) == "spec.type" and "spec.type" in ast.unparse(st.value):
                    return n
    return None


def _predicate_unwraps(fi: FuncInfo) -> Optional[bool]:
    """True: every path to the union test first replaces an Annotated parameter by its origin; False: the parameter
    reaches the union test as given; None: a form this rule does not recognise."""
    if not fi.node.args.args:
        return None
    p = fi.node.args.args[0].arg
    forms = {f.format(p=p) for f in UNWRAP_FORMS}
    union_line = min((n.lineno for n in _own_nodes(fi.node) if isinstance(n, ast.Call) and ast.unparse(n.func) in ("is_union", "get_args")
                      and n.args and ast.unparse(n.args[0]) == p), default=None)
    if union_line is None:
        return None
    mentions = [n for n in _own_nodes(fi.node) if isinstance(n, ast.Call) and ast.unparse(n.func) == "is_annotated"]
    if not mentions:
        return False
    for st in fi.node.body:
        if st.lineno >= union_line:
            break
        if isinstance(st, ast.If) and ast.unparse(st.test) == f"is_annotated({p})" and not st.orelse:
            for b in st.body:
                if isinstance(b, ast.Assign) and len(b.targets) == 1 and ast.unparse(b.targets[0]) == p and ast.unparse(b.value) in forms:
                    return True
                if isinstance(b, ast.Return) and isinstance(b.value, ast.Call) and ast.unparse(b.value.func) == fi.node.name \
                        and b.value.args and ast.unparse(b.value.args[0]) in forms:
                    return True
        if isinstance(st, ast.While) and ast.unparse(st.test) == f"is_annotated({p})":
            for b in st.body:
                if isinstance(b, ast.Assign) and ast.unparse(b.targets[0]) == p and ast.unparse(b.value) in forms:
                    return True
    return None


def nullability_through_annotated(repo: Repo, rep: Report, rule: str) -> None:
    """The None guard of a field / codec root is decided by the *caller* of the registries (`could_be_none = ... or
    is_optional(<type>, ...)`), on the type as annotated, whereas Registry.get strips `Annotated[...]` before it
    dispatches.  Both must see the same type: either is_optional replaces an Annotated argument by its origin before the
    union test, or the call site passes an unwrapped type.  Otherwise `Annotated[Optional[X], m]` dispatches to X's
    converter with no `is not None` guard: a declared-legal None raises AttributeError / ValueError (round trip, documented
    exceptions, schema default rendering)."""
    if _registry_get_unwraps(repo) is None:
        rep.undecide(rule, "Registry.get no longer strips Annotated before dispatch: the premise of this rule is gone")
        return
    pred = repo.func(M_HELPERS, "is_optional")
    unwraps = _predicate_unwraps(pred)
    sites: List = []
    for mod in (M_BUILDER, M_CODEC_BUILDER):
        for fi in repo.funcs.values():
            if fi.module != mod:
                continue
            for n in _own_nodes(fi.node):
                if isinstance(n, (ast.Assign, ast.AnnAssign)) and n.value is not None:
                    tgt = n.targets[0] if isinstance(n, ast.Assign) else n.target
                    if ast.unparse(tgt) != "could_be_none":
                        continue
                    for c in ast.walk(n.value):
                        if isinstance(c, ast.Call) and ast.unparse(c.func) == "is_optional" and c.args:
                            sites.append((fi, c))
    for fi, c in sites:
        arg = ast.unparse(c.args[0])
        inst = f"{fi.qualname}: could_be_none consults is_optional({arg}, ...)"
        local_unwrap = any(isinstance(n, ast.Assign) and ast.unparse(n.targets[0]) == arg and "is_annotated" in ast.unparse(fi.node)
                           and ast.unparse(n.value) in {f.format(p=arg) for f in UNWRAP_FORMS} and n.lineno < c.lineno for n in _own_nodes(fi.node))
        if unwraps is True or local_unwrap:
            rep.ok(rule, inst + (" -- is_optional strips Annotated first" if unwraps else " -- unwrapped at the call site"), None)
        elif unwraps is False:
            rep.violation(rule, pred.key, inst + "; is_optional tests the argument as given",
                          "Registry.get strips Annotated[...] before dispatch but the nullability of the position is decided on the annotated type: "
                          "Annotated[Optional[X], m] gets X's converter without a None guard, so a None value raises AttributeError (to_dict / encode), "
                          "ValueError (decode) and build_json_schema fails while rendering a None default", loc=_loc(fi, c))
        else:
            rep.undecide(rule, inst + "; is_optional mentions is_annotated in a form this rule does not recognise")
    rep.floor(rule, 4)
