"""Rules over *generated* functions (parsed skeleton text of compiled buffers)."""

from __future__ import annotations

import ast
import re
from typing import Dict, Iterator, List, Optional, Set, Tuple

from .corpus import Corpus, Emitted, render_item
from .skeleton import MARK, Rendered, SkelInterp
from .srcmodel import M_EXC, Repo, Undecided

MUTATOR_METHODS = {"pop", "update", "setdefault", "clear", "popitem", "append", "extend", "insert", "remove", "sort", "reverse", "__setitem__", "__delitem__"}


def parsed_items(c: Corpus, prefix: Tuple[str, ...] = ()) -> Iterator[Tuple[Emitted, Rendered, ast.Module]]:
    seen = set()
    for it in c.items:
        if prefix and not it.scenario.startswith(prefix):
            continue
        r = render_item(it)
        if r is None or r.src in seen:
            continue
        seen.add(r.src)
        try:
            tree = ast.parse(r.src)
        except SyntaxError:
            continue  # reported by C17 R17.0
        yield it, r, tree


def exception_signatures(repo: Repo) -> Dict[str, Tuple[int, int]]:
    """class name -> (min positional args, max positional args) of its __init__ (excluding self)."""
    out: Dict[str, Tuple[int, int]] = {}
    for ci in repo.classes.values():
        if ci.module != M_EXC:
            continue
        init = None
        for c in repo.mro(ci):
            f = repo.funcs.get(f"{c.module}::{c.name}.__init__")
            if f is not None:
                init = f
                break
        if init is None:
            out[ci.name] = (0, 99)
            continue
        a = init.node.args
        n = len(a.args) - 1
        out[ci.name] = (n - len(a.defaults), 99 if a.vararg else n)
    return out


def raises_in(tree: ast.AST) -> Iterator[ast.Raise]:
    for n in ast.walk(tree):
        if isinstance(n, ast.Raise) and n.exc is not None:
            yield n


def functions_of(tree: ast.Module) -> List[ast.FunctionDef]:
    return [n for n in ast.walk(tree) if isinstance(n, ast.FunctionDef)]


def falls_through(fn: ast.FunctionDef, r: Rendered) -> Optional[str]:
    """None if every path of the generated function ends in return/raise, else a description."""
    def may_raise(text, node):
        return True  # any statement inside a try may raise: explore both outcomes

    interp = SkelInterp(may_raise=may_raise, max_runs=20000)
    runs = interp.run_body(fn.body)
    for run in runs:
        if run.outcome.kind == "fall":
            return "atoms: " + ", ".join(f"{r.describe(k)}={v}" for k, v in list(run.atoms.items())[:8])
    return None


def param_mutations(fn: ast.FunctionDef, params: Set[str]) -> List[str]:
    """Statements of a generated function that mutate one of its parameters in place."""
    out = []
    rebound = set()
    for st in ast.walk(fn):
        if isinstance(st, ast.Assign):
            for t in st.targets:
                if isinstance(t, ast.Name):
                    rebound.add(t.id)
    for st in ast.walk(fn):
        targets = []
        if isinstance(st, ast.Assign):
            targets = st.targets
        elif isinstance(st, ast.AugAssign):
            targets = [st.target]
        elif isinstance(st, ast.Delete):
            targets = st.targets
        for t in targets:
            base = t
            while isinstance(base, (ast.Subscript, ast.Attribute)):
                base = base.value
            if isinstance(t, (ast.Subscript, ast.Attribute)) and isinstance(base, ast.Name) and base.id in params:
                if base.id in rebound and base.id in ("d", "kwargs", "fields"):
                    continue  # a fresh local with the same name (d = {} in the TypedDict helper)
                out.append(ast.unparse(st))
        if isinstance(st, ast.Call) and isinstance(st.func, ast.Attribute) and st.func.attr in MUTATOR_METHODS:
            base = st.func.value
            while isinstance(base, (ast.Subscript, ast.Attribute)):
                base = base.value
            if isinstance(base, ast.Name) and base.id in params and not (base.id in rebound and base.id in ("d", "kwargs", "fields")):
                out.append(ast.unparse(st))
    return out
