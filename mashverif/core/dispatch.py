"""E6 -- dispatch-table simulation over the supported-type catalogue.

For a catalogue entry (a real *standard library* type object, never a repository object) the
registered packers / unpackers are partially evaluated in registration order, exactly as
``Registry.get`` would call them: the first one that returns an expression wins.  Guards over
stdlib classes (``issubclass(origin, Collection)``, ``origin in (...)``) are decided with the
analysing interpreter's class hierarchy; the type predicates of ``mashumaro.core.meta.helpers``
are replaced by the stdlib-only model below (trusted, listed as an assumption).  Nested
``Registry.get`` calls are resolved recursively, so the result is the complete expression
template the generator would emit for that type.
"""

from __future__ import annotations

import ast
import collections
import collections.abc
import dataclasses
import datetime
import decimal
import enum
import fractions
import ipaddress
import os
import pathlib
import re
import types
import typing
import uuid
import zoneinfo
from dataclasses import dataclass, field
from typing import Any, Callable, Dict, List, Optional, Sequence, Tuple

import typing_extensions

from .pe import Path
from .pe_exec import Evaluator
from .scen import make_eval
from .srcmodel import AnalysisError, FuncInfo, M_BUILDER, M_COMMON, M_HELPERS, M_PACK, M_UNPACK, Repo, Undecided
from .values import ClsRef, Const, Dct, Func, Hole, Lst, Obj, Py, Sym, Tmpl, Tup, V, show


# --------------------------------------------------------------------------- catalogue
from .cat_types import E as _E, F as _F, IE as _IE, IF as _IF, MyDict as _MyDict, MyList as _MyList, MyPath as _MyPath  # noqa: E402
from .cat_types import MyStr as _MyStr, NT as _NT, NTD as _NTD, SE as _SE, StrE as _StrEnum, TD as _TD, TDP as _TDP  # noqa: E402


@dataclass
class Entry:
    name: str
    type: Any
    family: str
    elem: Optional[str] = None  # element conversion kind for containers: 'trivial' | 'conv'


def catalogue(tier: str = "quick") -> List[Entry]:
    D = datetime
    out = [
        Entry("int", int, "int"), Entry("float", float, "float"), Entry("bool", bool, "bool"), Entry("str", str, "str"),
        Entry("NoneType", type(None), "none"), Entry("str subclass", _MyStr, "str"),
        Entry("datetime", D.datetime, "datetime"), Entry("date", D.date, "date"), Entry("time", D.time, "time"),
        Entry("timedelta", D.timedelta, "timedelta"), Entry("timezone", D.timezone, "timezone"),
        Entry("ZoneInfo", zoneinfo.ZoneInfo, "zoneinfo"), Entry("UUID", uuid.UUID, "uuid"),
        Entry("Decimal", decimal.Decimal, "decimal"), Entry("Fraction", fractions.Fraction, "fraction"),
        Entry("IPv4Address", ipaddress.IPv4Address, "ip"), Entry("IPv6Address", ipaddress.IPv6Address, "ip"),
        Entry("IPv4Network", ipaddress.IPv4Network, "ip"), Entry("IPv6Network", ipaddress.IPv6Network, "ip"),
        Entry("IPv4Interface", ipaddress.IPv4Interface, "ip"), Entry("IPv6Interface", ipaddress.IPv6Interface, "ip"),
        Entry("bytes", bytes, "bytes"), Entry("bytearray", bytearray, "bytearray"),
        Entry("PurePath", pathlib.PurePath, "path"), Entry("Path", pathlib.Path, "path"),
        Entry("PurePosixPath", pathlib.PurePosixPath, "path"), Entry("PosixPath", pathlib.PosixPath, "path"),
        Entry("PureWindowsPath", pathlib.PureWindowsPath, "path"), Entry("path subclass", _MyPath, "path"),
        Entry("os.PathLike", os.PathLike, "pathlike"),
        Entry("re.Pattern", re.Pattern, "pattern"), Entry("typing.Pattern", typing.Pattern, "pattern"),
        Entry("Enum", _E, "enum"), Entry("IntEnum", _IE, "enum"), Entry("str-mixin Enum", _SE, "enum"),
        Entry("Flag", _F, "enum"), Entry("IntFlag", _IF, "enum"), Entry("StrEnum", _StrEnum, "enum"),
    ]
    for elem, kind in ((int, "trivial"), (D.date, "conv"), (typing.Any, "any")):
        n = getattr(elem, "__name__", "Any")
        out += [
            Entry(f"list[{n}]", list[elem], "list", kind), Entry(f"typing.List[{n}]", typing.List[elem], "list", kind),
            Entry(f"deque[{n}]", collections.deque[elem], "deque", kind), Entry(f"typing.Deque[{n}]", typing.Deque[elem], "deque", kind),
            Entry(f"set[{n}]", set[elem], "set", kind), Entry(f"typing.Set[{n}]", typing.Set[elem], "set", kind),
            Entry(f"frozenset[{n}]", frozenset[elem], "frozenset", kind), Entry(f"typing.FrozenSet[{n}]", typing.FrozenSet[elem], "frozenset", kind),
            Entry(f"abc.Set[{n}]", collections.abc.Set[elem], "set", kind), Entry(f"abc.MutableSet[{n}]", collections.abc.MutableSet[elem], "set", kind),
            Entry(f"Sequence[{n}]", typing.Sequence[elem], "sequence", kind), Entry(f"abc.Sequence[{n}]", collections.abc.Sequence[elem], "sequence", kind),
            Entry(f"MutableSequence[{n}]", typing.MutableSequence[elem], "sequence", kind),
            Entry(f"tuple[{n}, ...]", tuple[elem, ...], "vartuple", kind), Entry(f"typing.Tuple[{n}, ...]", typing.Tuple[elem, ...], "vartuple", kind),
            Entry(f"tuple[{n}, str]", tuple[elem, str], "fixtuple", kind),
            Entry(f"dict[str, {n}]", dict[str, elem], "dict", kind), Entry(f"typing.Dict[str, {n}]", typing.Dict[str, elem], "dict", kind),
            Entry(f"Mapping[str, {n}]", typing.Mapping[str, elem], "mapping", kind), Entry(f"MutableMapping[str, {n}]", typing.MutableMapping[str, elem], "mapping", kind),
            Entry(f"abc.Mapping[str, {n}]", collections.abc.Mapping[str, elem], "mapping", kind),
            Entry(f"OrderedDict[str, {n}]", collections.OrderedDict[str, elem], "ordereddict", kind), Entry(f"typing.OrderedDict[str, {n}]", typing.OrderedDict[str, elem], "ordereddict", kind),
            Entry(f"defaultdict[str, {n}]", collections.defaultdict[str, elem], "defaultdict", kind), Entry(f"typing.DefaultDict[str, {n}]", typing.DefaultDict[str, elem], "defaultdict", kind),
            Entry(f"ChainMap[str, {n}]", collections.ChainMap[str, elem], "chainmap", kind), Entry(f"typing.ChainMap[str, {n}]", typing.ChainMap[str, elem], "chainmap", kind),
            Entry(f"MappingProxyType[str, {n}]", types.MappingProxyType[str, elem], "mappingproxy", kind),
        ]
    O = typing.Optional
    out += [
        Entry("Optional[int]", O[int], "optional", "trivial"), Entry("Optional[date]", O[D.date], "optional", "conv"),
        Entry("list[Optional[date]]", list[O[D.date]], "list", "optconv"), Entry("tuple[Optional[date], ...]", tuple[O[D.date], ...], "vartuple", "optconv"),
        Entry("tuple[Optional[date], int]", tuple[O[D.date], int], "fixtuple", "optconv"), Entry("dict[str, Optional[date]]", dict[str, O[D.date]], "dict", "optconv"),
        Entry("deque[Optional[int]]", collections.deque[O[int]], "deque", "opttrivial"), Entry("set[Optional[date]]", set[O[D.date]], "set", "optconv"),
        Entry("Mapping[str, Optional[date]]", typing.Mapping[str, O[D.date]], "mapping", "optconv"),
        Entry("ChainMap[str, Optional[date]]", collections.ChainMap[str, O[D.date]], "chainmap", "optconv"),
        Entry("list[list[date]]", list[list[D.date]], "list", "nested"), Entry("dict[str, list[Optional[date]]]", dict[str, list[O[D.date]]], "dict", "nested"),
    ]
    U = typing.Unpack
    out += [
        Entry("tuple[int, *tuple[date, ...], str]", tuple[int, U[tuple[D.date, ...]], str], "unpacktuple", "conv"),
        Entry("tuple[int, *tuple[date, ...]]", tuple[int, U[tuple[D.date, ...]]], "unpacktuple", "conv"),
        Entry("tuple[*tuple[date, ...], int]", tuple[U[tuple[D.date, ...]], int], "unpacktuple", "conv"),
        Entry("tuple[*tuple[int, ...]]", tuple[U[tuple[int, ...]]], "unpacktuple", "trivial"),
        Entry("tuple[int, int, *tuple[date, ...], str, str]", tuple[int, int, U[tuple[D.date, ...]], str, str], "unpacktuple", "conv"),
    ]
    out += [
        Entry("Counter[str]", collections.Counter[str], "counter", "trivial"), Entry("typing.Counter[str]", typing.Counter[str], "counter", "trivial"),
        Entry("dict[date, int]", dict[D.date, int], "dict", "convkey"),
        Entry("list (bare)", list, "list", "any"), Entry("dict (bare)", dict, "dict", "any"), Entry("tuple (bare)", tuple, "vartuple", "any"),
        Entry("deque (bare)", collections.deque, "deque", "any"), Entry("set (bare)", set, "set", "any"), Entry("frozenset (bare)", frozenset, "frozenset", "any"),
        Entry("ChainMap (bare)", collections.ChainMap, "chainmap", "any"), Entry("OrderedDict (bare)", collections.OrderedDict, "ordereddict", "any"),
        Entry("MappingProxyType (bare)", types.MappingProxyType, "mappingproxy", "any"), Entry("Counter (bare)", collections.Counter, "counter", "any"),
        Entry("defaultdict (bare)", collections.defaultdict, "defaultdict", "any"),
        Entry("typing.List (bare)", typing.List, "list", "any"), Entry("typing.Dict (bare)", typing.Dict, "dict", "any"),
        Entry("list subclass", _MyList, "none-nongeneric"), Entry("dict subclass", _MyDict, "none-nongeneric"),
        Entry("NamedTuple", _NT, "namedtuple", "conv"), Entry("NamedTuple with defaults", _NTD, "namedtuple-defaults", "conv"),
        Entry("TypedDict", _TD, "typeddict", "conv"), Entry("TypedDict total=False", _TDP, "typeddict", "conv"),
    ]
    if tier == "thorough":
        out += _thorough_extension(out)
    return out


def _thorough_extension(base: List["Entry"]) -> List["Entry"]:
    """Every container family over richer element types (two levels deep): Optional / nested container / enum /
    NamedTuple / TypedDict / scalar-with-conversion elements, and Optional around every container family."""
    D = datetime
    O = typing.Optional
    elems = [
        (O[D.date], "Optional[date]", "optconv"), (list[D.date], "list[date]", "nested"), (dict[str, D.date], "dict[str, date]", "nested"),
        (tuple[D.date, ...], "tuple[date, ...]", "nested"), (_E, "Enum", "conv"), (uuid.UUID, "UUID", "conv"), (decimal.Decimal, "Decimal", "conv"),
        (D.datetime, "datetime", "conv"), (D.timedelta, "timedelta", "conv"), (bytes, "bytes", "conv"), (pathlib.PurePath, "PurePath", "conv"),
        (_NT, "NamedTuple", "nested"), (_TD, "TypedDict", "nested"), (O[list[O[D.date]]], "Optional[list[Optional[date]]]", "nested"),
        (frozenset[D.date], "frozenset[date]", "nested"), (str, "str", "trivial"), (float, "float", "trivial"), (bool, "bool", "trivial"),
    ]
    fams = [
        ("list", lambda e: list[e]), ("deque", lambda e: collections.deque[e]), ("Sequence", lambda e: typing.Sequence[e]),
        ("vartuple", lambda e: tuple[e, ...]), ("fixtuple", lambda e: tuple[e, int]), ("dict", lambda e: dict[str, e]), ("Mapping", lambda e: typing.Mapping[str, e]),
        ("OrderedDict", lambda e: collections.OrderedDict[str, e]), ("defaultdict", lambda e: collections.defaultdict[str, e]),
        ("ChainMap", lambda e: collections.ChainMap[str, e]), ("MappingProxyType", lambda e: types.MappingProxyType[str, e]), ("optional", lambda e: O[e]),
    ]
    hashable = {"Optional[date]", "Enum", "UUID", "Decimal", "datetime", "timedelta", "bytes", "PurePath", "str", "float", "bool", "tuple[date, ...]", "frozenset[date]", "NamedTuple"}
    fam_of = {"list": "list", "deque": "deque", "Sequence": "sequence", "vartuple": "vartuple", "fixtuple": "fixtuple", "dict": "dict", "Mapping": "mapping",
              "OrderedDict": "ordereddict", "defaultdict": "defaultdict", "ChainMap": "chainmap", "MappingProxyType": "mappingproxy", "optional": "optional"}
    have = {e.name for e in base}
    out: List[Entry] = []
    for fname, mk in fams:
        for et, en, kind in elems:
            if fname == "optional" and en.startswith("Optional"):
                continue
            name = f"{fname}<{en}>"
            if name in have:
                continue
            try:
                t = mk(et)
            except TypeError:
                continue
            out.append(Entry(name, t, fam_of[fname], kind))
    for et, en, kind in elems:
        if en in hashable:
            out.append(Entry(f"set<{en}>", set[et], "set", kind))
            out.append(Entry(f"frozenset<{en}>", frozenset[et], "frozenset", kind))
            if en not in ("float", "bool"):
                out.append(Entry(f"dict<{en}, int>", dict[et, int], "dict", "convkey"))
    return out


# --------------------------------------------------------------------------- helper predicate model (stdlib only)
def _origin(t):
    return getattr(t, "__origin__", t)


def _is_special(t):
    try:
        issubclass(t, object)
        return False
    except TypeError:
        return True


def _is_generic(t):
    try:
        if hasattr(t, "__class_getitem__"):
            return True
    except Exception:
        pass
    return isinstance(t, typing._BaseGenericAlias) or type(t) is types.GenericAlias  # type: ignore[attr-defined]


def _is_named_tuple(t):
    try:
        return issubclass(t, tuple) and hasattr(t, "_fields")
    except TypeError:
        return False


def _is_unpack(t):
    # faithful to helpers.is_unpack: only typing.Unpack[...] counts.  The starred builtin alias `*tuple[int, ...]`
    # (types.GenericAlias with __unpacked__) has origin `tuple` and is NOT recognised by the library (R02.7 / R03.7).
    return typing.get_origin(t) is typing.Unpack


def _hashable_type(t):
    # faithful to helpers.is_hashable_type: the annotation itself is tested, so a parametrised alias (list[int]) makes
    # issubclass raise and counts as hashable (typeeval.py compares this model with the helper's own body)
    try:
        return issubclass(t, collections.abc.Hashable)
    except TypeError:
        return True


def _get_args_plain(t):
    return tuple(getattr(t, "__args__", ()) or ())


def _get_args_normalising(t):
    args = _get_args_plain(t)
    if any(getattr(a, "__unpacked__", False) for a in args):
        args = tuple(typing.Unpack[a.__origin__[a.__args__]] if getattr(a, "__unpacked__", False) else a for a in args)
    return args


_GET_ARGS_FORMS = {
    # canonical source text of helpers.get_args -> the stdlib-only model that stands for it in the simulation
    "return getattr(typ, '__args__', ())": _get_args_plain,
    "args = getattr(typ, '__args__', ())\n"
    "if any((getattr(arg, '__unpacked__', False) for arg in args)):\n"
    "    args = tuple((typing.Unpack[arg.__origin__[arg.__args__]] if getattr(arg, '__unpacked__', False) else arg for arg in args))\n"
    "return args": _get_args_normalising,
}


def get_args_model(repo: Repo) -> Callable:
    """helpers.get_args is summarised, not evaluated: the summary is chosen by the *form of the current source*.  An
    unrecognised form is an analysis error (no verdict), never a silent fallback to an old summary."""
    fi = repo.func(M_HELPERS, "get_args")
    body = [st for st in fi.node.body if not (isinstance(st, ast.Expr) and isinstance(st.value, ast.Constant))]
    text = "\n".join(ast.unparse(st) for st in body)
    if text not in _GET_ARGS_FORMS:
        raise AnalysisError("helpers.get_args has a form the dispatch simulation has no summary for:\n" + text)
    return _GET_ARGS_FORMS[text]


def _tv_has_default(t):
    try:
        return t.has_default()
    except AttributeError:
        return getattr(t, "__default__", None) is not None


def _is_optional(t):
    if typing.get_origin(t) is typing.Annotated:
        t = t.__origin__
    return typing.get_origin(t) in (typing.Union, types.UnionType) and len(typing.get_args(t)) == 2 and type(None) in typing.get_args(t)


HELPER_MODEL: Dict[str, Callable] = {
    "get_type_origin": _origin,
    "get_args": lambda t: tuple(getattr(t, "__args__", ()) or ()),
    "is_special_typing_primitive": _is_special,
    "is_generic": _is_generic,
    "is_typed_dict": lambda t: typing.is_typeddict(t) or typing_extensions.is_typeddict(t),
    "is_named_tuple": _is_named_tuple,
    "is_unpack": _is_unpack,
    "is_hashable_type": _hashable_type,
    "is_final": lambda t: _origin(t) is typing.Final,
    "is_self": lambda t: t is typing.Self,
    "is_new_type": lambda t: hasattr(t, "__supertype__"),
    "is_union": lambda t: typing.get_origin(t) in (typing.Union, types.UnionType),
    "is_literal": lambda t: typing.get_origin(t) is typing.Literal,
    "is_annotated": lambda t: typing.get_origin(t) is typing.Annotated,
    "is_type_var": lambda t: isinstance(t, typing.TypeVar),
    "is_type_var_any": lambda t: isinstance(t, typing.TypeVar) and not t.__constraints__ and t.__bound__ in (None, typing.Any) and not _tv_has_default(t),
    "is_type_var_tuple": lambda t: isinstance(t, typing.TypeVarTuple),
    "is_required": lambda t: _origin(t) is typing.Required,
    "is_not_required": lambda t: _origin(t) is typing.NotRequired,
    "is_readonly": lambda t: False,
    "is_type_alias_type": lambda t: isinstance(t, typing.TypeAliasType),
    "is_hashable": lambda v: True,
    "is_optional": lambda t: _is_optional(t),
}


def _not_none_type_arg(args):
    for a in args:
        if a is not type(None):
            return a
    return None
STDLIB_PURE = {dataclasses.is_dataclass, typing.get_args, typing.get_origin}


def lift(obj: Any, name: str = "") -> V:
    """Python constant data of the standard library -> abstract value."""
    if obj is None or isinstance(obj, (str, int, bool)) and not isinstance(obj, enum.Enum):
        return Const(obj)
    if isinstance(obj, (tuple, list, frozenset)) and all(isinstance(x, (str, type, typing._GenericAlias, types.GenericAlias)) or x is ... or _is_special(x) for x in obj):  # type: ignore[attr-defined]
        return Tup([lift(x) for x in obj])
    if isinstance(obj, dict) and all(isinstance(k, str) for k in obj):
        return Dct("dict", {k: (Const(k), lift(v)) for k, v in obj.items()}, name=name or "dict")
    return Py(obj, name or _tname(obj))


def _tname(t) -> str:
    try:
        if isinstance(t, type) and not hasattr(t, "__args__"):
            return t.__name__
        return str(t).replace("typing.", "").replace("collections.abc.", "abc.")
    except Exception:
        return repr(t)


def registered(repo: Repo, module: str) -> List[FuncInfo]:
    mi = repo.module(module)
    out = []
    for node in mi.tree.body:
        if isinstance(node, ast.FunctionDef) and any(ast.unparse(d) == "register" for d in node.decorator_list):
            out.append(repo.func(module, node.name))
    if len(out) < 15:
        raise AnalysisError(f"only {len(out)} registered functions found in {module}")
    return out


@dataclass
class Outcome:
    entry: Entry
    func: Optional[str]
    value: Optional[V]
    path: Path
    raised: Optional[str] = None


class Dispatcher:
    def __init__(self, repo: Repo, kind: str, no_copy: Tuple = (), nailed: bool = True, extra_assume=(), max_depth: int = 7):
        self.repo = repo
        self.kind = kind  # 'PACK' | 'UNPACK'
        self.module = M_PACK if kind == "PACK" else M_UNPACK
        self.funcs = registered(repo, self.module)
        self.no_copy = no_copy
        self.nailed = nailed
        self.max_depth = max_depth
        self.depth = 0
        self.trace: List[str] = []
        assume = [
            (r"get_config\(\)\.debug", False), (r"bool\(B\.is_nailed\)", nailed),
            (r"get_dialect_or_config_option\(namedtuple_as_dict", False),
            (r"bool\(spec\.field_ctx\.(un)?packer\)", False),
            (r"bool\(B\.get_(un)?pack_method_flags\(\)\)", False), (r"bool\(B\.get_(un)?pack_method_default_flag_values\(\)\)", True),
            (r"PY_311_MIN", True), (r"bool\(ciso8601\)|bool\(pendulum\)", True),
            (r"^pass_through is None", False), (r"^bool\(X\)$", True),
            (r"raises\[TypeError\]@", False), (r"raises\[suppress\(TypeError\)\]", False),
            (r"^bool\(spec\.field_ctx\.name\)$", True), (r"^bool\(B\.dialect\)$", False), (r"^bool\(B\.default_dialect\)$", False),
        ] + list(extra_assume)
        hm = dict(HELPER_MODEL)
        hm["get_args"] = get_args_model(repo)
        models = {f"{M_HELPERS}::{k}": self._helper(k, f) for k, f in hm.items()}
        models[f"{M_PACK}::get_overridden_serialization_method"] = lambda pe, fv, a, kw, p, e: [(Const(None), p)]
        models[f"{M_UNPACK}::get_overridden_deserialization_method"] = lambda pe, fv, a, kw, p, e: [(Const(None), p)]
        models[f"{M_HELPERS}::resolve_type_params"] = lambda pe, fv, a, kw, p, e: [(Sym("RESOLVED_TYPE_PARAMS"), p)]
        models[f"{M_HELPERS}::type_name"] = self._type_name
        models[f"{M_BUILDER}::CodeBuilder.get_type_name_identifier"] = self._type_ident
        models["method:get"] = self._resolved_get
        models[f"{M_HELPERS}::not_none_type_arg"] = self._not_none
        self.ev = make_eval(repo, inline_depth=8, assume=assume, models=models, max_steps=300000, generic_elems=1)
        self.ev.max_recursion = 4
        self.ev.registry_get = self._registry_get  # type: ignore[assignment]
        self.ev.dispatcher = self  # type: ignore[attr-defined]
        orig_call_py = self.ev.call_py

        def call_py(fv, args, kwargs, p, e):
            if fv.obj in STDLIB_PURE and args and all(isinstance(a, (Py, Const)) for a in args):
                try:
                    return [(lift(fv.obj(*[a.obj if isinstance(a, Py) else a.v for a in args])), p)]
                except Exception:
                    pass
            import builtins as _b

            if fv.obj is _b.isinstance and len(args) == 2 and isinstance(args[0], Const) and isinstance(args[1], ClsRef):
                return [(Const(False), p)]
            if fv.obj in (_b.issubclass, _b.isinstance) and len(args) == 2 and isinstance(args[0], Py):
                second = args[1]
                items = list(second.items) if isinstance(second, Tup) else [second]
                if any(isinstance(i, ClsRef) for i in items) and all(isinstance(i, (ClsRef, Py)) for i in items):
                    # a standard-library class is never a subclass/instance of a repository class
                    pys = tuple(i.obj for i in items if isinstance(i, Py))
                    try:
                        return [(Const(bool(pys) and bool(fv.obj(args[0].obj, pys))), p)]
                    except TypeError:
                        pass
            if fv.obj is _b.getattr and len(args) >= 2 and isinstance(args[0], Py) and isinstance(args[1], Const):
                try:
                    return [(lift(getattr(args[0].obj, args[1].v), f"{args[0].name}.{args[1].v}"), p)]
                except AttributeError:
                    if len(args) == 3:
                        return [(args[2], p)]
            return orig_call_py(fv, args, kwargs, p, e)

        self.ev.call_py = call_py  # type: ignore[assignment]
        orig_getattr = self.ev.getattr_v

        def getattr_v(recv, attr, p, node=None):
            if isinstance(recv, Py) and attr in ("__annotations__", "_fields", "_field_defaults", "__required_keys__", "__optional_keys__",
                                                 "__args__", "__name__", "__supertype__", "__constraints__", "__bound__"):
                try:
                    return lift(getattr(recv.obj, attr), f"{recv.name}.{attr}")
                except AttributeError:
                    pass
            return orig_getattr(recv, attr, p, node)

        self.ev.getattr_v = getattr_v  # type: ignore[assignment]

    @staticmethod
    def _type_name(pe, fv, args, kwargs, p, e):
        """type_name() of a plain class: builtins by bare name, others by module.qualname."""
        if args and isinstance(args[0], Const) and args[0].v is None:
            return [(Const("None"), p)]  # type_name(None) == 'None'
        if args and isinstance(args[0], Py) and isinstance(args[0].obj, type) and not kwargs.get("resolved_type_params"):
            t = args[0].obj
            txt = t.__qualname__ if t.__module__ == "builtins" else f"{t.__module__}.{t.__qualname__}"
            return [(Sym(txt, {"TYPEREF_RAW"}, ("typeref", t)), p)]
        if args and isinstance(args[0], Py) and isinstance(getattr(args[0].obj, "__origin__", None), type) and not kwargs.get("resolved_type_params"):
            # a parametrised generic class (list[date], typing.Dict[str, int]): the rendered alias, called, constructs its origin
            t = args[0].obj.__origin__
            return [(Sym(f"type_name({args[0].name})", {"TYPEREF_RAW"}, ("typeref", t)), p)]
        return None

    @staticmethod
    def _not_none(pe, fv, args, kwargs, p, e):
        a = args[0] if args else None
        if isinstance(a, Tup) and all(isinstance(i, Py) for i in a.items):
            r = _not_none_type_arg([i.obj for i in a.items])
            return [(lift(r), p)]
        return None

    @staticmethod
    def _type_ident(pe, fv, args, kwargs, p, e):
        t = args[0] if args else kwargs.get("typ")
        if isinstance(t, Py):
            return [(Sym(f"B.get_type_name_identifier({t.name})", {"TYPEREF_ID"}, ("typeref", t.obj)), p)]
        return None

    @staticmethod
    def _resolved_get(pe, recv, args, kwargs, p, e):
        # resolved type parameters of a non-generic class: the substitution is the identity
        if isinstance(recv, Sym) and recv.name.startswith("RESOLVED_TYPE_PARAMS") and len(args) == 2:
            return [(args[1], p)]
        return None

    def _helper(self, name: str, fn: Callable):
        def model(pe, fv, args, kwargs, p, e):
            if args and all(isinstance(a, (Py, Const)) for a in args[:1]):
                a0 = args[0].obj if isinstance(args[0], Py) else args[0].v
                try:
                    return [(lift(fn(a0)), p)]
                except Exception:
                    return None
            return None
        return model

    # ------------------------------------------------------------------ spec
    def make_spec(self, p: Path, t: Any, expression: V, could_be_none: V = Const(False), oid: Optional[str] = None) -> Obj:
        ev = self.ev
        B = ev.builder_obj(p)
        fc = ev.new_obj(p, f"{M_COMMON}::FieldContext", {
            "name": Sym("spec.field_ctx.name", {"FIELDNAME"}), "metadata": Dct("dict", {}, name="metadata"),
            "packer": Const(None), "unpacker": Const(None)})
        return ev.new_obj(p, f"{M_COMMON}::ValueSpec", {
            "type": lift(t), "origin_type": lift(_origin(t)), "expression": expression, "builder": B, "field_ctx": fc,
            "could_be_none": could_be_none, "annotated_type": Const(None), "owner": Const(None), "annotations": Lst([]),
            "no_copy_collections": Tup([lift(x) for x in self.no_copy]),
        }, oid=oid)

    def _registry_get(self, kind: str, spec: V, p: Path, e) -> V:
        """Nested Registry.get: resolved recursively for concrete types."""
        if isinstance(spec, Obj) and kind == self.kind:
            a = p.heap.get(spec.oid, {})
            t = a.get("type")
            if isinstance(t, Py) and self.depth < self.max_depth:
                outs = self.run_spec(spec, p)
                vals = {o.value.key(): o.value for o in outs if o.value is not None}
                if len(outs) >= 1 and len(vals) == 1 and all(o.raised is None for o in outs):
                    # registrations / helper buffers of the nested conversion belong to this path too
                    n = outs[0].path
                    p.events = list(n.events)
                    for b, ls in n.bufs.items():
                        p.bufs[b] = list(ls)
                    for b, d in n.ind.items():
                        p.ind.setdefault(b, d)
                    p.counter = max(p.counter, n.counter)
                    for oid, d in n.heap.items():
                        p.heap.setdefault(oid, dict(d))
                    return next(iter(vals.values()))
        return Evaluator.registry_get(self.ev, kind, spec, p, e)

    # ------------------------------------------------------------------ dispatch
    def run_spec(self, spec: Obj, p: Path) -> List[Outcome]:
        self.depth += 1
        try:
            pending = [p]
            outs: List[Outcome] = []
            entry = Entry("<nested>", None, "")
            for fi in self.funcs:
                nxt = []
                for q in pending:
                    q2 = q.clone()
                    q2.env = {}
                    q2.ctl = None
                    q2.retv = None
                    dummy = ast.parse("f(spec)").body[0].value
                    res = self.ev.call_func(Func(fi), [spec], {}, q2, dummy, force=True)
                    for v, r in res:
                        if r.ctl == "raise":
                            exc = next((show(x[1]) for x in reversed(r.events) if x and x[0] == "raise"), "?")
                            outs.append(Outcome(entry, fi.key, None, r, raised=exc))
                            r.ctl = None
                        elif isinstance(v, Const) and v.v is None:
                            nxt.append(r)
                        else:
                            outs.append(Outcome(entry, fi.key, v, r))
                pending = nxt
                if not pending:
                    break
            for q in pending:
                outs.append(Outcome(entry, None, None, q, raised="UnserializableField (no registered function matched)"))
            return outs
        finally:
            self.depth -= 1

    def dispatch(self, entry: Entry, expression: Optional[V] = None, could_be_none: bool = False) -> List[Outcome]:
        p = Path()
        self.depth = 0
        self.ev.steps = 0
        spec = self.make_spec(p, entry.type, expression or Sym("X", {"CODE", "EXPR"}), Const(could_be_none), oid="spec")
        outs = self.run_spec(spec, p)
        for o in outs:
            o.entry = entry
        return outs


# --------------------------------------------------------------------------- canonical form of an outcome
def canonise(o: Outcome) -> str:
    from . import oracle
    from .skeleton import Rendered, render_tmpl
    from .values import to_tmpl as _tt

    if o.value is None:
        return f"<raise {o.raised}>"
    t = _tt(o.value)
    r = Rendered()
    src = render_tmpl(t, r)
    holes = {}
    for m, h in r.holes.items():
        tk = oracle.hole_token(h)
        if tk is not None:
            holes[m] = tk
        else:
            nm = show(h.val)
            if nm.startswith("type_name("):
                holes[m] = "FACTORY_OPAQUE"  # a type reference that is not a class (Optional / Union value type): C17 R17.2 decides it
            elif "__pack_typed_dict_" in nm or "__unpack_typed_dict_" in nm:
                holes[m] = "HELPER_typeddict"
            elif "__unpack_named_tuple_" in nm:
                holes[m] = "HELPER_namedtuple"
    # helper call: `<attrs>.__unpack_typed_dict_<cls>_<field>__<hex>(X)` renders as  _h0_.__unpack_typed_dict__h1___h2____h3_(X)
    import re as _re

    # helper calls (`<attrs>.__unpack_typed_dict_<cls>_<field>__<hex>(arg)`): keep the argument, abstract the helper name
    src = _re.sub(r"_h\d+_\.__(?:un)?pack_typed_dict_\w*?\(", "HELPER_TYPEDDICT_CALL(", src)
    src = _re.sub(r"_h\d+_\.__unpack_named_tuple_\w*?\(", "HELPER_NAMEDTUPLE_CALL(", src)
    try:
        tree = ast.parse(src, mode="eval")
    except SyntaxError:
        return "<unparseable> " + r.describe(src)
    reg = oracle.registered_objects(o.path)
    tree = oracle.Canon(reg, holes).visit(tree)
    return ast.unparse(tree).replace("HELPER_TYPEDDICT_CALL", "<typeddict helper>").replace("HELPER_NAMEDTUPLE_CALL", "<namedtuple helper>").replace("FACTORY_OPAQUE", "<factory>")
