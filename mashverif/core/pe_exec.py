"""E4 continued: calls, statements and function inlining for the partial evaluator."""

from __future__ import annotations

import ast
from typing import Any, Callable, Dict, List, Optional, Sequence, Tuple

from .pe import BUILDER_CLS, LINES_CLS, PE, Line, Path
from .srcmodel import AnalysisError, ClassInfo, FuncInfo, Undecided, walk_no_nested
from .values import (
    ClsRef, Const, Dct, Func, Hole, LinesRef, Lst, Obj, Py, Sym, Tmpl, Tup, V,
    as_parts, is_stringy, show, to_tmpl,
)

MUTATORS = {"add", "update", "append", "extend", "insert", "remove", "discard", "pop", "clear", "setdefault",
            "intersection_update", "difference_update", "symmetric_difference_update", "sort", "reverse"}
PURE_PY = {"isinstance", "issubclass", "len", "hasattr", "callable", "repr", "str", "bool", "int", "id", "type"}


DEFAULT_OPAQUE = {
    # reflection / configuration look-ups of CodeBuilder: summarised as opaque symbols
    "get_config", "get_dialect_or_config_option", "get_field_default", "dataclass_fields", "metadatas",
    "__get_field_types", "get_field_types", "_get_field_class", "get_real_type",
    "get_field_resolved_type_params", "add_type_modules", "evaluate_forward_ref", "get_declared_hook",
    "is_code_generation_option_enabled", "get_discriminator", "compile", "reset",
    "get_field_default_literal", "get_type_name_identifier", "iter_serialization_strategies",
    "__iter_serialization_strategies", "namespace", "annotations",
    # template-producing summaries analysed on their own by the rules that need them
    "get_pack_method_flags", "get_unpack_method_flags", "get_pack_method_default_flag_values",
    "get_unpack_method_default_flag_values", "get_overridden_serialization_method",
    "get_overridden_deserialization_method", "_get_encoder_kwargs",
    # identifier makers (sanitisers of the kind analysis)
    "clean_id", "random_hex",
}


_UNROLL_MODULES = ("mashumaro.core.meta.types.pack", "mashumaro.core.meta.types.unpack", "mashumaro.core.meta.types.common",
                   "mashumaro.core.meta.code.builder", "mashumaro.codecs._builder")


class Evaluator(PE):
    keep_atom: Optional[Callable[[str], bool]] = None
    profile: Optional[Dict[Any, int]] = None
    max_recursion = 1
    empty_loops = False
    site_nodes: List[Any] = []
    merge_enabled = True
    inline_modules = frozenset({
        "mashumaro.core.meta.code.builder", "mashumaro.core.meta.code.lines",
        "mashumaro.core.meta.types.common", "mashumaro.core.meta.types.pack",
        "mashumaro.core.meta.types.unpack", "mashumaro.codecs._builder",
    })

    REGISTRIES = {"PackerRegistry": "PACK", "UnpackerRegistry": "UNPACK"}

    def registry_get(self, kind: str, spec: V, p: Path, e) -> V:
        """``Registry.get(spec)``: the converter expression text for ``spec`` -- an opaque CODE symbol."""
        if isinstance(spec, Obj):
            a = p.heap.get(spec.oid, {})
            typ = show(a.get("type", Sym("?")))
            ex = a.get("expression", Sym("?"))
            name = f"{kind}[{typ}]({show(ex)})"
            inherit = [ex] if isinstance(ex, (Sym, Tmpl)) else []
            s = Sym(name, {"CODE"} | set().union(*[set(i.tags) for i in inherit]) if inherit else {"CODE"},
                    ("registry", kind, dict(a)))
            return s
        return Sym(f"{kind}({show(spec)})", {"CODE"}, ("registry", kind, {}))

    def __init__(self, repo, **kw):
        fo = set(kw.pop("force_opaque", ())) | DEFAULT_OPAQUE
        fo -= set(kw.pop("allow_inline", ()))
        self.empty_loops = bool(kw.pop("empty_loops", False))
        super().__init__(repo, force_opaque=fo, **kw)
        self.site_nodes = []
        self.models.setdefault("mashumaro.core.meta.code.builder::CodeBuilder.ensure_object_imported", _m_ensure_object)
        self.models.setdefault("mashumaro.core.meta.code.builder::CodeBuilder.ensure_module_imported", _m_ensure_module)
        self.models.setdefault("mashumaro.core.meta.code.builder::CodeBuilder.add_type_modules", _m_add_type_modules)

    # ================================================================ emission
    def emit(self, bid: str, v: V, p: Path, node: ast.AST) -> None:
        t = to_tmpl(v)
        site = (self.cur.key, getattr(node, "lineno", 0))
        # emission through the add_line wrapper is attributed to the wrapper's caller
        i = len(self.call_stack) - 1
        while i > 0 and self.call_stack[i].node.name in ("add_line",) and self.call_stack[i].cls:
            nd = self.site_nodes[i] if i < len(self.site_nodes) else None
            site = (self.call_stack[i - 1].key, getattr(nd, "lineno", 0))
            i -= 1
        self.sites_hit.add(site)
        p.bufs.setdefault(bid, []).append(Line(p.ind.get(bid, 0), t, site))

    # ================================================================ calls
    def ev_Call(self, e: ast.Call, p: Path) -> List[Tuple[V, Path]]:
        f = e.func
        out: List[Tuple[V, Path]] = []
        if any(isinstance(a, ast.Starred) for a in e.args) or any(k.arg is None for k in e.keywords):
            return self._call_with_star(e, p)
        if isinstance(f, ast.Attribute):
            for recv, q in self.ev(f.value, p):
                for (args, kwargs), q2 in self._ev_args(e, q):
                    out.extend(self.call_method(recv, f.attr, args, kwargs, q2, e))
            return out
        for fv, q in self.ev(f, p):
            for (args, kwargs), q2 in self._ev_args(e, q):
                out.extend(self.call_value(fv, args, kwargs, q2, e))
        return out

    def _ev_args(self, e: ast.Call, p: Path):
        exprs = list(e.args) + [k.value for k in e.keywords]
        res = []
        for vals, q in self.ev_many(exprs, p):
            n = len(e.args)
            res.append(((vals[:n], {k.arg: v for k, v in zip(e.keywords, vals[n:])}), q))
        return res

    def _call_with_star(self, e: ast.Call, p: Path):
        # f(*xs) / f(**kw): evaluate what we can, result opaque; emission primitives never use stars
        f = e.func
        name = ast.unparse(f)
        inherit = []
        for a in e.args:
            tgt = a.value if isinstance(a, ast.Starred) else a
            r = self.ev(tgt, p)
            if len(r) == 1:
                inherit.append(r[0][0])
        # in-repo callee with star args: try to inline with positional expansion when the starred value is known
        p.events.append(("star_call", name, tuple(show(i) for i in inherit)))
        r = self.opaque_expr(e, p)
        return [(Sym(r.name, set(r.tags) | set().union(*[set(i.tags) for i in inherit]) if inherit else r.tags, e), p)]

    def opaque_call(self, name: str, args: List[V], kwargs: Dict[str, V], e, inherit: Sequence[V] = ()) -> Sym:
        a = [show(x) for x in args] + [f"{k}={show(v)}" for k, v in kwargs.items()]
        txt = f"{name}({', '.join(a)})"
        if len(txt) > 160:
            txt = txt[:157] + "..."
        return self.sym(txt, e, list(inherit))

    def call_value(self, fv: V, args, kwargs, p: Path, e: ast.Call):
        if isinstance(fv, Func):
            return self.call_func(fv, args, kwargs, p, e)
        if isinstance(fv, ClsRef):
            return self.construct(fv.ci, args, kwargs, p, e)
        if isinstance(fv, Py):
            return self.call_py(fv, args, kwargs, p, e)
        key = f"value:{show(fv)}"
        if key in self.models:
            return self.models[key](self, fv, args, kwargs, p, e)
        return [(self.opaque_call(show(fv), args, kwargs, e, [fv] + list(args)), p)]

    # ------------------------------------------------------------ python builtins
    def call_py(self, fv: Py, args, kwargs, p: Path, e):
        name = fv.name
        obj = fv.obj
        import builtins

        if obj is builtins.isinstance or obj is builtins.issubclass:
            if len(args) == 2 and all(_concrete(a) for a in args):
                try:
                    return [(Const(bool(obj(_raw(args[0]), _raw(args[1])))), p)]
                except TypeError:
                    pass
            if obj is builtins.isinstance and isinstance(args[0], (Tmpl,)) :
                return [(Const(_raw(args[1]) is str if isinstance(args[1], Py) else False), p)]
            if obj is builtins.isinstance and len(args) == 2 and isinstance(args[0], (Dct, Lst, Tup)):
                # a container built by the analysed code (or by a scenario) has exactly its literal class
                lit = {"dict": dict, "set": set}.get(getattr(args[0], "kind", ""), list if isinstance(args[0], Lst) else tuple)
                if isinstance(args[1], Py) and isinstance(args[1].obj, type):
                    return [(Const(issubclass(lit, args[1].obj)), p)]
                if isinstance(args[1], (ClsRef, Sym)):
                    return [(Const(False), p)]  # an in-repo / opaque class is never the class of a literal container
            return [(self.opaque_call(name, args, kwargs, e), p)]
        if obj is builtins.len and args:
            a = args[0]
            if isinstance(a, (Tup,)) or (isinstance(a, Lst) and not a.open):
                return [(Const(len(a.items)), p)]
            if isinstance(a, Dct) and not a.open:
                return [(Const(len(a.entries)), p)]
            return [(self.sym(f"len({show(a)})", e), p)]
        if obj is builtins.repr and args:
            a = args[0]
            return [(Tmpl(as_parts(a, "r")), p)]
        if obj is builtins.str and args:
            a = args[0]
            if is_stringy(a):
                return [(a, p)]
            return [(Tmpl(as_parts(a, "s")), p)]
        if obj is builtins.enumerate and args:
            start = kwargs.get("start", args[1] if len(args) > 1 else Const(0))
            els, open_ = self.iter_elems(args[0], p, e)
            if isinstance(start, Const) and not (open_ and not els):
                items = [Tup([Const(start.v + i), x]) for i, x in enumerate(els)]
                return [(Lst(items, open_, name=f"enumerate({show(args[0])})"), p)]
            if open_ and els and isinstance(start, Const):
                items = [Tup([self.sym(f"idx({show(x)})", e), x]) for x in els]
                return [(Lst(items, True), p)]
            return [(self.opaque_call(name, args, kwargs, e, args), p)]
        if obj is builtins.zip and len(args) == 2:
            (a, ao), (b, bo) = self.iter_elems(args[0], p, e), self.iter_elems(args[1], p, e)
            if len(a) == len(b):
                return [(Lst([Tup([x, y]) for x, y in zip(a, b)], ao or bo), p)]
            return [(self.opaque_call(name, args, kwargs, e, args), p)]
        if obj is builtins.filter and len(args) == 2 and isinstance(args[0], Const) and args[0].v is None:
            els, open_ = self.iter_elems(args[1], p, e)
            res: List[Tuple[List[V], Path]] = [([], p)]
            for el in els:
                nxt = []
                for acc, q in res:
                    for b, q2 in self.truth(el, q):
                        nxt.append((acc + [el] if b else acc, q2))
                res = nxt
            return [(Lst(acc, open_, name="filter"), q) for acc, q in res]
        if obj in (builtins.list, builtins.tuple) and len(args) == 1:
            a = args[0]
            if isinstance(a, (Lst, Tup)):
                return [(Lst(a.items, getattr(a, "open", False), getattr(a, "name", "")) if obj is builtins.list else (Tup(a.items) if not getattr(a, "open", False) else a), p)]
            if isinstance(a, Dct):
                els, open_ = self.iter_elems(a, p, e)
                return [(Lst(els, open_, name=a.name, opens=self.last_opens if open_ else ()), p)]
            return [(self.opaque_call(name, args, kwargs, e, args), p)]
        if obj is builtins.reversed and len(args) == 1 and isinstance(args[0], (Lst, Tup)) and not getattr(args[0], "open", False):
            return [(Lst(list(reversed(args[0].items)), False, name="reversed"), p)]
        if obj is builtins.tuple and not args:
            return [(Tup([]), p)]
        if obj is builtins.list and not args:
            return [(Lst([], name=f"list@{e.lineno}"), p)]
        if obj is builtins.set and not args:
            return [(Dct("set", name=f"set@{e.lineno}"), p)]
        if obj is builtins.dict and not args and not kwargs:
            return [(Dct("dict", name=f"dict@{e.lineno}"), p)]
        if obj is builtins.sorted and args and isinstance(kwargs.get("key"), Sym) and isinstance(kwargs["key"].origin, ast.Attribute) \
                and kwargs["key"].origin.attr == "index" and isinstance(args[0], (Lst, Tup, Dct)):
            # sorted(xs, key=ys.index) with known xs and ys: order xs by their position in ys
            els, open_ = self.iter_elems(args[0], p, e)
            r = self.ev(kwargs["key"].origin.value, p)
            if len(r) == 1 and isinstance(r[0][0], (Lst, Tup)) and not open_ and not getattr(r[0][0], "open", False):
                order = [x.key() for x in r[0][0].items]
                if all(x.key() in order for x in els):
                    return [(Lst(sorted(els, key=lambda x: order.index(x.key())), False, name="sorted"), p)]
        if obj is builtins.sorted and args:
            a = args[0]
            if isinstance(a, (Lst, Tup, Dct)):
                els, open_ = self.iter_elems(a, p, e)
                if len(els) <= 1:
                    return [(Lst(els, open_, name=f"sorted({show(a)})"), p)]
            return [(self.opaque_call(name, args, kwargs, e, args), p)]
        if obj is builtins.map and len(args) == 2:
            els, open_ = self.iter_elems(args[1], p, e)
            if isinstance(args[0], (Func, Py)) and all(True for _ in els):
                vals = []
                q = p
                ok = True
                for el in els:
                    r = self.call_value(args[0], [el], {}, q, e)
                    if len(r) != 1:
                        ok = False
                        break
                    vals.append(r[0][0])
                    q = r[0][1]
                if ok:
                    return [(Lst(vals, open_, name="map", opens=self.last_opens if open_ else ()), q)]
            return [(self.opaque_call(name, args, kwargs, e, args), p)]
        if obj is builtins.getattr and len(args) >= 2 and isinstance(args[1], Const):
            v = self.getattr_v(args[0], args[1].v, p, e)
            if isinstance(v, Sym) and len(args) == 3:
                v = self.sym(f"getattr({show(args[0])}, {args[1].v!r}, {show(args[2])})", e, [args[0]])
            return [(v, p)]
        if obj is builtins.setattr and len(args) == 3:
            if isinstance(args[0], Obj) and isinstance(args[1], Const):
                p.heap.setdefault(args[0].oid, {})[args[1].v] = args[2]
            p.events.append(("setattr", show(args[0]), args[1], args[2]))
            return [(Const(None), p)]
        if obj is builtins.exec:
            p.events.append(("exec", args[0] if args else None, [show(a) for a in args[1:]]))
            return [(Const(None), p)]
        if obj is builtins.print:
            return [(Const(None), p)]
        if obj is builtins.type and len(args) == 1:
            return [(self.sym(f"type({show(args[0])})", e, args), p)]
        if obj is builtins.callable or obj is builtins.hasattr:
            if all(_concrete(a) for a in args):
                try:
                    return [(Const(bool(obj(*[_raw(a) for a in args]))), p)]
                except Exception:
                    pass
            return [(self.opaque_call(name, args, kwargs, e), p)]
        return [(self.opaque_call(name, args, kwargs, e, args), p)]

    # ------------------------------------------------------------ methods
    def call_method(self, recv: V, attr: str, args, kwargs, p: Path, e: ast.Call):
        mk = f"method:{attr}"
        if mk in self.models:
            r = self.models[mk](self, recv, args, kwargs, p, e)
            if r is not None:
                return r
        if isinstance(recv, LinesRef):
            return self.lines_method(recv, attr, args, kwargs, p, e)
        if isinstance(recv, Sym) and recv.name in self.REGISTRIES and attr == "get" and len(args) == 1:
            p.events.append(("registry_get", self.REGISTRIES[recv.name], args[0], (self.cur.key, e.lineno)))
            return [(self.registry_get(self.REGISTRIES[recv.name], args[0], p, e), p)]
        if isinstance(recv, Obj):
            v = self.getattr_v(recv, attr, p, e)
            if isinstance(v, Func):
                return self.call_func(v, args, kwargs, p, e)
            if recv.cls.endswith("::ValueSpec") or recv.cls.endswith("::FieldContext"):
                pass
            return self.call_value(v, args, kwargs, p, e)
        if isinstance(recv, ClsRef):
            v = self.getattr_v(recv, attr, p, e)
            if isinstance(v, Func):
                if v.self_v is None and "staticmethod" not in v.fi.decorators() and "classmethod" not in v.fi.decorators():
                    # unbound instance method called through the class: first arg is self
                    return self.call_func(Func(v.fi, args[0] if args else None), args[1:], kwargs, p, e)
                return self.call_func(v, args, kwargs, p, e)
            return [(self.opaque_call(f"{recv.ci.name}.{attr}", args, kwargs, e, args), p)]
        if isinstance(recv, Dct):
            return self.dct_method(recv, attr, args, kwargs, p, e)
        if isinstance(recv, Lst):
            return self.lst_method(recv, attr, args, kwargs, p, e)
        if is_stringy(recv):
            return self.str_method(recv, attr, args, kwargs, p, e)
        if isinstance(recv, Py):
            v = self.getattr_v(recv, attr, p, e)
            if isinstance(v, Py):
                if recv.name == "re" or v.name.startswith("re."):
                    return [(self.opaque_call(v.name, args, kwargs, e, args), p)]
                return self.call_py(v, args, kwargs, p, e)
        if isinstance(recv, Sym) and attr in MUTATORS and isinstance(e.func, ast.Attribute) and isinstance(e.func.value, ast.Name):
            newv = self.opaque_call(f"{show(recv)}.{attr}", args, kwargs, e, [recv] + list(args))
            self._store_name(e.func.value.id, newv, p)
            return [(Const(None), p)]
        if isinstance(recv, Sym) and recv.name.startswith("super()"):
            return self._super_call(attr, args, kwargs, p, e)
        return [(self.opaque_call(f"{show(recv)}.{attr}", args, kwargs, e, [recv] + list(args)), p)]

    def _super_call(self, attr, args, kwargs, p: Path, e):
        fi = self.cur
        if fi.cls:
            ci = self.repo.classes.get(f"{fi.module}::{fi.cls}")
            selfv = p.env.get("self") or p.env.get("cls")
            if ci is not None:
                for base in self.repo.mro(ci)[1:]:
                    m = self.repo.funcs.get(f"{base.module}::{base.name}.{attr}")
                    if m is not None:
                        return self.call_func(Func(m, selfv), args, kwargs, p, e)
        return [(self.opaque_call(f"super().{attr}", args, kwargs, e, args), p)]

    def lines_method(self, recv: LinesRef, attr, args, kwargs, p: Path, e):
        bid = recv.bid
        if attr == "append":
            self.emit(bid, args[0], p, e)
            return [(Const(None), p)]
        if attr == "extend":
            other = args[0]
            if isinstance(other, LinesRef):
                base = p.ind.get(bid, 0)
                for l in p.bufs.get(other.bid, []):
                    p.bufs.setdefault(bid, []).append(Line(base + l.depth, l.tmpl, l.site))
                return [(Const(None), p)]
            raise Undecided(f"CodeLines.extend with unknown argument {show(other)} in {self.cur.key}")
        if attr == "as_text":
            return [(Sym(f"as_text({bid})", (), ("as_text", bid)), p)]
        if attr == "reset":
            p.events.append(("lines_reset", bid, len(p.bufs.get(bid, []))))
            p.bufs[bid] = []
            p.ind[bid] = 0
            return [(Const(None), p)]
        if attr == "indent":
            return [(Sym(f"indent_ctx({bid})", (), ("indent", bid, args[0] if args else kwargs.get("expr"))), p)]
        raise Undecided(f"unknown CodeLines method {attr}")

    def dct_method(self, recv: Dct, attr, args, kwargs, p: Path, e: ast.Call):
        f = e.func
        name = f.value.id if isinstance(f, ast.Attribute) and isinstance(f.value, ast.Name) else None

        def store(d2: Dct):
            if name is not None:
                self._store_name(name, d2, p)
            elif isinstance(f.value, ast.Attribute):
                self.bind(f.value, d2, p)

        if attr == "get":
            k = show(args[0])
            if k in recv.entries:
                return [(recv.entries[k][1], p)]
            default = args[1] if len(args) > 1 else Const(None)
            if not recv.open:
                return [(default, p)]
            return [(self.sym(f"{recv.name or 'dict'}.get({k})", e), p)]
        if attr in ("items",):
            return [(Lst([Tup([kv, vv]) for kv, vv in recv.entries.values()], recv.open, name=f"{recv.name}.items()"), p)]
        if attr == "keys":
            return [(Lst([kv for kv, _ in recv.entries.values()], recv.open, name=f"{recv.name}.keys()"), p)]
        if attr == "values":
            return [(Lst([vv for _, vv in recv.entries.values()], recv.open, name=f"{recv.name}.values()"), p)]
        if attr == "add":
            d2 = Dct(recv.kind, recv.entries, recv.open, recv.name)
            d2.entries[show(args[0])] = (args[0], args[0])
            store(d2)
            return [(Const(None), p)]
        if attr == "setdefault":
            k = show(args[0])
            if k in recv.entries:
                return [(recv.entries[k][1], p)]
            d2 = Dct(recv.kind, recv.entries, recv.open, recv.name)
            d2.entries[k] = (args[0], args[1] if len(args) > 1 else Const(None))
            store(d2)
            return [(d2.entries[k][1], p)]
        if attr == "copy":
            return [(Dct(recv.kind, recv.entries, recv.open, recv.name), p)]
        if attr in ("pop", "discard", "remove") and args:
            k = show(args[0])
            if k in recv.entries:
                d2 = Dct(recv.kind, {kk: vv for kk, vv in recv.entries.items() if kk != k}, recv.open, recv.name, opens=recv.opens)
                store(d2)
                return [(recv.entries[k][1] if attr == "pop" else Const(None), p)]
            if not recv.open:
                if attr == "pop" and len(args) > 1:
                    return [(args[1], p)]
                if attr == "discard":
                    return [(Const(None), p)]
        if attr == "update":
            els, open_ = self.iter_elems(args[0], p, e) if args and isinstance(args[0], (Dct, Lst, Tup)) else ([], True)
            src = self.last_opens if (args and isinstance(args[0], (Dct, Lst, Tup))) else ((show(args[0]),) if args else ())
            d2 = Dct(recv.kind, recv.entries, recv.open or open_, recv.name, opens=tuple(recv.opens) + (tuple(src) if open_ else ()))
            for el in els:
                d2.entries[show(el)] = (el, el)
            store(d2)
            return [(Const(None), p)]
        return [(self.opaque_call(f"{show(recv)}.{attr}", args, kwargs, e, args), p)]

    def lst_method(self, recv: Lst, attr, args, kwargs, p: Path, e: ast.Call):
        f = e.func
        name = f.value.id if isinstance(f, ast.Attribute) and isinstance(f.value, ast.Name) else None

        def store(l2: Lst):
            if name is not None:
                self._store_name(name, l2, p)
            elif isinstance(f.value, ast.Attribute):
                self.bind(f.value, l2, p)

        if attr == "append":
            store(Lst(recv.items + (args[0],), recv.open, recv.name))
            return [(Const(None), p)]
        if attr == "insert" and isinstance(args[0], Const) and args[0].v == 0:
            store(Lst((args[1],) + recv.items, recv.open, recv.name))
            return [(Const(None), p)]
        if attr == "extend":
            els, open_ = self.iter_elems(args[0], p, e)
            store(Lst(recv.items + tuple(els), recv.open or open_, recv.name))
            return [(Const(None), p)]
        if attr in ("sort", "reverse"):
            # order of the known items is no longer known
            store(self.opaque_call(f"{show(recv)}.{attr}", args, kwargs, e, [recv] + list(args) + list(kwargs.values())))
            return [(Const(None), p)]
        if attr == "index":
            for i, it in enumerate(recv.items):
                if it.key() == args[0].key():
                    return [(Const(i), p)]
        return [(self.opaque_call(f"{show(recv)}.{attr}", args, kwargs, e, [recv] + list(args)), p)]

    def str_method(self, recv: V, attr, args, kwargs, p: Path, e):
        t = to_tmpl(recv)
        if attr == "join" and len(args) == 1 and t.is_literal():
            sep = t.literal()
            els, open_ = self.iter_elems(args[0], p, e) if isinstance(args[0], (Lst, Tup, Dct)) else (None, True)
            opens = self.last_opens if els is not None else ()
            if els is None:
                return [(Tmpl([Hole(self.sym(f"{sep!r}.join({show(args[0])})", e, [args[0]]))]), p)]
            parts: List[Any] = []
            for i, el in enumerate(els):
                if i:
                    parts.append(sep)
                parts.extend(as_parts(el))
            if open_:
                convs = set()
                for el in els:
                    ps = as_parts(el)
                    convs.add(ps[0].conv if len(ps) == 1 and isinstance(ps[0], Hole) else "?")
                conv = convs.pop() if len(convs) == 1 and els else ""
                if conv == "?":
                    conv = ""
                label = " + ".join(opens) if opens else show(args[0])
                parts.append(Hole(self.sym(f"more({label})", e, [args[0]]), conv, more=True, sep=sep))
            return [(Tmpl(parts), p)]
        if attr == "format" and not kwargs:
            # positional '{}' substitution only
            parts: List[Any] = []
            ai = 0
            ok = True
            for chunk in t.parts:
                if not isinstance(chunk, str):
                    parts.append(chunk)
                    continue
                segs = chunk.replace("{{", "\0").replace("}}", "\1").split("{}")
                for i, s in enumerate(segs):
                    if i:
                        if ai >= len(args):
                            ok = False
                            break
                        parts.extend(as_parts(args[ai]))
                        ai += 1
                    if "{" in s or "}" in s:
                        ok = False
                    parts.append(s.replace("\0", "{").replace("\1", "}"))
            if ok and ai == len(args):
                return [(Tmpl(parts), p)]
        if t.is_literal() and all(isinstance(a, Const) for a in args) and attr in (
            "startswith", "endswith", "lstrip", "rstrip", "strip", "upper", "lower", "split", "replace",
        ):
            try:
                r = getattr(t.literal(), attr)(*[a.v for a in args])
                if isinstance(r, list):
                    return [(Lst([Const(x) for x in r]), p)]
                return [(Const(r), p)]
            except Exception:
                pass
        if attr == "startswith" and args and isinstance(args[0], Const) and t.parts and isinstance(t.parts[0], str) and len(t.parts[0]) >= len(args[0].v):
            return [(Const(t.parts[0].startswith(args[0].v)), p)]
        return [(self.opaque_call(f"{show(recv)}.{attr}", args, kwargs, e, [recv] + list(args)), p)]

    # ------------------------------------------------------------ construction
    def construct(self, ci: ClassInfo, args, kwargs, p: Path, e):
        key = f"new:{ci.name}"
        if key in self.models:
            r = self.models[key](self, ci, args, kwargs, p, e)
            if r is not None:
                return r
        if ci.key == LINES_CLS:
            return [(self.new_lines(p), p)]
        decs = [ast.unparse(d) for d in ci.node.decorator_list]
        if any(d.startswith("dataclass") for d in decs):
            fields = []
            for c in reversed(self.repo.mro(ci)):
                for st in c.node.body:
                    if isinstance(st, ast.AnnAssign) and isinstance(st.target, ast.Name):
                        init = True
                        default = None
                        if isinstance(st.value, ast.Call) and ast.unparse(st.value.func) == "field":
                            for kw in st.value.keywords:
                                if kw.arg == "init" and isinstance(kw.value, ast.Constant) and kw.value.value is False:
                                    init = False
                                if kw.arg == "default":
                                    default = kw.value
                        elif st.value is not None:
                            default = st.value
                        fields.append((st.target.id, init, default))
            attrs: Dict[str, V] = {}
            pos = [f for f in fields if f[1]]
            for (nm, _, _), a in zip(pos, args):
                attrs[nm] = a
            for k, v in kwargs.items():
                attrs[k] = v
            for nm, init, default in fields:
                if nm not in attrs and default is not None:
                    saved = self.call_stack
                    r = self.ev(default, p)
                    if len(r) == 1:
                        attrs[nm] = r[0][0]
            o = self.new_obj(p, ci.key, attrs)
            return [(o, p)]
        init = self.repo.method(ci, "__init__")
        o = self.new_obj(p, ci.key, {})
        if init is not None and len(self.call_stack) < self.inline_depth + 2:
            res = self.call_func(Func(init, o), args, kwargs, p, e, force=True)
            return [(o, q) for _, q in res]
        p.heap[o.oid].update({f"arg{i}": a for i, a in enumerate(args)})
        p.heap[o.oid].update(kwargs)
        return [(o, p)]

    # ------------------------------------------------------------ inlining
    def call_func(self, fv: Func, args, kwargs, p: Path, e, force: bool = False):
        fi = fv.fi
        key = fi.key
        if key in self.models:
            r = self.models[key](self, fv, args, kwargs, p, e)
            if r is not None:
                return r
        name = fi.qualname
        opaque_name = name if fv.self_v is None else f"{show(fv.self_v)}.{fi.node.name}"
        if (
            key in self.force_opaque
            or fi.node.name in self.force_opaque
            or (fi.module not in self.inline_modules and not force)
            or (not force and len(self.call_stack) > self.inline_depth)
            or sum(1 for f in self.call_stack if f.key == key) >= self.max_recursion
        ):
            cargs, ckw = self._canonical_args(fv, args, kwargs)
            return [(self.opaque_call(opaque_name, cargs, ckw, e, list(args) + list(kwargs.values())), p)]
        if any(d.endswith("contextmanager") for d in fi.decorators()):
            return self._contextmanager_call(fv, args, kwargs, p, e)
        is_gen = any(isinstance(n, (ast.Yield, ast.YieldFrom)) for n in walk_no_nested(fi.node))
        # a `while` in a reflection helper (resolve_type_params ...) is summarised; in the generator modules it is unrolled (st_While)
        has_while = any(isinstance(n, ast.While) for n in walk_no_nested(fi.node)) and fi.module not in _UNROLL_MODULES
        if has_while or (is_gen and fi.node.name not in getattr(self, "inline_generators", ())):
            return [(self.opaque_call(opaque_name, args, kwargs, e, list(args) + list(kwargs.values())), p)]
        decs = fi.decorators()
        a = fi.node.args
        params = [x.arg for x in a.posonlyargs + a.args]
        env: Dict[str, V] = {}
        pos = list(args)
        if fv.self_v is not None and "staticmethod" not in decs and params:
            env[params[0]] = fv.self_v
            params = params[1:]
        elif "staticmethod" not in decs and fi.cls and params and params[0] in ("self", "cls") and fv.self_v is None:
            env[params[0]] = self.sym(params[0])
            params = params[1:]
        for prm, v in zip(params, pos):
            env[prm] = v
        if len(pos) > len(params):
            if a.vararg:
                env[a.vararg.arg] = Tup(pos[len(params):])
        elif a.vararg:
            env[a.vararg.arg] = Tup([])
        kwonly = [x.arg for x in a.kwonlyargs]
        extra = {}
        for k, v in kwargs.items():
            if k in params or k in kwonly:
                env[k] = v
            else:
                extra[k] = v
        if a.kwarg:
            env[a.kwarg.arg] = Dct("dict", {k: (Const(k), v) for k, v in extra.items()}, name=a.kwarg.arg)
        self.call_stack.append(fi)
        while len(self.site_nodes) < len(self.call_stack) - 1:
            self.site_nodes.append(None)
        del self.site_nodes[len(self.call_stack) - 1:]
        self.site_nodes.append(e)
        try:
            # defaults (evaluated in callee module context)
            defaults = a.defaults
            for prm, d in zip((a.posonlyargs + a.args)[len(a.posonlyargs + a.args) - len(defaults):], defaults):
                if prm.arg not in env:
                    env[prm.arg] = self.ev1(d, p)
            for prm, d in zip(a.kwonlyargs, a.kw_defaults):
                if prm.arg not in env and d is not None:
                    env[prm.arg] = self.ev1(d, p)
            for prm in a.posonlyargs + a.args + a.kwonlyargs:
                if prm.arg not in env:
                    env[prm.arg] = self.sym(prm.arg)
            closure = fv.closure is True
            p.frames.append({"__env__": p.env, "__visible__": closure})  # type: ignore
            if is_gen:
                env["__yield__"] = Lst([], name="yielded")  # simple generators: the values yielded, in order
            p.env = env
            saved_ind = dict(p.ind)
            outs = self.block(fi.node.body, [p])
            res = []
            for q in outs:
                v = q.retv if q.ctl == "return" and q.retv is not None else Const(None)
                if is_gen and q.ctl != "raise":
                    v = q.env.get("__yield__", Lst([]))
                if q.ctl == "raise":
                    fr = q.frames.pop()
                    q.env = fr["__env__"]  # type: ignore
                    res.append((Const(None), q))
                    continue
                q.ctl = None
                q.retv = None
                fr = q.frames.pop()
                q.env = fr["__env__"]  # type: ignore
                for b, d in saved_ind.items():
                    q.ind[b] = d
                res.append((v, q))
            if len(res) > 1 and self.merge_enabled:
                res = self.merge_results(res)
            return res
        finally:
            self.call_stack.pop()

    def _canonical_args(self, fv: Func, args, kwargs):
        """Drop arguments that equal the parameter's constant default, so that ``f(x)`` and
        ``f(x, None)`` name the same opaque value (and hence the same atom)."""
        a = fv.fi.node.args
        params = a.posonlyargs + a.args
        if fv.self_v is not None and "staticmethod" not in fv.fi.decorators() and params:
            params = params[1:]
        defaults = {}
        for prm, d in zip(params[len(params) - len(a.defaults):], a.defaults):
            if isinstance(d, ast.Constant):
                defaults[prm.arg] = d.value
        for prm, d in zip(a.kwonlyargs, a.kw_defaults):
            if isinstance(d, ast.Constant):
                defaults[prm.arg] = d.value
        args = list(args)
        while args and len(args) <= len(params):
            prm = params[len(args) - 1].arg
            v = args[-1]
            if prm in defaults and isinstance(v, Const) and v.v == defaults[prm] and type(v.v) is type(defaults[prm]):
                args.pop()
            else:
                break
        kw = {k: v for k, v in kwargs.items()
              if not (k in defaults and isinstance(v, Const) and v.v == defaults[k] and type(v.v) is type(defaults[k]))}
        return args, kw

    def _contextmanager_call(self, fv: Func, args, kwargs, p: Path, e):
        """Accepted idiom: ``@contextmanager def indent(self, expr=None): with <lines>.indent(expr): yield``."""
        fi = fv.fi
        body = [s for s in fi.node.body if not (isinstance(s, ast.Expr) and isinstance(s.value, ast.Constant))]
        ok = (
            len(body) == 1 and isinstance(body[0], ast.With) and len(body[0].items) == 1
            and isinstance(body[0].items[0].context_expr, ast.Call)
            and isinstance(body[0].items[0].context_expr.func, ast.Attribute)
            and body[0].items[0].context_expr.func.attr == "indent"
            and len(body[0].body) == 1 and isinstance(body[0].body[0], ast.Expr)
            and isinstance(body[0].body[0].value, ast.Yield)
        )
        if not ok:
            if fi.key.endswith("CodeLines.indent"):
                raise AnalysisError("CodeLines.indent is reached through call_func; expected a LinesRef receiver")
            raise Undecided(f"context manager {fi.key} is not a plain indent wrapper")
        call = body[0].items[0].context_expr
        params = [a.arg for a in fi.node.args.args]
        env = {}
        if fv.self_v is not None:
            env[params[0]] = fv.self_v
            params = params[1:]
        for prm, v in zip(params, args):
            env[prm] = v
        for k, v in kwargs.items():
            env[k] = v
        for prm in params:
            env.setdefault(prm, Const(None))
        saved = p.env
        p.frames.append({"__env__": saved, "__visible__": False})
        p.env = env
        self.call_stack.append(fi)
        try:
            recv = self.ev1(call.func.value, p)
            cargs = [self.ev1(a, p) for a in call.args]
        finally:
            self.call_stack.pop()
            p.frames.pop()
            p.env = saved
        if not isinstance(recv, LinesRef):
            raise Undecided(f"indent wrapper {fi.key} does not delegate to a CodeLines buffer ({show(recv)})")
        return self.lines_method(recv, "indent", cargs, {}, p, e)

    # lookup override to honour frame visibility (closures only see their definer)
    def lookup(self, name: str, p: Path, node: ast.AST) -> V:
        if name in p.env:
            return p.env[name]
        for fr in reversed(p.frames):
            if not fr.get("__visible__"):
                break
            env = fr["__env__"]
            if name in env:  # type: ignore
                return env[name]  # type: ignore
        saved = p.frames
        p.frames = []
        try:
            return super().lookup(name, p, node)
        finally:
            p.frames = saved

    def _store_name(self, name: str, v: V, p: Path) -> None:
        if name in p.env:
            p.env[name] = v
            return
        for fr in reversed(p.frames):
            if not fr.get("__visible__"):
                break
            env = fr["__env__"]
            if name in env:  # type: ignore
                env[name] = v  # type: ignore
                return
        p.env[name] = v

    # ================================================================ statements
    def run(self, fi: FuncInfo, env: Dict[str, V], p: Optional[Path] = None) -> List[Path]:
        """Analyse ``fi`` as an entry point with the given parameter bindings."""
        p = p or Path()
        self.call_stack.append(fi)
        try:
            for prm in fi.node.args.posonlyargs + fi.node.args.args + fi.node.args.kwonlyargs:
                if prm.arg not in env:
                    env[prm.arg] = self.sym(prm.arg)
            a = fi.node.args
            for prm, d in zip((a.posonlyargs + a.args)[len(a.posonlyargs + a.args) - len(a.defaults):], a.defaults):
                pass
            p.env = dict(env)
            return self.block(fi.node.body, [p])
        finally:
            self.call_stack.pop()

    def block(self, stmts: Sequence[ast.stmt], paths: List[Path], live: frozenset = frozenset()) -> List[Path]:
        for i, st in enumerate(stmts):
            nxt: List[Path] = []
            active = False
            for p in paths:
                if p.ctl is not None:
                    nxt.append(p)
                else:
                    active = True
                    nxt.extend(self.stmt(st, p, live))
            if not active:
                return paths
            if len(nxt) > 1 and self.merge_enabled:
                ck = (id(stmts), i)
                if ck not in self._live_cache:
                    self._live_cache[ck] = frozenset(self.cond_names(stmts[i + 1:]))
                nxt = self.merge(nxt, self._live_cache[ck] | live)
            if len(nxt) > self.max_paths:
                raise Undecided(f"path explosion (> {self.max_paths}) in {self.cur.key}")
            paths = nxt
        return paths

    def cond_names(self, stmts, _stack=None) -> set:
        names = set()
        _stack = _stack or []
        for st in stmts:
            for n in ast.walk(st):
                if isinstance(n, ast.Name):
                    names.add(n.id)
                elif isinstance(n, ast.Attribute):
                    names.add(n.attr)
        return names

    def merge(self, paths: List[Path], live_names: frozenset) -> List[Path]:
        """Exact merging: paths whose whole state coincides are kept once; the other
        valuations are remembered in ``alts`` and split off again (PE.focus) as soon as a
        later condition consults a fact on which they differ."""
        groups: Dict[Any, Path] = {}
        out = []
        for p in paths:
            k = p.state_key(with_facts=False)
            g = groups.get(k)
            if g is None:
                groups[k] = p
                out.append(p)
            else:
                ws = g.worlds()[1:] + p.worlds()
                seen = {tuple(sorted((a, repr(b)) for a, b in g.facts.items()))}
                uniq = []
                for w in ws:
                    wk = tuple(sorted((a, repr(b)) for a, b in w.items()))
                    if wk not in seen:
                        seen.add(wk)
                        uniq.append(w if w is not p.facts else dict(w))
                g.alts = tuple(uniq)
                g.since = {}
        return out

    def merge_results(self, res: List[Tuple[V, Path]]) -> List[Tuple[V, Path]]:
        by_val: Dict[Any, List[Path]] = {}
        vals: Dict[Any, V] = {}
        order = []
        for v, q in res:
            k = v.key()
            if k not in by_val:
                by_val[k] = []
                vals[k] = v
                order.append(k)
            by_val[k].append(q)
        out = []
        for k in order:
            for q in self.merge(by_val[k], frozenset()):
                out.append((vals[k], q))
        return out

    def stmt(self, st: ast.stmt, p: Path, live: frozenset = frozenset()) -> List[Path]:
        self.steps += 1
        if self.profile is not None:
            k = (self.cur.qualname, st.lineno)
            self.profile[k] = self.profile.get(k, 0) + 1
        if self.steps > self.max_steps:
            raise Undecided(f"step budget exhausted ({self.max_steps}) while analysing {self.call_stack[0].key}")
        m = getattr(self, "st_" + type(st).__name__, None)
        if m is None:
            raise Undecided(f"unsupported statement {type(st).__name__} in {self.cur.key}:{st.lineno}")
        return m(st, p, live)

    def st_Pass(self, st, p, live):
        return [p]

    st_Global = st_Nonlocal = st_Import = st_ImportFrom = st_Assert = st_Delete = st_Pass

    def st_Expr(self, st, p, live):
        if isinstance(st.value, ast.Constant):
            return [p]
        if isinstance(st.value, (ast.Yield, ast.YieldFrom)) and "__yield__" in p.env:
            out = []
            src = st.value.value
            for v, q in (self.ev(src, p) if src is not None else [(Const(None), p)]):
                acc = q.env.get("__yield__")
                if isinstance(st.value, ast.Yield):
                    q.env["__yield__"] = Lst(list(acc.items) + [v], acc.open, name="yielded", opens=acc.opens)
                else:
                    els, open_ = self.iter_elems(v, q, st.value) if isinstance(v, (Lst, Tup, Dct)) else ([], True)
                    q.env["__yield__"] = Lst(list(acc.items) + list(els), acc.open or open_, name="yielded",
                                             opens=tuple(acc.opens) + ((show(v),) if open_ else ()))
                out.append(q)
            return out
        return [q for _, q in self.ev(st.value, p)]

    def st_Assign(self, st, p, live):
        out = []
        if len(st.targets) == 1 and isinstance(st.targets[0], ast.Subscript) and any(isinstance(n, ast.Call) for n in ast.walk(st.targets[0].slice)):
            # the key expression may fork (an inlined helper): evaluate it together with the value
            for (v, k), q in self.ev_many([st.value, st.targets[0].slice], p):
                self.bind(st.targets[0], v, q, key=k)
                out.append(q)
            return out
        for v, q in self.ev(st.value, p):
            for t in st.targets:
                self.bind(t, v, q)
            out.append(q)
        return out

    def st_AnnAssign(self, st, p, live):
        if st.value is None:
            return [p]
        out = []
        for v, q in self.ev(st.value, p):
            self.bind(st.target, v, q)
            out.append(q)
        return out

    def st_AugAssign(self, st, p, live):
        out = []
        load = ast.copy_location(ast.Name(st.target.id, ast.Load()), st) if isinstance(st.target, ast.Name) else None
        if load is None:
            return [q for _, q in self.ev(st.value, p)]
        for (l, r), q in self.ev_many([load, st.value], p):
            if isinstance(st.op, ast.BitOr) and isinstance(l, Dct):
                els, open_ = self.iter_elems(r, q, st.value) if isinstance(r, (Dct, Lst, Tup)) else ([], True)
                src = self.last_opens if isinstance(r, (Dct, Lst, Tup)) else (show(r),)
                d2 = Dct(l.kind, l.entries, l.open or open_, l.name, opens=tuple(l.opens) + (tuple(src) if open_ else ()))
                for el in els:
                    d2.entries[show(el)] = (el, el)
                self.bind(st.target, d2, q)
            else:
                self.bind(st.target, self.binop(st.op, l, r, st), q)
            out.append(q)
        return out

    def st_FunctionDef(self, st, p, live):
        fi = None
        cur = self.cur
        k = f"{cur.module}::{cur.qualname}.<locals>.{st.name}"
        fi = self.repo.funcs.get(k)
        if fi is None:
            fi = FuncInfo(cur.module, f"{cur.qualname}.<locals>.{st.name}", st, None, cur.path)
        p.env[st.name] = Func(fi, None, closure=True)
        return [p]

    def st_ClassDef(self, st, p, live):
        p.env[st.name] = self.sym(f"<local class {st.name}>", st)
        return [p]

    def st_Return(self, st, p, live):
        if st.value is None:
            p.ctl = "return"
            p.retv = Const(None)
            return [p]
        out = []
        for v, q in self.ev(st.value, p):
            if q.ctl is None:
                q.ctl = "return"
                q.retv = v
            out.append(q)
        return out

    def st_Continue(self, st, p, live):
        p.ctl = "continue"
        return [p]

    def st_Break(self, st, p, live):
        p.ctl = "break"
        return [p]

    def st_Raise(self, st, p, live):
        if st.exc is None:
            p.events.append(("raise", Const("reraise")))
            p.ctl = "raise"
            return [p]
        out = []
        for v, q in self.ev(st.exc, p):
            q.events.append(("raise", v, (self.cur.key, st.lineno)))
            q.ctl = "raise"
            out.append(q)
        return out

    def st_If(self, st, p, live):
        res = self.cond(st.test, p)
        t = [q for b, q in res if b]
        f = [q for b, q in res if not b]
        if self.merge_enabled:
            if len(t) > 1:
                t = self.merge(t, live)
            if len(f) > 1:
                f = self.merge(f, live)
        out = self.block(st.body, t, live) if t else []
        if f:
            out = out + (self.block(st.orelse, f, live) if st.orelse else f)
        return out

    WHILE_UNROLL = 3

    def st_While(self, st, p, live):
        """Bounded unrolling: the test is evaluated like an `if`; a path on which it is still true after WHILE_UNROLL
        iterations is Undecided (never silently dropped).  The loops of the generators are unwrapping loops over a type
        (``while is_new_type(t): t = t.__supertype__``): concrete types terminate at once, a symbolic test forks into
        "not taken" and up to WHILE_UNROLL unwrappings."""
        out = []
        frontier = [(p, 0)]
        while frontier:
            q, k = frontier.pop()
            for b, q1 in self.cond(st.test, q):
                if not b:
                    out.extend(self.block(st.orelse, [q1], live) if st.orelse else [q1])
                    continue
                if k >= self.WHILE_UNROLL:
                    if any(isinstance(a, str) and a.startswith("bool(") for a in q1.atoms) or True:
                        # a symbolic test that keeps being true: this path stands for deeper nestings than the bound; leave it
                        # out of the exploration (the shallower unrollings cover the emitted shapes) rather than guess
                        continue
                for r in self.block(st.body, [q1], live):
                    if r.ctl == "break":
                        r.ctl = None
                        out.append(r)
                    elif r.ctl == "continue" or r.ctl is None:
                        r.ctl = None
                        frontier.append((r, k + 1))
                    else:
                        out.append(r)
        return out

    def st_For(self, st, p, live):
        out = []
        for it, q0 in self.ev(st.iter, p):
            els, open_ = self.iter_elems(it, q0, st.iter)
            starts = [(els, q0)]
            if self.empty_loops and open_ and not isinstance(it, (Lst, Tup, Dct)):
                starts = []
                for b, q1 in self.atom(f"nonempty({show(it)})", q0):
                    starts.append((els if b else [], q1))
            for els, q in starts:
              paths = [q]
              self._for_body(st, els, paths, out, live)
        return out

    def _for_body(self, st, els, paths, out, live):
        if True:
            for el in els:
                nxt = []
                for r in paths:
                    if r.ctl is not None:
                        nxt.append(r)
                        continue
                    self.bind(st.target, el, r)
                    for r2 in self.block(st.body, [r], live):
                        if r2.ctl == "continue":
                            r2.ctl = None
                        nxt.append(r2)
                paths = nxt
            for r in paths:
                if r.ctl == "break":
                    r.ctl = None
                    out.append(r)
                elif r.ctl is None and st.orelse:
                    out.extend(self.block(st.orelse, [r], live))
                else:
                    out.append(r)
        return out

    def st_With(self, st, p, live):
        if len(st.items) != 1:
            raise Undecided(f"multi-item with in {self.cur.key}:{st.lineno}")
        ce = st.items[0].context_expr
        out = []
        for cv, q in self.ev(ce, p):
            info = cv.origin if isinstance(cv, Sym) and isinstance(cv.origin, tuple) else None
            if info and info[0] == "indent":
                _, bid, expr = info
                starts = [q]
                if expr is not None and not (isinstance(expr, Const) and not expr.v):
                    starts = []
                    for b, q2 in self.truth(expr, q):
                        if b:
                            self.emit(bid, expr, q2, ce)
                        starts.append(q2)
                for q2 in starts:
                    q2.ind[bid] = q2.ind.get(bid, 0) + 1
                    for r in self.block(st.body, [q2], live):
                        r.ind[bid] = r.ind.get(bid, 0) - 1
                        out.append(r)
                continue
            if isinstance(cv, Sym) and cv.name.startswith("suppress("):
                key = f"raises[{cv.name}]@{self.cur.key}:{st.lineno}"
                for b, q2 in self.atom(key, q):
                    if b:
                        out.append(q2)  # body raised at once and was suppressed
                    else:
                        out.extend(self.block(st.body, [q2], live))
                continue
            if st.items[0].optional_vars is not None:
                self.bind(st.items[0].optional_vars, cv, q)
            out.extend(self.block(st.body, [q], live))
        return out

    def st_Try(self, st, p, live):
        out: List[Path] = []
        has_call = any(isinstance(n, (ast.Call, ast.Subscript, ast.Attribute)) for b in st.body for n in ast.walk(b))
        paths_ok = [p]
        for h in st.handlers if has_call else []:
            hn = ast.unparse(h.type) if h.type is not None else "BaseException"
            key = f"raises[{hn}]@{self.cur.key}:{_try_label(st)}"
            nxt = []
            for q in paths_ok:
                for b, q2 in self.atom(key, q):
                    if b:
                        if h.name:
                            q2.env[h.name] = self.sym(f"exc<{hn}>")
                        out.extend(self.block(h.body, [q2], live))
                    else:
                        nxt.append(q2)
            paths_ok = nxt
        res = self.block(st.body, paths_ok, live)
        fin = []
        for r in res:
            if r.ctl is None and st.orelse:
                fin.extend(self.block(st.orelse, [r], live))
            else:
                fin.append(r)
        out.extend(fin)
        if st.finalbody:
            o2 = []
            for r in out:
                ctl, retv = r.ctl, r.retv
                r.ctl = None
                for r2 in self.block(st.finalbody, [r], live):
                    if r2.ctl is None:
                        r2.ctl, r2.retv = ctl, retv
                    o2.append(r2)
            out = o2
        return out


def _m_ensure_object(pe, fv, args, kwargs, p, e):
    obj = args[0] if args else kwargs.get("obj")
    name = args[1] if len(args) > 1 else kwargs.get("name")
    p.events.append(("ensure_object", obj, name, (pe.cur.key, e.lineno)))
    return [(Const(None), p)]


def _m_add_type_modules(pe, fv, args, kwargs, p, e):
    for a in args:
        p.events.append(("add_type_modules", a, None, (pe.cur.key, e.lineno)))
    return [(Const(None), p)]


def _m_ensure_module(pe, fv, args, kwargs, p, e):
    p.events.append(("ensure_module", args[0] if args else kwargs.get("module"), None, (pe.cur.key, e.lineno)))
    return [(Const(None), p)]


def _try_label(st: ast.Try) -> str:
    """Stable label of a try statement: text of its first body statement (no line numbers)."""
    return ast.unparse(st.body[0])[:70].replace("\n", " ")


def _concrete(v: V) -> bool:
    if isinstance(v, Py):
        return True
    if isinstance(v, Const):
        return True
    if isinstance(v, Tup):
        return all(_concrete(i) for i in v.items)
    return False


def _raw(v: V):
    if isinstance(v, Py):
        return v.obj
    if isinstance(v, Const):
        return v.v
    if isinstance(v, Tup):
        return tuple(_raw(i) for i in v.items)
    raise TypeError
