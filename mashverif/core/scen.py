"""Scenario helpers shared by the property checks: hole-kind tagger (E3), symbolic
``ValueSpec``/builder objects, and the standard explorations of the generator modules."""

from __future__ import annotations

import ast
from typing import Any, Dict, Iterable, List, Optional, Sequence, Tuple

from .pe import BUILDER_CLS, Path
from .pe_exec import Evaluator
from .srcmodel import (
    AnalysisError, FuncInfo, M_BUILDER, M_CODEC_BUILDER, M_COMMON, M_PACK, M_UNPACK, Repo, Undecided,
)
from .values import ClsRef, Const, Dct, Func, Hole, LinesRef, Lst, Obj, Py, Sym, Tmpl, Tup, V, show

# --------------------------------------------------------------------------- hole kinds (E3)
# sources: one line of reason each
IDENT_MAKERS = {
    "clean_id": "regex-sanitised to [A-Za-z0-9_]",
    "random_hex": "uuid4().hex",
    "hash_type_args": "hex digest of type arguments",
    "get_pack_method_name": "InternalMethodName built from format name + hash",
    "get_unpack_method_name": "InternalMethodName built from format name + hash",
    "from_public": "InternalMethodName",
    "id": "integer",
    "_generate_method_name": "library-made helper name",
    "_get_variants_attr": "library-made attribute name",
}


def tagger(s: Sym, node: Any, inherit: Sequence[V]) -> Optional[set]:
    name = s.name
    inh = set()
    for v in inherit:
        inh |= set(v.tags)
    if isinstance(node, ast.Call):
        f = node.func
        fn = f.attr if isinstance(f, ast.Attribute) else (f.id if isinstance(f, ast.Name) else "")
        a0 = node.args[0] if node.args else None
        if fn == "get" and isinstance(a0, ast.Constant) and a0.value == "alias":
            return {"RAW", "OPTIONAL", "ALIAS_META"}
        if fn == "get" and isinstance(f, ast.Attribute) and isinstance(f.value, ast.Attribute) and f.value.attr == "aliases":
            return {"RAW", "OPTIONAL", "ALIAS_CFG"}
        if fn == "__get_field_alias":
            return {"!RESET", "RAW", "OPTIONAL", "ALIAS"}
        if fn in IDENT_MAKERS:
            return {"!RESET", "IDENT"}
        if fn == "get_type_name_identifier":
            return {"!RESET", "TYPEREF_ID"}
        if fn == "type_name":
            return {"!RESET", "TYPEREF_RAW"}
        if fn == "get_field_default_literal":
            return {"!RESET", "DEFAULT_LITERAL"}
        if fn == "get_literal_values":
            return {"LITERAL"}
        if fn == "get_type_annotations":
            return {"ANNOTATIONS"}
        if fn == "getattr" and len(node.args) >= 2 and isinstance(node.args[1], ast.Constant):
            c = node.args[1].value
            if c in ("__required_keys__", "__optional_keys__", "__annotations__"):
                return {"RAW", "TDKEY"}
            if c == "_fields":
                return {"!RESET", "FIELDNAME"}
            if c in ("__constraints__", "__bound__"):
                return {"!RESET", "TYPE"}
        if fn in ("get_field_types",):
            return {"FIELDS"}
        if fn in ("get_pack_method_flags", "get_unpack_method_flags", "get_pack_method_default_flag_values",
                  "get_unpack_method_default_flag_values"):
            return {"!RESET", "CODE"}
        if fn in ("type", "len", "enumerate", "isinstance", "issubclass", "is_generic", "hasattr"):
            return {"!RESET"}
    if name.startswith("type_name(") and "TYPEREF_RAW" not in s.tags:
        return {"!RESET", "TYPEREF_RAW"}
    if isinstance(node, ast.Attribute):
        if node.attr == "name" and "ANNOTATIONS" in inh:
            return {"!RESET", "RAW", "OPTIONAL", "ALIAS_ANN"}
        if node.attr == "field" and ("discr" in name.lower()):
            return {"!RESET", "RAW", "OPTIONAL", "DISCR"}
        if node.attr in ("__name__", "__qualname__"):
            return {"!RESET", "CLASSNAME"}
        if node.attr in ("__annotations__", "__required_keys__", "__optional_keys__"):
            return {"RAW", "TDKEY"}
        if node.attr == "name" and "LITERAL" in inh:
            return {"!RESET", "ENUMNAME"}
        if node.attr == "hex":
            return {"!RESET", "IDENT"}
        if node.attr == "__supertype__" or node.attr == "__value__":
            return {"!RESET", "TYPE"}
    if isinstance(node, (ast.DictComp, ast.ListComp, ast.SetComp, ast.GeneratorExp)):
        txt = ast.unparse(node)
        if "__annotations__" in txt:
            return {"RAW", "TDKEY"}
    return None


# --------------------------------------------------------------------------- evaluator factory
def _m_copy(pe: Evaluator, recv, args, kwargs, p: Path, e):
    """``spec.copy(**changes)`` / ``field_ctx.copy(**changes)`` = dataclasses.replace (checked)."""
    if not isinstance(recv, Obj):
        return None
    ci = pe.repo.classes.get(recv.cls)
    if ci is None or ci.name not in ("ValueSpec", "FieldContext"):
        return None
    fi = pe.repo.method(ci, "copy")
    if fi is None:
        raise AnalysisError(f"{ci.name}.copy vanished")
    body = [s for s in fi.node.body if not (isinstance(s, ast.Expr) and isinstance(s.value, ast.Constant))]
    if len(body) != 1 or ast.unparse(body[0]) != "return replace(self, **changes)":
        raise Undecided(f"{ci.name}.copy is no longer dataclasses.replace(self, **changes)")
    attrs = dict(p.heap.get(recv.oid, {}))
    attrs.update(kwargs)
    if "type" in kwargs and ci.name == "ValueSpec":
        attrs["origin_type"] = _origin_of(pe, kwargs["type"])
    o = pe.new_obj(p, recv.cls, attrs)
    return [(o, p)]


def _origin_of(pe, t: V) -> V:
    if isinstance(t, Py):
        import typing

        try:
            o = typing.get_origin(t.obj) or t.obj
            return Py(o, getattr(o, "__name__", repr(o)))
        except Exception:
            pass
    return Sym(f"origin({show(t)})", {"TYPE"})


def _m_new_valuespec(pe: Evaluator, ci, args, kwargs, p: Path, e):
    attrs = {
        "could_be_none": Const(True), "annotated_type": Const(None), "owner": Const(None),
        "no_copy_collections": Tup([]),
    }
    names = ["type", "expression", "builder", "field_ctx", "could_be_none", "annotated_type", "owner", "no_copy_collections"]
    for n, a in zip(names, args):
        attrs[n] = a
    attrs.update(kwargs)
    if "type" in attrs:
        attrs["origin_type"] = _origin_of(pe, attrs["type"])
    return [(pe.new_obj(p, ci.key, attrs), p)]


def _m_new_tme(pe: Evaluator, ci, args, kwargs, p: Path, e):
    """``TypeMatchEligibleExpression(text)`` is a ``str`` subclass: the value is the text itself."""
    v = args[0] if args else Const("")
    p.events.append(("type_match_eligible", v))
    return [(v, p)]


def is_type_match_eligible(p: Path, v: V) -> bool:
    k = v.key()
    return any(e[0] == "type_match_eligible" and e[1].key() == k for e in p.events)


def make_eval(repo: Repo, **kw) -> Evaluator:
    models = dict(kw.pop("models", {}) or {})
    models.setdefault("new:TypeMatchEligibleExpression", _m_new_tme)
    models.setdefault("new:InternalMethodName", lambda pe, ci, args, kwargs, p, e: [(args[0] if args else Const(""), p)])
    models.setdefault("method:copy", _m_copy)
    models.setdefault("new:ValueSpec", _m_new_valuespec)
    kw.setdefault("tagger", tagger)
    ev = Evaluator(repo, models=models, **kw)
    return ev


def symbolic_spec(ev: Evaluator, p: Path, expression: Optional[V] = None, **over) -> Obj:
    B = ev.builder_obj(p)
    fc = ev.new_obj(p, f"{M_COMMON}::FieldContext", {
        "name": Sym("spec.field_ctx.name", {"FIELDNAME"}),
        "metadata": Sym("spec.field_ctx.metadata"),
        "packer": Sym("spec.field_ctx.packer", {"CODE"}),
        "unpacker": Sym("spec.field_ctx.unpacker", {"CODE"}),
    }, oid="field_ctx")
    attrs: Dict[str, V] = {
        "type": Sym("spec.type", {"TYPE"}),
        "origin_type": Sym("spec.origin_type", {"TYPE"}),
        "expression": expression if expression is not None else Sym("spec.expression", {"CODE", "EXPR"}),
        "builder": B,
        "field_ctx": fc,
        "could_be_none": Sym("spec.could_be_none"),
        "annotated_type": Sym("spec.annotated_type", {"TYPE"}),
        "owner": Sym("spec.owner", {"TYPE"}),
        "no_copy_collections": Sym("spec.no_copy_collections"),
    }
    attrs.update(over)
    return ev.new_obj(p, f"{M_COMMON}::ValueSpec", attrs, oid="spec")


# --------------------------------------------------------------------------- emission-site census
EMIT_ATTRS = {"append", "add_line", "indent"}  # extend() only splices already-emitted lines


def lines_receivers(fi: FuncInfo) -> set:
    """Names that hold a CodeLines buffer (or a builder that wraps one) inside ``fi``."""
    names = {"self.lines", "lines", "orig_lines"}
    for n in ast.walk(fi.node):
        if isinstance(n, ast.Assign) and isinstance(n.value, ast.Call) and ast.unparse(n.value.func) == "CodeLines":
            for t in n.targets:
                names.add(ast.unparse(t))
        if isinstance(n, ast.Assign) and isinstance(n.value, ast.Name) and n.value.id in names:
            for t in n.targets:
                names.add(ast.unparse(t))
    for a in fi.node.args.args + fi.node.args.kwonlyargs:
        if a.annotation is not None and "CodeLines" in ast.unparse(a.annotation):
            names.add(a.arg)
    return names


def emission_sites(repo: Repo, modules: Iterable[str]) -> Dict[Tuple[str, int], str]:
    """All syntactic emission call sites: (function key, line) -> source text."""
    out = {}
    for m in modules:
        for fi in repo.module_funcs(m):
            if fi.module.endswith(".lines"):
                continue
            recv_names = lines_receivers(fi)
            is_builder_method = fi.cls in ("CodeBuilder", "CodecCodeBuilder", "FieldUnpackerCodeBlockBuilder")
            from .srcmodel import walk_no_nested

            for n in walk_no_nested(fi.node):
                if not (isinstance(n, ast.Call) and isinstance(n.func, ast.Attribute) and n.func.attr in EMIT_ATTRS):
                    continue
                r = ast.unparse(n.func.value)
                ok = r in recv_names or (is_builder_method and r == "self" and n.func.attr in ("add_line", "indent"))
                if r in ("spec.builder", "self.parent") and n.func.attr in ("add_line", "indent"):
                    ok = True
                if not ok:
                    continue
                if n.func.attr == "indent" and not n.args:
                    continue  # indentation only, emits no text
                if fi.node.name in ("add_line", "indent") and fi.cls:
                    continue  # the wrappers themselves
                out[(fi.key, n.lineno)] = ast.unparse(n)[:120]
    return out
