"""Abstract values of the generator partial evaluator (E4)."""

from __future__ import annotations

from typing import Any, Dict, FrozenSet, Iterable, List, Optional, Tuple


class V:
    __slots__ = ()
    tags: FrozenSet[str] = frozenset()

    def key(self):  # structural key used for state merging
        raise NotImplementedError


class Const(V):
    __slots__ = ("v",)

    def __init__(self, v: Any):
        self.v = v

    def key(self):
        return ("C", type(self.v).__name__, repr(self.v))

    def __repr__(self):
        return f"Const({self.v!r})"


class Py(V):
    """A real object of the analysing interpreter's *standard library* (never a repo object)."""

    __slots__ = ("obj", "name")

    def __init__(self, obj: Any, name: str = ""):
        self.obj = obj
        self.name = name or getattr(obj, "__qualname__", repr(obj))

    def key(self):
        return ("Py", self.name, id(self.obj))

    def __repr__(self):
        return f"Py({self.name})"


class Sym(V):
    """Opaque symbolic value, named by the normalised expression that produced it."""

    __slots__ = ("name", "tags", "origin")

    def __init__(self, name: str, tags: Iterable[str] = (), origin: Any = None):
        self.name = name
        self.tags = frozenset(tags)
        self.origin = origin

    def key(self):
        return ("S", self.name)

    def __repr__(self):
        t = f" {sorted(self.tags)}" if self.tags else ""
        return f"Sym({self.name}{t})"


class Hole:
    """A hole of a template.  ``more`` marks "zero or more further elements of the same shape"
    at the end of a join over a partly known sequence (renders as nothing)."""

    __slots__ = ("val", "conv", "more", "sep")

    def __init__(self, val: V, conv: str = "", more: bool = False, sep: str = ""):
        self.val = val
        self.conv = conv  # '' | 'r' | 's' | 'a'
        self.more = more
        self.sep = sep

    def key(self):
        return ("H", self.conv, self.more, self.val.key())

    def __repr__(self):
        return f"Hole({self.val!r}{'!' + self.conv if self.conv else ''})"


class Tmpl(V):
    """String template: literal chunks interleaved with holes."""

    __slots__ = ("parts",)

    def __init__(self, parts: Iterable[Any]):
        m: List[Any] = []
        for q in parts:
            if isinstance(q, str):
                if not q:
                    continue
                if m and isinstance(m[-1], str):
                    m[-1] += q
                else:
                    m.append(q)
            else:
                m.append(q)
        self.parts = tuple(m)

    @property
    def tags(self):
        out = set()
        for p in self.parts:
            if isinstance(p, Hole):
                t = set(p.val.tags)
                if p.conv == "r":  # repr() is the sanitiser: the text is a literal of the value
                    t -= {"RAW", "LITERAL", "OPTIONAL"}
                    t.add("REPR")
                out |= t
        return frozenset(out)

    def skeleton(self) -> str:
        """Literal chunks with anonymous holes -- a line-number- and name-independent key."""
        return "".join(p if isinstance(p, str) else ("{...}" if p.more else ("{!r}" if p.conv == "r" else "{}")) for p in self.parts)

    def holes(self) -> List[Hole]:
        return [p for p in self.parts if isinstance(p, Hole)]

    def is_literal(self) -> bool:
        return all(isinstance(p, str) for p in self.parts)

    def literal(self) -> str:
        return "".join(p for p in self.parts if isinstance(p, str))

    def key(self):
        return ("T",) + tuple(p if isinstance(p, str) else p.key() for p in self.parts)

    def show(self) -> str:
        out = []
        for p in self.parts:
            if isinstance(p, str):
                out.append(p)
            else:
                out.append("{" + show(p.val) + ("!" + p.conv if p.conv else "") + "}")
        return "".join(out)

    def __repr__(self):
        return f"Tmpl({self.show()!r})"


class Tup(V):
    __slots__ = ("items",)

    def __init__(self, items: Iterable[V]):
        self.items = tuple(items)

    @property
    def tags(self):
        out = set()
        for i in self.items:
            out |= set(i.tags)
        return frozenset(out)

    def key(self):
        return ("Tup",) + tuple(i.key() for i in self.items)

    def __repr__(self):
        return f"Tup({list(self.items)!r})"


class Lst(V):
    """List with known items; ``open`` = may contain further unknown items at the end."""

    __slots__ = ("items", "open", "name", "opens")

    def __init__(self, items: Iterable[V] = (), open: bool = False, name: str = "", opens=()):
        self.items = tuple(items)
        self.open = open
        self.name = name
        self.opens = tuple(opens)  # where the unknown further items come from (provenance texts)

    @property
    def tags(self):
        out = set()
        for i in self.items:
            out |= set(i.tags)
        return frozenset(out)

    def key(self):
        return ("L", self.open, self.opens) + tuple(i.key() for i in self.items)

    def __repr__(self):
        return f"Lst({list(self.items)!r}{'+...' if self.open else ''})"


class Dct(V):
    """Abstract dict/set filled by the analysed code: entries keyed by the key's text."""

    __slots__ = ("kind", "entries", "open", "name", "opens")

    def __init__(self, kind: str, entries=None, open: bool = False, name: str = "", opens=()):
        self.kind = kind  # 'dict' | 'set'
        self.entries: Dict[Any, Tuple[V, V]] = dict(entries or {})  # keytext -> (keyV, valV)
        self.open = open
        self.name = name
        self.opens = tuple(opens)

    def key(self):
        return ("D", self.kind, self.open, self.opens) + tuple(
            (k, kv.key(), vv.key()) for k, (kv, vv) in self.entries.items()
        )

    def __repr__(self):
        return f"Dct({self.kind} {list(self.entries)}{'+...' if self.open else ''})"


class Obj(V):
    """Heap object of an in-repo class (attributes live in the path's heap)."""

    __slots__ = ("cls", "oid")

    def __init__(self, cls: str, oid: str):
        self.cls = cls  # module::Class key or a symbolic role name
        self.oid = oid

    def key(self):
        return ("O", self.cls, self.oid)

    def __repr__(self):
        return f"Obj({self.cls.split('::')[-1]}#{self.oid})"


class LinesRef(V):
    __slots__ = ("bid",)

    def __init__(self, bid: str):
        self.bid = bid

    def key(self):
        return ("Lines", self.bid)

    def __repr__(self):
        return f"Lines({self.bid})"


class Func(V):
    """Reference to an in-repo function (optionally bound)."""

    __slots__ = ("fi", "self_v", "closure")

    def __init__(self, fi, self_v: Optional[V] = None, closure=None):
        self.fi = fi
        self.self_v = self_v
        self.closure = closure

    def key(self):
        return ("F", self.fi.key, self.self_v.key() if self.self_v else None)

    def __repr__(self):
        return f"Func({self.fi.key})"


class ClsRef(V):
    __slots__ = ("ci",)

    def __init__(self, ci):
        self.ci = ci

    def key(self):
        return ("Cls", self.ci.key)

    def __repr__(self):
        return f"ClsRef({self.ci.key})"


def show(v: V) -> str:
    if isinstance(v, Const):
        return v.v if isinstance(v.v, str) else repr(v.v)
    if isinstance(v, Tmpl):
        return v.show()
    if isinstance(v, Sym):
        return v.name
    if isinstance(v, Py):
        return v.name
    if isinstance(v, Tup):
        return "(" + ", ".join(show(i) for i in v.items) + ")"
    if isinstance(v, Lst):
        return "[" + ", ".join(show(i) for i in v.items) + (", ..." if v.open else "") + "]"
    if isinstance(v, Dct):
        return (v.name or v.kind) + "{" + ", ".join(str(k) for k in v.entries) + (", ..." if v.open else "") + "}"
    if isinstance(v, Obj):
        import re as _re

        if not _re.fullmatch(r"o\d+", v.oid):
            return v.oid
        return f"<{v.cls.split('::')[-1]}#{v.oid}>"
    if isinstance(v, LinesRef):
        return f"<lines {v.bid}>"
    if isinstance(v, Func):
        return f"<func {v.fi.qualname}>"
    if isinstance(v, ClsRef):
        return v.ci.name
    return "?"


def as_parts(v: V, conv: str = "") -> List[Any]:
    """Parts a value contributes when interpolated into a template."""
    if conv == "":
        if isinstance(v, Const) and isinstance(v.v, str):
            return [v.v]
        if isinstance(v, Const) and isinstance(v.v, (int, bool, type(None), float)):
            return [str(v.v)]
        if isinstance(v, Tmpl):
            return list(v.parts)
    if conv == "r" and isinstance(v, Const) and isinstance(v.v, (str, int, bool, type(None))):
        return [repr(v.v)]
    return [Hole(v, conv)]


def to_tmpl(v: V) -> Tmpl:
    if isinstance(v, Tmpl):
        return v
    return Tmpl(as_parts(v))


def is_stringy(v: V) -> bool:
    return isinstance(v, Tmpl) or (isinstance(v, Const) and isinstance(v.v, str))
