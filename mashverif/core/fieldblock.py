"""Analysis of the per-field deserialisation block (FieldUnpackerCodeBlockBuilder.build).

Enumerates all generator paths of ``build`` (E4), evaluates each emitted block under all
run-time valuations (E5) and compares the outcome with the specification function written
from the statements of C05 / C07 / C09.  Shared by the three property checks.
"""

from __future__ import annotations

import ast
import itertools
import re
from dataclasses import dataclass, field
from typing import Any, Dict, List, Optional, Tuple

from .pe import Path
from .scen import make_eval
from .skeleton import MARK, Rendered, Run, SkelInterp, SkeletonSyntaxError, parse, render
from .srcmodel import AnalysisError, M_BUILDER, Repo, Undecided
from .values import Const, Hole, Obj, Sym, Tmpl, V, show


@dataclass
class Gen:
    """Generator-level facts of one path of build()."""
    has_alias: Optional[bool]
    allow: bool
    has_default: bool
    could_be_none: bool
    default_is_none: bool
    trivial: bool  # the unpacker is the bare input
    triv_unknown: bool = False  # the generator path never looked at triviality: the block must be right either way

    def label(self) -> str:
        return (f"alias={'?' if self.has_alias is None else int(self.has_alias)} allow={int(self.allow)} "
                f"default={int(self.has_default)} nullable={int(self.could_be_none)} "
                f"default_none={int(self.default_is_none)} trivial={int(self.trivial)}{'*' if self.triv_unknown else ''}")


@dataclass
class Mismatch:
    gen: Gen
    valuation: Dict[str, bool]
    expected: str
    actual: str
    clause: str  # 'key' | 'presence' | 'value' | 'exception' | 'wrap' | 'target'
    skeleton: str


@dataclass
class BlockResult:
    paths: int = 0
    skeletons: int = 0
    valuations: int = 0
    checked: int = 0
    mismatches: List[Mismatch] = field(default_factory=list)
    undecided: List[str] = field(default_factory=list)
    samples: List[dict] = field(default_factory=list)
    syntax_errors: List[str] = field(default_factory=list)
    optional_alias_in_key: List[Tuple[str, str]] = field(default_factory=list)  # (skeleton, generator path)
    sentinel_problems: List[str] = field(default_factory=list)
    handler_problems: List[str] = field(default_factory=list)


def explore_build(repo: Repo):
    ev = make_eval(repo, inline_depth=5)
    p = Path()
    B = ev.builder_obj(p)
    lines = ev.new_lines(p)
    o = ev.new_obj(p, f"{M_BUILDER}::FieldUnpackerCodeBlockBuilder", {"parent": B, "lines": lines})
    env = {"self": o, "fname": Sym("fname", {"FIELDNAME"}), "ftype": Sym("ftype", {"TYPE"}),
           "metadata": Sym("metadata"), "alias": Sym("alias", {"RAW", "OPTIONAL", "ALIAS"})}
    fi = repo.func(M_BUILDER, "FieldUnpackerCodeBlockBuilder.build")
    paths = ev.run(fi, env, p)
    return ev, paths, lines.bid


def gen_facts(p: Path) -> Gen:
    at = p.atoms
    idn = p.ident
    exc = p.excl

    def atom(rx):
        for k, v in at.items():
            if re.search(rx, k):
                return v
        return None

    has_alias = None
    if "bool(alias)" in at:
        has_alias = at["bool(alias)"]
    if idn.get("alias") == "None":
        has_alias = False
    elif "None" in exc.get("alias", ()):
        has_alias = True if has_alias is None else has_alias
    allow = bool(atom(r"allow_deserialization_not_by_alias"))
    dkey = next((k for k in list(idn) + list(exc) if "get_field_default" in k), None)
    default_is_missing = idn.get(dkey) == "MISSING" if dkey else False
    default_is_none = idn.get(dkey) == "None" if dkey else False
    if dkey is None:
        raise Undecided("cannot find the field-default identity facts on a build() path")
    has_default = not default_is_missing
    # could_be_none = any of the four disjuncts
    cbn = default_is_none
    for rx in (r"ftype in \(typing\.Any", r"is_type_var_any", r"is_optional"):
        if atom(rx):
            cbn = True
    triv = atom(r"UNPACK\[ftype\]\(value\) == value")
    if triv is None:
        # this path emitted its block without asking whether the unpacker is the bare input: it serves both kinds of field
        return Gen(has_alias, allow, has_default, cbn, default_is_none, False, True)
    return Gen(has_alias, allow, has_default, cbn, default_is_none, bool(triv))


class Roles:
    """Marker roles inside one rendered block."""

    def __init__(self, r: Rendered):
        self.r = r
        self.alias = set()
        self.name = set()
        self.conv = set()
        self.typeref = set()
        for m, h in r.holes.items():
            t = set(h.val.tags)
            if "ALIAS" in t or (isinstance(h.val, Sym) and h.val.name == "alias"):
                self.alias.add(m)
            elif "FIELDNAME" in t:
                self.name.add(m)
            elif "CODE" in t and isinstance(h.val, Sym) and h.val.name.startswith("UNPACK["):
                self.conv.add(m)
            elif "TYPEREF_ID" in t or "TYPEREF_RAW" in t:
                self.typeref.add(m)

    def key_role(self, text: str) -> Optional[str]:
        """'alias' / 'name' for a key expression such as `'_h1_'` or `_h1_`."""
        ms = MARK.findall(text)
        if len(ms) != 1:
            return None
        m = f"_h{ms[0]}_"
        stripped = text.strip().strip("'\"")
        if stripped != m:
            return None
        if m in self.alias:
            return "alias"
        if m in self.name:
            return "name"
        return None


GET_RX = re.compile(r"d\.get\((.+?), MISSING\)")


def analyse(repo: Repo) -> BlockResult:
    res = BlockResult()
    ev, paths, bid = explore_build(repo)
    res.paths = len(paths)
    seen_skel: Dict[str, bool] = {}
    for p in paths:
        if p.ctl == "raise":
            continue
        lines = p.lines(bid)
        try:
            g = gen_facts(p)
        except Undecided as e:
            res.undecided.append(str(e))
            continue
        r = render(lines, wrap=True)
        skel_key = r.src + "|" + g.label()
        if skel_key in seen_skel:
            continue
        seen_skel[skel_key] = True
        res.skeletons += 1
        try:
            tree = parse(r)
        except SkeletonSyntaxError as e:
            res.syntax_errors.append(f"{g.label()}: {e}\n{r.src}")
            continue
        roles = Roles(r)
        # nullness of key holes (C09 R09.3): an OPTIONAL alias rendered as a key although this
        # generator path never established that it is not None
        for m in roles.alias:
            if g.has_alias is None or g.has_alias is False:
                res.optional_alias_in_key.append((r.describe(r.src), g.label()))
        # sentinel rule (C07 R07.1)
        for call in ast.walk(tree):
            if isinstance(call, ast.Call) and isinstance(call.func, ast.Attribute) and call.func.attr == "get" and ast.unparse(call.func.value) == "d":
                if len(call.args) != 2 or ast.unparse(call.args[1]) != "MISSING":
                    res.sentinel_problems.append(r.describe(ast.unparse(call)))
        # handler structure (C05): the conversion of a field is guarded by exactly one catch-all handler that raises
        # InvalidFieldValue for *this* field; any other handler (a re-raise of an inner InvalidFieldValue, a narrower class) lets a
        # failure escape with another culprit or unwrapped
        for tnode in ast.walk(tree):
            if isinstance(tnode, ast.Try):
                hs = tnode.handlers
                ok_h = (len(hs) == 1 and (hs[0].type is None or ast.unparse(hs[0].type) in ("Exception", "BaseException")) and len(hs[0].body) == 1
                        and isinstance(hs[0].body[0], ast.Raise) and hs[0].body[0].exc is not None and ast.unparse(hs[0].body[0].exc).startswith("InvalidFieldValue("))
                if not ok_h:
                    res.handler_problems.append(r.describe("; ".join("except " + (ast.unparse(h.type) if h.type else "") + ": " + " / ".join(ast.unparse(b)[:60] for b in h.body) for h in hs)))
        fn = tree.body[0]
        conv_markers = roles.conv

        def may_raise(text, node, conv_markers=conv_markers):
            return any(m in text for m in conv_markers)

        interp = SkelInterp(may_raise=may_raise)
        try:
            runs = interp.run_body(fn.body)
        except Undecided as e:
            res.undecided.append(f"{g.label()}: {e}")
            continue
        _compare(res, g, r, roles, runs)
        if g.triv_unknown:
            import dataclasses as _dc

            _compare(res, _dc.replace(g, trivial=True), r, roles, runs)
    return res


def _classify_atoms(run: Run, roles: Roles) -> Optional[Dict[str, bool]]:
    """Translate skeleton atoms into specification-level facts; None if an atom is unknown."""
    facts: Dict[str, bool] = {}
    for k, v in run.atoms.items():
        m = re.fullmatch(r"d\.get\((.+), MISSING\) is (MISSING|None)", k)
        if m:
            role = roles.key_role(m.group(1))
            if role is None:
                return None
            if m.group(2) == "MISSING":
                facts[f"{role}_present"] = not v
            else:
                facts[f"{role}_none"] = v
            continue
        if k.startswith("raises["):
            facts["conv_raises"] = v
            continue
        return None
    return facts


def _compare(res: BlockResult, g: Gen, r: Rendered, roles: Roles, runs: List[Run]) -> None:
    skeleton = r.describe(r.src)
    names = ["alias_present", "name_present", "alias_none", "name_none", "conv_raises"]
    classified = []
    for run in runs:
        f = _classify_atoms(run, roles)
        if f is None:
            res.undecided.append(f"{g.label()}: unknown run-time test in block: {list(run.atoms)}")
            return
        classified.append((f, run))
    alias_states = [g.has_alias] if g.has_alias is not None else [True]
    for vals in itertools.product([False, True], repeat=len(names)):
        val = dict(zip(names, vals))
        if not val["alias_present"] and val["alias_none"]:
            continue
        if not val["name_present"] and val["name_none"]:
            continue
        if not g.has_alias and (val["alias_present"] or val["alias_none"]):
            continue  # there is no alias key
        if g.triv_unknown and g.trivial and val["conv_raises"]:
            continue  # the identity conversion cannot raise
        res.valuations += 1
        matching = [run for f, run in classified if all(val.get(k) == v for k, v in f.items())]
        if len(matching) != 1:
            if not matching:
                res.undecided.append(f"{g.label()}: no run of the block matches valuation {val}")
                continue
            # several runs match only if they do not depend on a fact: they must agree
            outs = {(_norm_outcome(m), tuple(_final_stores(m))) for m in matching}
            if len(outs) != 1:
                res.undecided.append(f"{g.label()}: ambiguous runs for valuation {val}")
                continue
        run = matching[0]
        exp = expected(g, val)
        act = actual(g, r, roles, run)
        res.checked += 1
        if len(res.samples) < 6 and res.checked % 37 == 1:
            res.samples.append({"generator": g.label(), "valuation": {k: v for k, v in val.items() if v}, "expected": exp, "actual": act})
        if not _agree(exp, act, g):
            res.mismatches.append(Mismatch(g, val, str(exp), str(act), _clause(exp, act), skeleton))


def expected(g: Gen, val: Dict[str, bool]) -> Tuple:
    if g.has_alias:
        if val["alias_present"]:
            key = "alias"
        elif g.allow and val["name_present"]:
            key = "name"
        else:
            key = None
    else:
        key = "name" if val["name_present"] else None
    if key is None:
        return ("nostore",) if g.has_default else ("raise", "MissingField")
    isnone = val[f"{key}_none"]
    if isnone and g.could_be_none:
        return ("store", key, "None")
    if g.trivial:
        return ("store", key, "raw")
    if val["conv_raises"]:
        return ("raise", "InvalidFieldValue", key)
    return ("store", key, "converted")


def _final_stores(run: Run) -> List[Tuple[str, str, str]]:
    return [s for s in run.stores if not (s[0] == "name" and s[1] == "value")]


def _norm_outcome(run: Run) -> Tuple:
    return (run.outcome.kind, run.outcome.value)


def actual(g: Gen, r: Rendered, roles: Roles, run: Run) -> Tuple:
    if run.outcome.kind == "raise":
        txt = run.outcome.value
        m = re.match(r"(\w+)\((.*)\)$", txt)
        cls = m.group(1) if m else txt
        if cls == "InvalidFieldValue":
            # which key's raw value is reported, which field name
            keys = GET_RX.findall(txt)
            role = roles.key_role(keys[0]) if keys else None
            return ("raise", cls, role, _args_ok(r, roles, txt, "InvalidFieldValue"))
        if cls == "MissingField":
            return ("raise", cls, _args_ok(r, roles, txt, "MissingField"))
        return ("raise", cls)
    if run.outcome.kind == "return":
        return ("return", run.outcome.value)
    stores = _final_stores(run)
    # intermediate `__f = d.get(...)` look-ups are also stores to the final target: keep the last per target
    last: Dict[str, Tuple[str, str, str]] = {}
    for s in stores:
        last[s[1]] = s
    finals = list(last.values())
    if not finals:
        return ("nostore",)
    if len(finals) > 1:
        return ("multi", tuple(finals))
    kind, target, value = finals[0]
    tgt_ok = _target_ok(g, r, roles, kind, target)
    keys = GET_RX.findall(value)
    if value == "None":
        return ("store", "?", "None", tgt_ok)
    if value == "MISSING" or (keys and value.strip() == f"d.get({keys[0]}, MISSING)" and False):
        return ("store", "?", "MISSING", tgt_ok)
    # raw term?
    m = re.fullmatch(r"d\.get\((.+), MISSING\)", value)
    if m:
        return ("store", roles.key_role(m.group(1)), "raw", tgt_ok)
    if value in roles.conv or any(value == mk for mk in roles.conv):
        # conversion hole applied to the variable `value`: which term does `value` hold?
        vterm = run.env.get("value", "")
        m2 = re.fullmatch(r"d\.get\((.+), MISSING\)", vterm)
        return ("store", roles.key_role(m2.group(1)) if m2 else None, "converted", tgt_ok)
    return ("store", None, f"other:{r.describe(value)}", tgt_ok)


def _target_ok(g: Gen, r: Rendered, roles: Roles, kind: str, target: str) -> bool:
    if g.has_default:
        m = re.fullmatch(r"kwargs\[(.+)\]", target)
        return bool(kind == "item" and m and roles.key_role(m.group(1)) == "name")
    m = re.fullmatch(r"__(_h\d+_)", target)
    return bool(kind == "name" and m and m.group(1) in roles.name)


def _args_ok(r: Rendered, roles: Roles, txt: str, cls: str) -> bool:
    try:
        call = ast.parse(txt, mode="eval").body
    except SyntaxError:
        return False
    if not isinstance(call, ast.Call):
        return False
    args = [ast.unparse(a) for a in call.args]
    if cls == "MissingField":
        return len(args) == 3 and roles.key_role(args[0]) == "name" and args[1] in roles.typeref and args[2] == "cls"
    if cls == "InvalidFieldValue":
        return (len(args) == 4 and roles.key_role(args[0]) == "name" and args[1] in roles.typeref
                and bool(re.fullmatch(r"d\.get\(.+, MISSING\)", args[2])) and args[3] == "cls")
    return False


def _agree(exp: Tuple, act: Tuple, g: Gen) -> bool:
    if exp[0] == "nostore":
        return act[0] == "nostore"
    if exp[0] == "raise":
        if act[0] != "raise" or act[1] != exp[1]:
            return False
        if exp[1] == "MissingField":
            return bool(act[2])
        return act[2] == exp[2] and bool(act[3])
    if exp[0] == "store":
        _, key, kind = exp
        if kind == "None":
            if act[0] == "nostore" and g.has_default and g.default_is_none:
                return True  # present-and-null on a field whose default is None: not passing it is equivalent
            if act[0] == "store" and act[2] == "raw" and act[1] == key and bool(act[3]):
                return True  # the raw value *is* None on this valuation
            return act[0] == "store" and act[2] == "None" and bool(act[3])
        if act[0] != "store" or not act[3]:
            return False
        if g.triv_unknown and g.trivial and kind == "raw" and act[2] == "converted":
            return act[1] == key  # the conversion is the identity on this variant
        return act[1] == key and act[2] == kind
    return False


def _clause(exp: Tuple, act: Tuple) -> str:
    if exp[0] == "raise" or act[0] == "raise":
        return "exception"
    if exp[0] == "nostore" or act[0] == "nostore":
        return "presence"
    if exp[0] == "store" and act[0] == "store":
        if exp[1] != act[1] and act[1] != "?":
            return "key"
        if exp[2] != act[2]:
            return "value"
        return "target"
    return "value"
