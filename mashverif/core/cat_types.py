"""Representative user-defined types of the supported-type catalogue (created inside the analyser).
NOTE: no `from __future__ import annotations` here -- the annotations must be real type objects."""
import datetime
import enum
import pathlib
import typing


class NT(typing.NamedTuple):
    a: int
    b: datetime.date
    c: typing.Optional[datetime.date]


class NTD(typing.NamedTuple):
    a: int
    b: datetime.date = datetime.date(2000, 1, 1)
    c: typing.Optional[datetime.date] = None


class TD(typing.TypedDict):
    a: int
    b: datetime.date
    c: typing.Optional[datetime.date]
    d: typing.NotRequired[typing.Optional[datetime.date]]


class TDP(typing.TypedDict, total=False):
    a: int
    b: datetime.date
    c: typing.Optional[datetime.date]
    d: typing.Required[typing.Optional[int]]


class E(enum.Enum):
    A = "a"


class IE(enum.IntEnum):
    A = 1


class SE(str, enum.Enum):
    A = "a"


class F(enum.Flag):
    A = 1
    B = 2


class IF(enum.IntFlag):
    A = 1
    B = 2


class StrE(enum.StrEnum):
    A = "a"


class MyPath(pathlib.PurePosixPath):
    pass


class MyList(list):
    pass


class MyDict(dict):
    pass


class MyStr(str):
    pass
