"""Contracts of reflection helpers of CodeBuilder that the path enumerator summarises as opaque symbols.

The field-level analyses (field block, pack block, allowed-key set) take `B.dataclass_fields`, `B.metadatas`,
`B.get_discriminator(...)` as given.  The contracts below evaluate those helpers themselves, so that an edit inside
them is seen by the properties that rely on their meaning."""

from __future__ import annotations

import ast
from typing import List, Tuple

from .pe import Path
from .scen import make_eval
from .srcmodel import M_BUILDER, Repo, walk_no_nested
from .values import Const, Dct, Func, Lst, Obj, Sym, show

MRO_FORMS = {"self.cls.__mro__", "self.cls.mro()", "type.mro(self.cls)", "inspect.getmro(self.cls)"}


def discriminator_lookup(repo: Repo) -> List[Tuple[bool, str, str]]:
    """get_discriminator(look_in_parents=True) consults every class of the MRO, nearest first, each through its own
    Config (look_in_parents=False); without look_in_parents only the class itself.  -> [(ok|None, instance, why)]"""
    out = []
    fi = repo.func(M_BUILDER, "CodeBuilder.get_discriminator")
    br = next((n for n in fi.node.body if isinstance(n, ast.If) and "look_in_parents" in ast.unparse(n.test)), None)
    if br is None:
        return [(None, "no look_in_parents branch in get_discriminator", "")]
    def assigned(body):
        for st in body:
            if isinstance(st, ast.Assign) and ast.unparse(st.targets[0]) == "classes":
                return st.value
        return None
    neg = isinstance(br.test, ast.UnaryOp)
    t_val, f_val = assigned(br.body), assigned(br.orelse)
    if neg:
        t_val, f_val = f_val, t_val
    if t_val is None or f_val is None:
        return [(None, "get_discriminator does not bind `classes` in both branches", "")]
    tt = ast.unparse(t_val)
    lossy = any(isinstance(n, ast.Call) and ast.unparse(n.func) in ("filter", "itertools.takewhile", "takewhile") for n in ast.walk(t_val)) or \
        any(isinstance(n, (ast.ListComp, ast.GeneratorExp)) and any(g.ifs for g in n.generators) for n in ast.walk(t_val)) or \
        any(isinstance(n, ast.Subscript) and isinstance(n.slice, ast.Slice) for n in ast.walk(t_val))
    why = ("a class-level discriminator (and with it the discriminator key admitted by forbid_extra_keys) is inherited from any base class that carries the Config -- "
           "dataclass or not, however far up the MRO")
    if lossy:
        out.append((False, f"with look_in_parents the searched classes are `{tt}`: part of the MRO is skipped", why))
    elif tt in MRO_FORMS:
        out.append((True, f"with look_in_parents the searched classes are the whole MRO ({tt}), nearest first", why))
    else:
        out.append((None, f"unrecognised MRO walk `{tt}`", why))
    ft = ast.unparse(f_val)
    out.append((ft in ("(self.cls,)", "[self.cls]"), f"without look_in_parents only the class itself is searched ({ft})", "a variant must not pick up its parent's discriminator unless asked to"))
    # body of the loop: own Config only, first truthy wins
    ev = make_eval(repo, inline_depth=3, allow_inline={"get_discriminator"})
    p = Path()
    B = ev.builder_obj(p)
    dummy = ast.parse("f(x)").body[0].value
    res = ev.call_func(Func(fi, self_v=B), [], {"look_in_parents": Const(True)}, p, dummy, force=True)
    vals = sorted({show(v) for v, q in res if q.ctl != "raise"})
    ok = any("get_config(" in v and "look_in_parents=False" in v and v.endswith(".discriminator") for v in vals) and "None" in vals
    out.append((ok, f"each class is asked through its own Config only; outcomes {vals}", "get_config(cls, look_in_parents=False) keeps the nearest declaration in front"))
    return out


def dataclass_fields_contract(repo: Repo) -> List[Tuple[bool, str, str]]:
    """dataclass_fields for a name that the class annotates itself and a base class declared as a Field:
    own namespace Field > own __dataclass_fields__ entry > *dropped* (the bare re-annotation hides the parent's Field
    together with its metadata: alias, serialization options, default)."""
    fi = repo.func(M_BUILDER, "CodeBuilder.dataclass_fields")
    ev = make_eval(repo, inline_depth=3, allow_inline={"dataclass_fields"})
    p = Path()
    B = ev.builder_obj(p)
    parent_field = ev.new_obj(p, "dataclasses::Field", {"name": Const("n")}, oid="PARENT_FIELD")
    ev.models["method:values"] = lambda pe, recv, a, kw, q, e: [(Lst([parent_field]), q)] if "_FIELDS" in show(recv) or "__dataclass_fields__" in show(recv) else None
    ev.models["method:__get_field_types"] = lambda pe, recv, a, kw, q, e: [(Lst([Const("n")]), q)]
    ev.models["method:_CodeBuilder__get_field_types"] = ev.models["method:__get_field_types"]
    dummy = ast.parse("f(x)").body[0].value
    res = ev.call_func(Func(fi, self_v=B), [], {}, p, dummy, force=True)
    out = []
    seen = 0
    for v, q in res:
        if q.ctl == "raise" or not isinstance(v, Dct):
            continue
        for w in q.worlds():
            at = Path._view(w, "A|")
            if at.get("bool(is_dataclass(elem1.1))") is False:
                continue
            ns = next((b for k, b in at.items() if "namespace.get(n, MISSING), Field" in k), None)
            own = next((b for k, b in at.items() if "_FIELDS" in k and "Field))" in k), None)
            extra = {k: b for k, b in at.items() if "is_dataclass" not in k and "namespace.get(n, MISSING), Field" not in k and not ("_FIELDS" in k and "Field))" in k)}
            ent = v.entries.get("n")
            got = show(ent[1]) if ent else "<absent>"
            seen += 1
            cond = f"namespace Field={ns}, own __dataclass_fields__ entry={own}" + (f", {extra}" if extra else "")
            if ns is True:
                ok = "namespace.get(n" in got and "_FIELDS" not in got
                want = "the class's own Field"
            elif own is True:
                ok = "_FIELDS" in got
                want = "the class's own __dataclass_fields__ entry"
            else:
                ok = got == "<absent>"
                want = "no Field (the bare re-annotation drops the inherited one)"
            out.append((ok, f"re-annotated inherited field [{cond}] -> {got}; expected {want}",
                        "a subclass that re-annotates a field without a Field of its own has no metadata for it: keeping the parent's Field keeps the parent's alias / "
                        "serialization options, which then outrank the subclass's Annotated alias, Config.aliases and plain name"))
    if seen < 3:
        out.append((None, f"only {seen} outcomes of dataclass_fields analysed", ""))
    out += _ancestor_order(repo)
    return out


def _ancestor_order(repo: Repo):
    """a field declared by two ancestors and not by the class itself: the nearest ancestor's Field wins"""
    import re as _re

    fi = repo.func(M_BUILDER, "CodeBuilder.dataclass_fields")
    ev = make_eval(repo, inline_depth=3, allow_inline={"dataclass_fields"}, assume=[(_re.compile(r"is_dataclass\("), True)])
    p = Path()
    B = ev.builder_obj(p)
    from .values import Tup

    mro = Tup([Sym("LEAF"), Sym("MID"), Sym("BASE"), Sym("object")])
    p.heap[B.oid]["cls"] = ev.new_obj(p, "builtins::type", {"__mro__": mro}, oid="CLS")
    fields = {"MID": ev.new_obj(p, "dataclasses::Field", {"name": Const("n")}, oid="FIELD_MID"),
              "BASE": ev.new_obj(p, "dataclasses::Field", {"name": Const("n")}, oid="FIELD_BASE")}

    def values(pe, recv, a, kw, q, e):
        s = show(recv)
        for k, f in fields.items():
            if k in s:
                return [(Lst([f]), q)]
        if "object" in s or "LEAF" in s:
            return [(Lst([]), q)]
        return None

    ev.models["method:values"] = values
    ev.models["method:__get_field_types"] = lambda pe, recv, a, kw, q, e: [(Lst([]), q)]
    dummy = ast.parse("f(x)").body[0].value
    res = ev.call_func(Func(fi, self_v=B), [], {}, p, dummy, force=True)
    got = sorted({show(v.entries["n"][1]) if isinstance(v, Dct) and "n" in v.entries else "<absent>" for v, q in res if q.ctl != "raise"})
    why = ("the Field of an inherited name comes from the nearest ancestor that declares it (dataclasses' own rule): with the base-most one the leaf class sees a stale default, "
           "init flag, alias and serialization options")
    if got == ["FIELD_MID"]:
        return [(True, "field declared by MID and BASE, inherited by LEAF(MID(BASE)): the nearest ancestor's Field wins", why)]
    if got == ["FIELD_BASE"] or "FIELD_BASE" in got:
        return [(False, f"field declared by MID and BASE, inherited by LEAF(MID(BASE)): dataclass_fields yields {got} (the farther ancestor's Field)", why)]
    return [(None, f"ancestor order of dataclass_fields not decidable: {got}", why)]


def report(repo: Repo, rep, rule: str, results, construct: str) -> None:
    fi_loc = ""
    for ok, inst, why in results:
        if ok is True:
            rep.ok(rule, inst, None)
        elif ok is False:
            rep.violation(rule, construct, inst, why, loc=fi_loc)
        else:
            rep.undecide(rule, inst)


# --------------------------------------------------------------------------- generic outcome contracts
def _outcomes(repo: Repo, qualname: str, args=(), kwargs=None, allow=()):
    ev = make_eval(repo, inline_depth=2, allow_inline=set(allow) | {qualname.split(".")[-1]})
    p = Path()
    B = ev.builder_obj(p)
    fi = repo.func(M_BUILDER, qualname)
    dummy = ast.parse("f(x)").body[0].value
    res = ev.call_func(Func(fi, self_v=B), list(args), dict(kwargs or {}), p, dummy, force=True)
    out = []
    for r, q in res:
        for w in q.worlds():
            at = dict(Path._view(w, "A|"))
            idn = dict(Path._view(w, "I|"))
            for k, v in idn.items():
                at[f"{k} is {v}"] = True
            for k, vs in Path._view(w, "X|").items():
                for v in vs:
                    at.setdefault(f"{k} is {v}", False)
            evs = [(e[0], show(e[1]) if len(e) > 1 and hasattr(e[1], "key") else str(e[1]) if len(e) > 1 else "") for e in q.events if e and e[0] in ("ensure_object", "exec")]
            out.append((("raise" if q.ctl == "raise" else show(r)), at, evs))
    return fi, out


def outcome_contract(repo: Repo, qualname: str, expected, args=(), kwargs=None, allow=(), why: str = "") -> List[Tuple[bool, str, str]]:
    """expected: [(value text, {atom substring: bool}, [event kinds])]. Every actual outcome must match exactly one expected
    entry (same value, every listed atom present with that polarity, same event kinds) and every expected entry must occur."""
    fi, actual = _outcomes(repo, qualname, args, kwargs, allow)
    return _match(qualname.split(".")[-1], actual, expected, why)


def _match(name: str, actual, expected, why: str):
    res = []
    hit = set()
    for val, at, evs in actual:
        m = None
        for i, (ev_, eat, eev) in enumerate(expected):
            if (ev_.fullmatch(val) is None) if hasattr(ev_, "fullmatch") else (ev_ != val):
                continue
            if all(any(sub in k and b == pol for k, b in at.items()) for sub, pol in eat.items()) and sorted(x[0] for x in evs) == sorted(eev):
                m = i
                break
        cond = ", ".join(f"{'' if b else 'not '}{k}" for k, b in sorted(at.items()) if not k.endswith(" is None") or b)
        if m is None:
            res.append((False, f"{name}: outcome `{val}` under [{cond[:200]}] is not one of the confirmed outcomes", why))
        else:
            hit.add(m)
            res.append((True, f"{name}: `{val}` under [{cond[:160]}]", why))
    for i, (ev_, eat, eev) in enumerate(expected):
        if i not in hit:
            res.append((False, f"{name}: the confirmed outcome `{getattr(ev_, 'pattern', ev_)}` under {eat} no longer occurs", why))
    return res


def get_config_contract(repo: Repo):
    why = ("Config lookup: with look_in_parents the nearest Config along the MRO (getattr), without it only the class's own (__dict__); a Config that does not derive "
           "from BaseConfig is completed with BaseConfig's attributes, the user's attributes winning")
    import re as _re

    out = []
    for lip in (True, False):
        for who, cond in (("c", {"c is None": False}), ("B.cls", {"c is None": True})):
            base = f"getattr({who}, 'Config', BaseConfig)" if lip else f"{who}.__dict__.get(Config, BaseConfig)"
            exp = [
                (base, {f"issubclass({base}, BaseConfig))": True, **cond}, []),
                (_re.compile(_re.escape(f"type(Config, (BaseConfig, {base}), {{**BaseConfig.__dict__, **") + r"[\w.(), ']+" + _re.escape(".__dict__})")),
                 {f"issubclass({base}, BaseConfig))": False, **cond}, []),
            ]
            fi, actual = _outcomes(repo, "CodeBuilder.get_config", [Sym("c")], {"look_in_parents": Const(lip)})
            mine = [a for a in actual if (("c is None", True) in a[1].items()) == (who == "B.cls")]
            out += _match("get_config", mine, exp, why)
    return out


def field_default_contract(repo: Repo):
    why = ("a field's default is its Field.default; else its default_factory (called only on request); a name without a Field falls back to the class attribute "
           "looked up like dataclasses does (getattr: inherited attributes count); MISSING means 'no default'")
    F = "B.dataclass_fields.get(name)"
    exp = [
        (f"{F}.default", {f"bool({F})": True, f"{F}.default is MISSING": False}, []),
        (f"{F}.default_factory()", {f"bool({F})": True, f"{F}.default is MISSING": True, "bool(call_factory)": True, f"{F}.default_factory is MISSING": False}, []),
        (f"{F}.default_factory", {f"bool({F})": True, f"{F}.default is MISSING": True, "bool(call_factory)": True, f"{F}.default_factory is MISSING": True}, []),
        (f"{F}.default_factory", {f"bool({F})": True, f"{F}.default is MISSING": True, "bool(call_factory)": False}, []),
        # dataclasses' own rule for a name without a Field of its own: default = getattr(cls, name, MISSING), so a class attribute
        # inherited from a parent counts (class B(A): x: int  with  A.x = 1  has the default 1)
        ("getattr(B.cls, name, MISSING)", {f"bool({F})": False}, []),
    ]
    return outcome_contract(repo, "CodeBuilder.get_field_default", exp, [Sym("name")], {"call_factory": Sym("call_factory")}, why=why)


def codegen_option_contract(repo: Repo):
    why = "a code generation option is enabled iff it is listed in the class's (inherited) Config.code_generation_options"
    exp = [("True", {"opt in B.get_config(B.cls).code_generation_options": True}, []), ("False", {"opt in B.get_config(B.cls).code_generation_options": False}, [])]
    return outcome_contract(repo, "CodeBuilder.is_code_generation_option_enabled", exp, [Sym("opt")], why=why)


def type_name_identifier_contract(repo: Repo):
    why = "a type that cannot be referred to by its dotted name (local class) is bound by identity under its sanitised name; any other type is referred to by name"
    exp = [("clean_id(type_name(typ))", {"is_local_type_name(type_name(typ))": True}, ["ensure_object"]), ("type_name(typ)", {"is_local_type_name(type_name(typ))": False}, [])]
    return outcome_contract(repo, "CodeBuilder.get_type_name_identifier", exp, [Sym("typ")], why=why)


def add_type_modules_contract(repo: Repo):
    """add_type_modules(t): the module of t is registered whenever inspect finds one -- whatever module it is -- and the walk
    descends into Literal values, type arguments, TypeVar constraints and bound.  No other condition may cut the walk."""
    why = ("every module a rendered type expression mentions must be in the generated code's namespace: type references on the error paths "
           "(MissingField('f', list[decimal.Decimal], cls)) are evaluated there and raise NameError otherwise")
    fi = repo.func(M_BUILDER, "CodeBuilder.add_type_modules")
    ev = make_eval(repo, inline_depth=3, allow_inline={"add_type_modules"})
    key = f"{M_BUILDER}::CodeBuilder.add_type_modules"
    ev.models.pop(key, None)

    def rec(pe, fv, args, kwargs, p, e):
        if sum(1 for f in pe.call_stack if f.key == key) >= 1:
            p.events.append(("recurse", tuple(show(a) for a in args)))
            return [(Const(None), p)]
        return None

    ev.models[key] = rec
    p = Path()
    B = ev.builder_obj(p)
    dummy = ast.parse("f(x)").body[0].value
    res = ev.call_func(Func(fi, self_v=B), [Sym("t")], {}, p, dummy, force=True)
    known = ("inspect.getmodule(t)", "is_literal(t)", "get_args(t)", "'__constraints__'", "'__bound__'")
    out = []
    n = 0
    for v, q in res:
        if q.ctl == "raise":
            out.append((False, "add_type_modules raises", why))
            continue
        for w in q.worlds():
            at = dict(Path._view(w, "A|"))
            n += 1
            mods = [show(e[1]) for e in q.events if e and e[0] == "ensure_module"]
            recs = [" ".join(e[1]) for e in q.events if e and e[0] == "recurse"]
            recs += [" ".join(e[2]) for e in q.events if e and e[0] == "star_call" and e[1].endswith("add_type_modules")]
            extra = [k for k in at if not any(s in k for s in known)]
            has_mod = next((b for k, b in at.items() if "inspect.getmodule(t)" in k), None)
            cond = ", ".join(f"{'' if b else 'not '}{k}" for k, b in sorted(at.items()))
            if extra:
                out.append((False, f"add_type_modules depends on `{extra[0]}` [{cond[:160]}]", why))
                continue
            if has_mod is False:
                out.append((not mods and not recs, f"no module found -> nothing registered ({mods}, {recs})", why))
                continue
            want = []
            lit = next((b for k, b in at.items() if "is_literal(t)" in k), None)
            args_ = next((b for k, b in at.items() if "get_args(t)" in k), None)
            if lit:
                want.append("literal")
            elif args_:
                want.append("args")
            if next((b for k, b in at.items() if "__constraints__" in k), False):
                want.append("constraints")
            if next((b for k, b in at.items() if "__bound__" in k), False):
                want.append("bound")
            got = []
            for r in recs:
                got.append("literal" if "get_literal_values" in r or "literal" in r else "constraints" if "__constraints__" in r or "constraints" in r
                           else "bound" if "__bound__" in r or "bound" in r else "args" if "get_args" in r or "args" in r else f"?{r}")
            ok = mods == ["inspect.getmodule(t)"] and sorted(got) == sorted(want)
            out.append((ok, f"[{cond[:150]}] -> module registered {mods}, descends into {got} (expected {want})", why))
    if n < 8:
        out.append((None, f"only {n} paths of add_type_modules", why))
    return out


def forward_ref_contract(repo: Repo):
    why = ("a forward reference is evaluated in the namespace of the module that wrote it (falling back to the generated code's globals), with the builder's own attributes as "
           "locals -- never with the generated code's namespace as locals, where the generator's own imports (Dialect, Field, datetime ...) would shadow the user's names")
    exp = [("evaluate_forward_ref(typ, get_forward_ref_referencing_globals(typ, owner, B.globals), B.__dict__)", {}, [])]
    return outcome_contract(repo, "CodeBuilder.evaluate_forward_ref", exp, [Sym("typ"), Sym("owner")], why=why)



def type_param_collection_contract(repo: Repo):
    """collect_type_params returns each type variable once (in order of first occurrence): substitute_type_params passes
    the collected list to `typ[...]`, and a duplicate makes that subscription fail (the TypeError is suppressed) so the
    annotation stays unsubstituted and nested generic dataclasses are compiled for bare TypeVars (= Any: no conversion)."""
    from .srcmodel import M_HELPERS

    why = type_param_collection_contract.__doc__.split(":", 1)[1].strip()
    fi = repo.func(M_HELPERS, "collect_type_params")
    # Since round 7 the contract is decided by *evaluating* the helper on type objects (typeeval.py): duplicates, nesting and
    # order of first occurrence.  The syntactic membership-test analysis below is kept only as a fallback for a body the
    # evaluator cannot interpret (it flagged a behaviour-preserving respelling of the loop as undecidable, benign/b5).
    try:
        from . import typepreds as _tp
        from .typeeval import TypeEval, evaluate
        te = TypeEval(repo)
        f = te.func(M_HELPERS, "collect_type_params")
        res = []
        for label, fn, args, kwargs, want in _tp._cases():
            if fn != "collect_type_params":
                continue
            got = evaluate(te, f, *args, **kwargs)
            if got[0] == "unsupported":
                res = None
                break
            ok = got[0] == want[0] and (_tp._same(got[1], want[1]) if got[0] == "value" else got[1] == want[1])
            res.append((ok, f"{label} evaluates to {_tp._show(got[1])}" + ("" if ok else f", expected {_tp._show(want[1])}"), why))
        if res:
            return res
    except Exception:  # noqa: BLE001 -- fall back to the syntactic analysis
        pass
    acc = None
    for st in fi.node.body:
        if isinstance(st, ast.Assign) and isinstance(st.value, ast.List) and not st.value.elts and isinstance(st.targets[0], ast.Name):
            acc = st.targets[0].id
    if acc is None:
        return [(None, "collect_type_params: accumulator list not found", why)]
    out = []

    def guarded(var: str, guards, earlier) -> bool:
        for g in guards:
            t = ast.unparse(g)
            if t == f"{var} not in {acc}":
                return True
        for e in earlier:  # `if x in acc: continue` earlier in the same if-chain
            if ast.unparse(e) == f"{var} in {acc}":
                return True
        return False

    def walk(stmts, guards, chain_tests):
        for st in stmts:
            if isinstance(st, ast.If):
                walk(st.body, guards + [st.test], chain_tests)
                walk(st.orelse, guards, chain_tests + ([st.test] if st.body and isinstance(st.body[-1], ast.Continue) else []))
            elif isinstance(st, (ast.For, ast.While)):
                walk(st.body, guards, [])
            elif isinstance(st, ast.Expr) and isinstance(st.value, ast.Call) and isinstance(st.value.func, ast.Attribute) and ast.unparse(st.value.func.value) == acc:
                m = st.value.func.attr
                if m == "append" and st.value.args and isinstance(st.value.args[0], ast.Name):
                    ok = guarded(st.value.args[0].id, guards, chain_tests)
                    out.append((ok, f"collect_type_params: `{ast.unparse(st)}` {'is' if ok else 'is NOT'} guarded by a membership test", why))
                elif m in ("extend", "insert", "__iadd__") or m == "append":
                    out.append((False, f"collect_type_params: `{ast.unparse(st)[:70]}` adds elements without a membership test", why))
            elif isinstance(st, ast.AugAssign) and ast.unparse(st.target) == acc:
                out.append((False, f"collect_type_params: `{ast.unparse(st)[:70]}` adds elements without a membership test", why))

    walk(fi.node.body, [], [])
    if len(out) < 2:
        out.append((None, f"collect_type_params: only {len(out)} insertions found", why))
    return out


def subclass_walk_contract(repo: Repo):
    """iter_all_subclasses yields every direct subclass and descends into every one of them, unconditionally."""
    from .srcmodel import M_HELPERS

    why = ("discriminated unions take their candidate variants from this walk: a filtered or pruned walk makes concrete classes below the skipped class (an abstract "
           "intermediate, say) ineligible although they carry a registered tag")
    fi = repo.func(M_HELPERS, "iter_all_subclasses")
    conds = [n for n in ast.walk(fi.node) if isinstance(n, (ast.If, ast.IfExp, ast.Continue, ast.Break, ast.Try)) or (isinstance(n, ast.comprehension) and n.ifs)]
    ys = [n for n in ast.walk(fi.node) if isinstance(n, ast.Yield)]
    yf = [n for n in ast.walk(fi.node) if isinstance(n, ast.YieldFrom) and "iter_all_subclasses(" in ast.unparse(n)]
    loops = [n for n in ast.walk(fi.node) if isinstance(n, ast.For) and "__subclasses__()" in ast.unparse(n.iter)]
    if conds:
        return [(False, f"iter_all_subclasses contains a conditional ({type(conds[0]).__name__} at line {conds[0].lineno}): part of the subclass tree can be skipped", why)]
    if ys and yf and loops:
        return [(True, "iter_all_subclasses yields each direct subclass and recurses into it unconditionally", why)]
    return [(None, "iter_all_subclasses has an unrecognised shape", why)]



def small_helper_contracts(repo: Repo):
    """Exact bodies of three one-line helpers whose meaning other rules take for granted:
    get_type_annotations (the Annotated metadata in declaration order: the alias rule 'the last Alias wins' and the
    strategy lookup depend on the order), is_class_var (through mashumaro's own get_type_origin, which also recognises a bare
    ClassVar) and is_init_var."""
    from .srcmodel import M_HELPERS

    out = []
    want = {
        "get_type_annotations": ({"getattr(typ, '__metadata__', [])", "getattr(typ, '__metadata__', ())"},
                                 "the metadata of an Annotated type in the order it was written (outermost last): re-ordering changes which Alias / strategy wins"),
        "is_class_var": ({"get_type_origin(typ) is ClassVar", "get_type_origin(typ) is typing.ClassVar"},
                         "a bare `ClassVar` (no argument) is recognised only through get_type_origin; typing.get_origin returns None for it and the member becomes a field"),
        "is_init_var": ({"isinstance(typ, dataclasses.InitVar)", "isinstance(typ, InitVar)"}, "InitVar members are not fields"),
    }
    for name, (forms, why) in want.items():
        fi = repo.funcs.get(f"{M_HELPERS}::{name}")
        if fi is None:
            out.append((None, f"{name} not found", why))
            continue
        rets = [n for n in walk_no_nested(fi.node) if isinstance(n, ast.Return) and n.value is not None]
        body = [st for st in fi.node.body if not (isinstance(st, ast.Expr) and isinstance(st.value, ast.Constant))]
        if len(rets) == 1 and len(body) == 1:
            got = ast.unparse(rets[0].value)
            out.append((got in forms, f"{name} returns `{got}`" + ("" if got in forms else f" (confirmed: {sorted(forms)[0]})"), why))
        else:
            out.append((None, f"{name} is no longer a single return", why))
    return out
