"""Contracts of reflection helpers of CodeBuilder that the path enumerator summarises as opaque symbols.

The field-level analyses (field block, pack block, allowed-key set) take `B.dataclass_fields`, `B.metadatas`,
`B.get_discriminator(...)` as given.  The contracts below evaluate those helpers themselves, so that an edit inside
them is seen by the properties that rely on their meaning."""

from __future__ import annotations

import ast
from typing import List, Tuple

from .pe import Path
from .scen import make_eval
from .srcmodel import M_BUILDER, Repo, walk_no_nested
from .values import Const, Dct, Func, Lst, Obj, Sym, show

MRO_FORMS = {"self.cls.__mro__", "self.cls.mro()", "type.mro(self.cls)", "inspect.getmro(self.cls)"}


def discriminator_lookup(repo: Repo) -> List[Tuple[bool, str, str]]:
    """get_discriminator(look_in_parents=True) consults every class of the MRO, nearest first, each through its own
    Config (look_in_parents=False); without look_in_parents only the class itself.  -> [(ok|None, instance, why)]"""
    out = []
    fi = repo.func(M_BUILDER, "CodeBuilder.get_discriminator")
    br = next((n for n in fi.node.body if isinstance(n, ast.If) and "look_in_parents" in ast.unparse(n.test)), None)
    if br is None:
        return [(None, "no look_in_parents branch in get_discriminator", "")]
    def assigned(body):
        for st in body:
            if isinstance(st, ast.Assign) and ast.unparse(st.targets[0]) == "classes":
                return st.value
        return None
    neg = isinstance(br.test, ast.UnaryOp)
    t_val, f_val = assigned(br.body), assigned(br.orelse)
    if neg:
        t_val, f_val = f_val, t_val
    if t_val is None or f_val is None:
        return [(None, "get_discriminator does not bind `classes` in both branches", "")]
    tt = ast.unparse(t_val)
    lossy = any(isinstance(n, ast.Call) and ast.unparse(n.func) in ("filter", "itertools.takewhile", "takewhile") for n in ast.walk(t_val)) or \
        any(isinstance(n, (ast.ListComp, ast.GeneratorExp)) and any(g.ifs for g in n.generators) for n in ast.walk(t_val)) or \
        any(isinstance(n, ast.Subscript) and isinstance(n.slice, ast.Slice) for n in ast.walk(t_val))
    why = ("a class-level discriminator (and with it the discriminator key admitted by forbid_extra_keys) is inherited from any base class that carries the Config -- "
           "dataclass or not, however far up the MRO")
    if lossy:
        out.append((False, f"with look_in_parents the searched classes are `{tt}`: part of the MRO is skipped", why))
    elif tt in MRO_FORMS:
        out.append((True, f"with look_in_parents the searched classes are the whole MRO ({tt}), nearest first", why))
    else:
        out.append((None, f"unrecognised MRO walk `{tt}`", why))
    ft = ast.unparse(f_val)
    out.append((ft in ("(self.cls,)", "[self.cls]"), f"without look_in_parents only the class itself is searched ({ft})", "a variant must not pick up its parent's discriminator unless asked to"))
    # body of the loop: own Config only, first truthy wins
    ev = make_eval(repo, inline_depth=3, allow_inline={"get_discriminator"})
    p = Path()
    B = ev.builder_obj(p)
    dummy = ast.parse("f(x)").body[0].value
    res = ev.call_func(Func(fi, self_v=B), [], {"look_in_parents": Const(True)}, p, dummy, force=True)
    vals = sorted({show(v) for v, q in res if q.ctl != "raise"})
    ok = any("get_config(" in v and "look_in_parents=False" in v and v.endswith(".discriminator") for v in vals) and "None" in vals
    out.append((ok, f"each class is asked through its own Config only; outcomes {vals}", "get_config(cls, look_in_parents=False) keeps the nearest declaration in front"))
    return out


def dataclass_fields_contract(repo: Repo) -> List[Tuple[bool, str, str]]:
    """dataclass_fields for a name that the class annotates itself and a base class declared as a Field:
    own namespace Field > own __dataclass_fields__ entry > *dropped* (the bare re-annotation hides the parent's Field
    together with its metadata: alias, serialization options, default)."""
    fi = repo.func(M_BUILDER, "CodeBuilder.dataclass_fields")
    ev = make_eval(repo, inline_depth=3, allow_inline={"dataclass_fields"})
    p = Path()
    B = ev.builder_obj(p)
    parent_field = ev.new_obj(p, "dataclasses::Field", {"name": Const("n")}, oid="PARENT_FIELD")
    ev.models["method:values"] = lambda pe, recv, a, kw, q, e: [(Lst([parent_field]), q)] if "_FIELDS" in show(recv) or "__dataclass_fields__" in show(recv) else None
    ev.models["method:__get_field_types"] = lambda pe, recv, a, kw, q, e: [(Lst([Const("n")]), q)]
    ev.models["method:_CodeBuilder__get_field_types"] = ev.models["method:__get_field_types"]
    dummy = ast.parse("f(x)").body[0].value
    res = ev.call_func(Func(fi, self_v=B), [], {}, p, dummy, force=True)
    out = []
    seen = 0
    for v, q in res:
        if q.ctl == "raise" or not isinstance(v, Dct):
            continue
        for w in q.worlds():
            at = Path._view(w, "A|")
            if at.get("bool(is_dataclass(elem1.1))") is False:
                continue
            ns = next((b for k, b in at.items() if "namespace.get(n, MISSING), Field" in k), None)
            own = next((b for k, b in at.items() if "_FIELDS" in k and "Field))" in k), None)
            extra = {k: b for k, b in at.items() if "is_dataclass" not in k and "namespace.get(n, MISSING), Field" not in k and not ("_FIELDS" in k and "Field))" in k)}
            ent = v.entries.get("n")
            got = show(ent[1]) if ent else "<absent>"
            seen += 1
            cond = f"namespace Field={ns}, own __dataclass_fields__ entry={own}" + (f", {extra}" if extra else "")
            if ns is True:
                ok = "namespace.get(n" in got and "_FIELDS" not in got
                want = "the class's own Field"
            elif own is True:
                ok = "_FIELDS" in got
                want = "the class's own __dataclass_fields__ entry"
            else:
                ok = got == "<absent>"
                want = "no Field (the bare re-annotation drops the inherited one)"
            out.append((ok, f"re-annotated inherited field [{cond}] -> {got}; expected {want}",
                        "a subclass that re-annotates a field without a Field of its own has no metadata for it: keeping the parent's Field keeps the parent's alias / "
                        "serialization options, which then outrank the subclass's Annotated alias, Config.aliases and plain name"))
    if seen < 3:
        out.append((None, f"only {seen} outcomes of dataclass_fields analysed", ""))
    return out


def report(repo: Repo, rep, rule: str, results, construct: str) -> None:
    fi_loc = ""
    for ok, inst, why in results:
        if ok is True:
            rep.ok(rule, inst, None)
        elif ok is False:
            rep.violation(rule, construct, inst, why, loc=fi_loc)
        else:
            rep.undecide(rule, inst)
