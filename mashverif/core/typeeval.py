"""Type-level evaluator: the reflection helpers of ``mashumaro/core/meta/helpers.py`` interpreted over *type objects*.

The generator's input is a type, not a run-time value: which converter a field gets is decided, at class-creation time,
by pure predicates over ``typing`` objects (``is_union``, ``is_literal``, ``get_type_origin``, ``type_name`` ...).  The
dispatch simulation replaces those predicates by a stdlib-only model (``dispatch.HELPER_MODEL``) -- which makes an edit
*inside* a predicate invisible to every catalogue rule.  This module closes that gap: it interprets the helper's own
source (read from the working tree with ``ast``; the library is never imported) over a finite set of type objects of the
analysing interpreter's standard library and compares the result with the model / a reference table.

It is an abstract interpreter whose domain happens to be exact on this sub-language: names resolve to (a) functions and
constants of the helper module itself, interpreted recursively, (b) the standard-library modules the helper imports,
(c) builtins.  Anything else (an import from another repository module that is actually *used* on an evaluated path, a
statement kind outside the list below) raises ``Unsupported`` and the rule answers UNDECIDED, never HOLDS."""

from __future__ import annotations

import ast
import builtins
import importlib
from typing import Any, Callable, Dict, List, Optional

from .srcmodel import Repo

STDLIB_OK = {"typing", "types", "typing_extensions", "dataclasses", "enum", "inspect", "re", "sys", "collections.abc",
             "contextlib", "hashlib", "collections", "functools", "itertools", "abc", "datetime", "math", "uuid", "importlib"}
REPO_MODULES_INTERPRETED = {"mashumaro.core.const", "mashumaro.core.meta.helpers", "mashumaro.core.meta.code.builder"}


class Unsupported(Exception):
    pass


def _stdlib(modname: str) -> bool:
    import sys
    top = modname.split(".")[0]
    return top in STDLIB_OK or top in sys.stdlib_module_names


class _Return(Exception):
    def __init__(self, v):
        self.v = v


class _Break(Exception):
    pass


class _Continue(Exception):
    pass


class Opaque:
    """A repository object the evaluator does not model (e.g. the Dialect class); using it is Unsupported."""

    def __init__(self, name):
        self.name = name

    def __repr__(self):
        return f"<opaque {self.name}>"


class IFunc:
    def __init__(self, mod: "IModule", node: ast.FunctionDef, closure: Optional[Dict[str, Any]] = None, owner: Optional[str] = None):
        self.mod, self.node, self.closure = mod, node, closure
        self.owner = owner  # name of the class the function is a method of (private-name mangling)
        self.__name__ = node.name
        self.__qualname__ = node.name

    def __call__(self, *args, **kwargs):
        return self.mod.te.call(self, list(args), dict(kwargs))

    def __repr__(self):
        return f"<ifunc {self.mod.name}::{self.node.name}>"


class IModule:
    def __init__(self, te: "TypeEval", name: str):
        self.te, self.name = te, name
        self.tree = te.repo.module(name).tree
        self.ns: Dict[str, Any] = {"__name__": name}
        self.pending: Dict[str, ast.stmt] = {}
        self.classes: Dict[str, ast.ClassDef] = {}
        self._index(self.tree.body)

    def _index(self, body):
        for st in body:
            if isinstance(st, ast.FunctionDef):
                self.ns[st.name] = IFunc(self, st)
            elif isinstance(st, (ast.Import, ast.ImportFrom)):
                for a in st.names:
                    self.pending[(a.asname or a.name).split(".")[0]] = st
            elif isinstance(st, ast.Assign):
                for t in st.targets:
                    if isinstance(t, ast.Name):
                        self.pending[t.id] = st
            elif isinstance(st, ast.AnnAssign) and isinstance(st.target, ast.Name) and st.value is not None:
                self.pending[st.target.id] = st
            elif isinstance(st, ast.Try):
                # try: from typing import X / except ImportError: from typing_extensions import X
                for sub in st.body:
                    if isinstance(sub, (ast.Import, ast.ImportFrom)):
                        for a in sub.names:
                            self.pending[(a.asname or a.name).split(".")[0]] = st
            elif isinstance(st, ast.ClassDef):
                self.ns[st.name] = Opaque(f"{self.name}.{st.name}")
                self.classes[st.name] = st

    def get(self, name: str):
        if name in self.ns:
            return self.ns[name]
        if name in self.pending:
            st = self.pending[name]
            self._exec_toplevel(st)  # an Unsupported import stays pending: every later use is Unsupported again
            self.pending.pop(name, None)
            if name in self.ns:
                return self.ns[name]
        if hasattr(builtins, name):
            return getattr(builtins, name)
        raise NameError(name)

    def _exec_toplevel(self, st):
        te = self.te
        if isinstance(st, ast.Import):
            for a in st.names:
                top = a.name.split(".")[0]
                if not _stdlib(a.name):
                    raise Unsupported(f"import {a.name}")
                m = importlib.import_module(a.name)
                self.ns[a.asname or top] = m if a.asname else importlib.import_module(top)
        elif isinstance(st, ast.ImportFrom):
            modname = st.module or ""
            if modname in REPO_MODULES_INTERPRETED:
                im = te.module(modname)
                for a in st.names:
                    self.ns[a.asname or a.name] = im.get(a.name)
            elif modname.startswith("mashumaro"):
                for a in st.names:
                    self.ns[a.asname or a.name] = Opaque(f"{modname}.{a.name}")
            elif _stdlib(modname):
                m = importlib.import_module(modname)
                for a in st.names:
                    self.ns[a.asname or a.name] = getattr(m, a.name)  # ImportError semantics: AttributeError -> ImportError
            else:
                raise Unsupported(f"from {modname} import ...")
        elif isinstance(st, ast.Try):
            try:
                for sub in st.body:
                    try:
                        self._exec_toplevel(sub)
                    except AttributeError as ex:
                        raise ImportError(str(ex))
            except ImportError:
                for h in st.handlers:
                    for sub in h.body:
                        self._exec_toplevel(sub)
        elif isinstance(st, (ast.Assign, ast.AnnAssign)):
            fr = Frame(self, {})
            v = te.expr(st.value, fr)
            tgts = st.targets if isinstance(st, ast.Assign) else [st.target]
            for t in tgts:
                if isinstance(t, ast.Name):
                    self.ns[t.id] = v
        else:
            raise Unsupported(type(st).__name__)


class Frame:
    def __init__(self, mod: IModule, local: Dict[str, Any], parent: Optional["Frame"] = None, owner: Optional[str] = None):
        self.mod, self.local, self.parent = mod, local, parent
        self.owner = owner if owner is not None else (parent.owner if parent is not None else None)

    def get(self, name):
        f: Optional[Frame] = self
        while f is not None:
            if name in f.local:
                return f.local[name]
            f = f.parent
        return self.mod.get(name)


class TypeEval:
    def __init__(self, repo: Repo, max_steps: int = 200000):
        self.repo = repo
        self.mods: Dict[str, IModule] = {}
        self.steps = 0
        self.max_steps = max_steps

    def module(self, name: str) -> IModule:
        if name not in self.mods:
            self.mods[name] = IModule(self, name)
        return self.mods[name]

    def func(self, module: str, name: str) -> IFunc:
        f = self.module(module).get(name)
        if not isinstance(f, IFunc):
            raise Unsupported(f"{module}::{name} is not a plain function")
        return f

    def method(self, module: str, cls: str, name: str) -> IFunc:
        """A method of a repository class as a plain function of ``self`` (decorators such as property / lru_cache are
        ignored); ``self`` is a stub object supplied by the rule."""
        im = self.module(module)
        if cls not in im.classes:
            raise Unsupported(f"class {module}::{cls} not found")
        for st in im.classes[cls].body:
            if isinstance(st, ast.FunctionDef) and st.name == name:
                return IFunc(im, st, owner=cls)
        raise Unsupported(f"method {module}::{cls}.{name} not found")

    # ---------------------------------------------------------------- calls
    def call(self, f: IFunc, args: List[Any], kwargs: Dict[str, Any]):
        node = f.node
        a = node.args
        if a.vararg or a.kwarg or a.posonlyargs:
            if a.posonlyargs or a.kwarg:
                raise Unsupported("signature of " + node.name)
        params = [x.arg for x in a.args]
        local: Dict[str, Any] = {}
        if len(args) > len(params) and not a.vararg:
            raise TypeError(f"{node.name}() takes {len(params)} positional arguments")
        for n, v in zip(params, args):
            local[n] = v
        if a.vararg:
            local[a.vararg.arg] = tuple(args[len(params):])
        for k, v in kwargs.items():
            if k in local:
                raise TypeError(f"{node.name}() got multiple values for {k}")
            if k not in params and k not in [x.arg for x in a.kwonlyargs]:
                raise TypeError(f"{node.name}() got an unexpected keyword argument {k!r}")
            local[k] = v
        defaults = a.defaults
        fr0 = Frame(f.mod, f.closure or {})
        for n, d in zip(params[len(params) - len(defaults):], defaults):
            if n not in local:
                local[n] = self.expr(d, fr0)
        for x, d in zip(a.kwonlyargs, a.kw_defaults):
            if x.arg not in local and d is not None:
                local[x.arg] = self.expr(d, fr0)
        for n in params:
            if n not in local:
                raise TypeError(f"{node.name}() missing argument {n}")
        if any(isinstance(n, (ast.Yield, ast.YieldFrom)) for n in ast.walk(node)):
            raise Unsupported("generator function " + node.name)
        fr = Frame(f.mod, local, Frame(f.mod, f.closure) if f.closure else None, owner=f.owner)
        try:
            self.block(node.body, fr)
        except _Return as r:
            return r.v
        return None

    # ---------------------------------------------------------------- statements
    def block(self, body, fr: Frame):
        for st in body:
            self.stmt(st, fr)

    def stmt(self, st, fr: Frame):
        self.steps += 1
        if self.steps > self.max_steps:
            raise Unsupported("step budget exhausted")
        if isinstance(st, ast.Return):
            raise _Return(self.expr(st.value, fr) if st.value is not None else None)
        if isinstance(st, ast.Expr):
            self.expr(st.value, fr)
        elif isinstance(st, ast.Pass):
            pass
        elif isinstance(st, ast.If):
            self.block(st.body if self.expr(st.test, fr) else st.orelse, fr)
        elif isinstance(st, ast.Assign):
            v = self.expr(st.value, fr)
            for t in st.targets:
                self.assign(t, v, fr)
        elif isinstance(st, ast.AnnAssign):
            if st.value is not None:
                self.assign(st.target, self.expr(st.value, fr), fr)
        elif isinstance(st, ast.AugAssign):
            cur = self.expr(_load(st.target), fr)
            v = _binop(st.op, cur, self.expr(st.value, fr))
            self.assign(st.target, v, fr)
        elif isinstance(st, ast.For):
            broke = False
            for item in self.expr(st.iter, fr):
                self.assign(st.target, item, fr)
                try:
                    self.block(st.body, fr)
                except _Break:
                    broke = True
                    break
                except _Continue:
                    continue
            if not broke:
                self.block(st.orelse, fr)
        elif isinstance(st, ast.While):
            while self.expr(st.test, fr):
                self.steps += 1
                if self.steps > self.max_steps:
                    raise Unsupported("step budget exhausted")
                try:
                    self.block(st.body, fr)
                except _Break:
                    break
                except _Continue:
                    continue
        elif isinstance(st, ast.Break):
            raise _Break()
        elif isinstance(st, ast.Continue):
            raise _Continue()
        elif isinstance(st, ast.Raise):
            if st.exc is None:
                raise Unsupported("bare raise")
            exc = self.expr(st.exc, fr)
            raise exc
        elif isinstance(st, ast.Try):
            try:
                try:
                    self.block(st.body, fr)
                except (_Return, _Break, _Continue, Unsupported):
                    raise
                except Exception as ex:  # noqa: BLE001 -- the interpreted program's exception
                    for h in st.handlers:
                        cls = self.expr(h.type, fr) if h.type is not None else Exception
                        if isinstance(ex, cls):
                            if h.name:
                                fr.local[h.name] = ex
                            self.block(h.body, fr)
                            break
                    else:
                        raise
                else:
                    self.block(st.orelse, fr)
            finally:
                if st.finalbody:
                    self.block(st.finalbody, fr)
        elif isinstance(st, ast.With):
            if len(st.items) != 1 or st.items[0].optional_vars is not None:
                raise Unsupported("with-statement form")
            cm = st.items[0].context_expr
            import contextlib
            if not (isinstance(cm, ast.Call) and self.expr(cm.func, fr) is contextlib.suppress):
                raise Unsupported("context manager other than suppress()")
            classes = tuple(self.expr(a, fr) for a in cm.args)
            try:
                self.block(st.body, fr)
            except (_Return, _Break, _Continue, Unsupported):
                raise
            except Exception as ex:  # noqa: BLE001
                if not isinstance(ex, classes):
                    raise
        elif isinstance(st, ast.FunctionDef):
            fr.local[st.name] = IFunc(fr.mod, st, closure=_flatten(fr), owner=fr.owner)
        elif isinstance(st, ast.Assert):
            if not self.expr(st.test, fr):
                raise AssertionError()
        else:
            raise Unsupported("statement " + type(st).__name__)

    def assign(self, t, v, fr: Frame):
        if isinstance(t, ast.Name):
            fr.local[t.id] = v
        elif isinstance(t, (ast.Tuple, ast.List)):
            vals = list(v)
            if len(vals) != len(t.elts):
                raise ValueError("unpack")
            for e, x in zip(t.elts, vals):
                self.assign(e, x, fr)
        elif isinstance(t, ast.Subscript):
            self.expr(t.value, fr)[self.expr(t.slice, fr)] = v
        else:
            raise Unsupported("assignment target " + type(t).__name__)

    # ---------------------------------------------------------------- expressions
    def expr(self, e, fr: Frame):
        self.steps += 1
        if self.steps > self.max_steps:
            raise Unsupported("step budget exhausted")
        m = getattr(self, "e_" + type(e).__name__, None)
        if m is None:
            raise Unsupported("expression " + type(e).__name__)
        return m(e, fr)

    def e_Constant(self, e, fr):
        return e.value

    def e_Name(self, e, fr):
        return fr.get(e.id)

    def e_Attribute(self, e, fr):
        v = self.expr(e.value, fr)
        if isinstance(v, Opaque):
            raise Unsupported(f"attribute of {v}")
        attr = e.attr
        if fr.owner and attr.startswith("__") and not attr.endswith("__"):
            attr = f"_{fr.owner.lstrip('_')}{attr}"
        return getattr(v, attr)

    def e_Call(self, e, fr):
        f = self.expr(e.func, fr)
        args: List[Any] = []
        for a in e.args:
            if isinstance(a, ast.Starred):
                args.extend(self.expr(a.value, fr))
            else:
                args.append(self.expr(a, fr))
        kwargs: Dict[str, Any] = {}
        for k in e.keywords:
            if k.arg is None:
                kwargs.update(self.expr(k.value, fr))
            else:
                kwargs[k.arg] = self.expr(k.value, fr)
        if isinstance(f, Opaque):
            raise Unsupported(f"call of {f}")
        if any(isinstance(a, Opaque) for a in args) and f in (issubclass, isinstance):
            raise Unsupported(f"{f.__name__} against {args}")
        return f(*args, **kwargs)

    def e_BoolOp(self, e, fr):
        v = None
        for x in e.values:
            v = self.expr(x, fr)
            if isinstance(e.op, ast.And) and not v:
                return v
            if isinstance(e.op, ast.Or) and v:
                return v
        return v

    def e_UnaryOp(self, e, fr):
        v = self.expr(e.operand, fr)
        if isinstance(e.op, ast.Not):
            return not v
        if isinstance(e.op, ast.USub):
            return -v
        if isinstance(e.op, ast.UAdd):
            return +v
        return ~v

    def e_BinOp(self, e, fr):
        return _binop(e.op, self.expr(e.left, fr), self.expr(e.right, fr))

    def e_Compare(self, e, fr):
        left = self.expr(e.left, fr)
        for op, r in zip(e.ops, e.comparators):
            right = self.expr(r, fr)
            if not _cmp(op, left, right):
                return False
            left = right
        return True

    def e_IfExp(self, e, fr):
        return self.expr(e.body if self.expr(e.test, fr) else e.orelse, fr)

    def e_Subscript(self, e, fr):
        return self.expr(e.value, fr)[self.expr(e.slice, fr)]

    def e_Slice(self, e, fr):
        return slice(*(self.expr(x, fr) if x is not None else None for x in (e.lower, e.upper, e.step)))

    def _seq(self, elts, fr):
        out = []
        for x in elts:
            if isinstance(x, ast.Starred):
                out.extend(self.expr(x.value, fr))
            else:
                out.append(self.expr(x, fr))
        return out

    def e_Tuple(self, e, fr):
        return tuple(self._seq(e.elts, fr))

    def e_List(self, e, fr):
        return self._seq(e.elts, fr)

    def e_Set(self, e, fr):
        return set(self._seq(e.elts, fr))

    def e_Dict(self, e, fr):
        d = {}
        for k, v in zip(e.keys, e.values):
            if k is None:
                d.update(self.expr(v, fr))
            else:
                d[self.expr(k, fr)] = self.expr(v, fr)
        return d

    def e_JoinedStr(self, e, fr):
        return "".join(self.expr(v, fr) if not isinstance(v, ast.Constant) else v.value for v in e.values)

    def e_FormattedValue(self, e, fr):
        v = self.expr(e.value, fr)
        if e.conversion == 114:
            v = repr(v)
        elif e.conversion == 115:
            v = str(v)
        elif e.conversion == 97:
            v = ascii(v)
        spec = self.expr(e.format_spec, fr) if e.format_spec is not None else ""
        return format(v, spec)

    def _comp(self, gens, fr, emit):
        def rec(i, f):
            if i == len(gens):
                emit(f)
                return
            g = gens[i]
            for item in self.expr(g.iter, f):
                f2 = Frame(f.mod, {}, f)
                self.assign(g.target, item, f2)
                if all(self.expr(c, f2) for c in g.ifs):
                    rec(i + 1, f2)
        rec(0, fr)

    def e_ListComp(self, e, fr):
        out: List[Any] = []
        self._comp(e.generators, fr, lambda f: out.append(self.expr(e.elt, f)))
        return out

    def e_GeneratorExp(self, e, fr):
        return iter(self.e_ListComp(e, fr))

    def e_SetComp(self, e, fr):
        return set(self.e_ListComp(e, fr))

    def e_DictComp(self, e, fr):
        d: Dict[Any, Any] = {}

        def emit(f):
            d[self.expr(e.key, f)] = self.expr(e.value, f)
        self._comp(e.generators, fr, emit)
        return d

    def e_Lambda(self, e, fr):
        fn = ast.FunctionDef(name="<lambda>", args=e.args, body=[ast.Return(value=e.body)], decorator_list=[], returns=None, type_comment=None)
        return IFunc(fr.mod, fn, closure=_flatten(fr), owner=fr.owner)

    def e_Starred(self, e, fr):
        raise Unsupported("starred expression")

    def e_NamedExpr(self, e, fr):
        v = self.expr(e.value, fr)
        fr.local[e.target.id] = v
        return v


def _flatten(fr: Frame) -> Dict[str, Any]:
    chain = []
    f: Optional[Frame] = fr
    while f is not None:
        chain.append(f.local)
        f = f.parent
    out: Dict[str, Any] = {}
    for d in reversed(chain):
        out.update(d)
    return out


def _load(t):
    import copy
    n = copy.copy(t)
    n.ctx = ast.Load()
    return n


def _binop(op, a, b):
    import operator as o
    table = {ast.Add: o.add, ast.Sub: o.sub, ast.Mult: o.mul, ast.Div: o.truediv, ast.FloorDiv: o.floordiv, ast.Mod: o.mod,
             ast.BitOr: o.or_, ast.BitAnd: o.and_, ast.BitXor: o.xor, ast.Pow: o.pow, ast.LShift: o.lshift, ast.RShift: o.rshift}
    if type(op) not in table:
        raise Unsupported("operator " + type(op).__name__)
    return table[type(op)](a, b)


def _cmp(op, a, b):
    if isinstance(op, ast.Is):
        return a is b
    if isinstance(op, ast.IsNot):
        return a is not b
    if isinstance(op, ast.Eq):
        return a == b
    if isinstance(op, ast.NotEq):
        return a != b
    if isinstance(op, ast.In):
        return a in b
    if isinstance(op, ast.NotIn):
        return a not in b
    if isinstance(op, ast.Lt):
        return a < b
    if isinstance(op, ast.LtE):
        return a <= b
    if isinstance(op, ast.Gt):
        return a > b
    if isinstance(op, ast.GtE):
        return a >= b
    raise Unsupported("comparison " + type(op).__name__)


def evaluate(te: TypeEval, f: Callable, *args, **kwargs):
    """-> ('value', v) | ('raises', ExcClassName) | ('unsupported', reason)"""
    te.steps = 0
    try:
        return ("value", f(*args, **kwargs))
    except Unsupported as u:
        return ("unsupported", str(u))
    except (_Return, _Break, _Continue):
        return ("unsupported", "control flow escaped")
    except RecursionError:
        return ("raises", "RecursionError")
    except Exception as ex:  # noqa: BLE001 -- the interpreted helper's exception
        return ("raises", type(ex).__name__)
