"""Contract of ``Registry.get`` (mashumaro/core/meta/types/common.py).

The dispatch simulation (dispatch.py) *models* Registry.get: strip Annotated, substitute type parameters, register the
modules of the final type, call the registered creators in order, first non-None wins, UnserializableField otherwise.
This module evaluates the real body of Registry.get over a symbolic spec and a two-element registry and compares every
path with that model, so an edit of Registry.get itself is seen by the properties that rely on the model."""

from __future__ import annotations

import ast
from typing import Any, Dict, List, Tuple

from .pe import Path
from .scen import make_eval, symbolic_spec
from .srcmodel import M_COMMON, Repo
from .values import Func, Lst, Sym, V, show

NAME = "spec.field_ctx.name"
REAL = lambda x: f"B.get_real_type({NAME}, {x})"  # noqa: E731


def analyse(repo: Repo) -> List[Tuple[str, bool, str, str]]:
    """-> [(clause, ok, instance, why)]; clauses: annotated-innermost, annotated-inherit, real-type, modules-final-type,
    first-match-in-order, raise-otherwise"""
    out: List[Tuple[str, bool, str, str]] = []
    fi = repo.func(M_COMMON, "Registry.get")
    dummy = ast.parse("f(x)").body[0].value
    ev = make_eval(repo, inline_depth=3)
    p = Path()
    spec = symbolic_spec(ev, p)
    p.heap[spec.oid]["annotated_type"] = Sym("PRIOR_ANNOTATED")
    reg = ev.new_obj(p, f"{M_COMMON}::Registry", {"_registry": Lst([Sym("creator1"), Sym("creator2")])})
    res = ev.call_func(Func(fi, self_v=reg), [spec], {}, p, dummy, force=True)
    seen = {"ret1": 0, "ret2": 0, "raise": 0}
    for v, q in res:
        atoms = dict(q.atoms)
        ann = None
        for k, val in atoms.items():
            if "is_annotated(spec.type)" in k:
                ann = val
        a = q.heap[spec.oid]
        typ, annt = show(a["type"]), show(a["annotated_type"])
        where = f"path[annotated={ann}]"
        if ann is None:
            out.append(("real-type", False, where, "Registry.get no longer distinguishes Annotated types by is_annotated(spec.type)"))
            continue
        # real type
        want_t = REAL("get_type_origin(spec.type)") if ann else REAL("spec.type")
        out.append(("real-type", typ == want_t, f"{where}: spec.type = {typ}",
                    f"the dispatched type must be the substituted {'origin of the Annotated' if ann else 'declared'} type ({want_t})"))
        if ann:
            # the alias key must have the owner's type parameters substituted: a strategy registered for Annotated[date, m]
            # has to match the field Annotated[T, m] of G[date] (the un-substituted alias was accepted here until a round-7
            # change showed the difference)
            ok = annt == REAL("spec.type")
            out.append(("annotated-innermost", ok, f"{where}: spec.annotated_type = {annt}",
                        "an Annotated type met during dispatch must become spec.annotated_type unconditionally: the innermost annotations (Alias, "
                        "serialization strategies registered for the alias, Discriminator) are the ones that apply to the wrapped type; "
                        "it is stored with the owner's type parameters substituted (get_real_type), so that alias keys match in generic dataclasses"))
        else:
            ok = annt == "PRIOR_ANNOTATED"
            out.append(("annotated-inherit", ok, f"{where}: spec.annotated_type = {annt}",
                        "a non-Annotated type must leave spec.annotated_type alone: annotations written outside a wrapper "
                        "(Annotated[Optional[Base], Discriminator(...)], Annotated[List[Base], ...]) stay visible to the wrapped type"))
        mods = [e for e in q.events if e and e[0] == "add_type_modules"]
        margs = [show(e[1]) for e in mods]
        out.append(("modules-final-type", margs == [typ], f"{where}: add_type_modules({', '.join(margs)})",
                    f"the modules of the final (substituted) type must be registered exactly once per dispatch: expected add_type_modules({typ})"))
        # dispatch order
        called = [k for k in atoms if k.startswith(("bool(creator", "creator"))]
        if q.ctl == "raise":
            exc = next((show(x[1]) for x in reversed(q.events) if x and x[0] == "raise"), "?")
            seen["raise"] += 1
            ok = "UnserializableField" in exc and atoms.get("bool(creator1(spec))") is False and atoms.get("bool(creator2(spec))") is False
            out.append(("raise-otherwise", ok, f"{where}: raises {exc} after {sorted(called)}", "when no creator matches, UnserializableField is raised (after every creator was asked)"))
        else:
            r = show(v) if v is not None else "None"
            if r == "creator1(spec)":
                seen["ret1"] += 1
                ok = "bool(creator2(spec))" not in atoms
            elif r == "creator2(spec)":
                seen["ret2"] += 1
                ok = atoms.get("bool(creator1(spec))") is False
            else:
                ok = False
            out.append(("first-match-in-order", ok, f"{where}: returns {r} under {sorted((k, atoms[k]) for k in called)}",
                        "creators are asked in registration order and the first non-None expression is returned"))
    if not (seen["ret1"] and seen["ret2"] and seen["raise"]):
        out.append(("first-match-in-order", False, f"outcomes {seen}", "Registry.get must be able to return either creator's expression or raise"))
    return out


def report(repo: Repo, rep, rule: str, clauses) -> None:
    """Reports the selected clauses of the Registry.get contract under ``rule``."""
    fi = repo.func(M_COMMON, "Registry.get")
    n = 0
    for clause, ok, inst, why in analyse(repo):
        if clause not in clauses:
            continue
        n += 1
        if ok:
            rep.ok(rule, f"Registry.get {clause}: {inst}", None)
        else:
            rep.violation(rule, fi.key, f"Registry.get {clause}: {inst}", why, loc=fi.loc)
    if n == 0:
        rep.undecide(rule, f"no path of Registry.get exhibits {sorted(clauses)}")
