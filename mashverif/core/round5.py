"""Small repository-specific shape rules added after the fifth round of seeded changes.

Every rule here decides a structural necessary condition named in its docstring; each has a vacuity floor and
reports file:line of the offending construct.  All are pure ``ast`` rules over the current tree.
"""

from __future__ import annotations

import ast
from typing import Dict, Iterator, List, Optional, Set, Tuple

from .report import Report
from .srcmodel import (AnalysisError, M_BUILDER, M_CODEC_BUILDER, M_CONFIG, M_DIALECT, M_HELPERS, M_PACK, M_SCHEMA,
                       M_UNPACK, M_COMMON, FuncInfo, Repo)

GENERATOR_MODULES = (M_BUILDER, M_PACK, M_UNPACK, M_COMMON, M_CODEC_BUILDER, M_SCHEMA, M_HELPERS, M_DIALECT)


def _loc(fi: FuncInfo, node: ast.AST) -> str:
    import os
    from .srcmodel import REPO
    return f"{os.path.relpath(fi.path, REPO)}:{getattr(node, 'lineno', fi.node.lineno)}"


def _own_nodes(fn: ast.AST) -> Iterator[ast.AST]:
    """Nodes of a function body without descending into nested function / class definitions."""
    stack = list(ast.iter_child_nodes(fn))
    while stack:
        n = stack.pop()
        yield n
        if isinstance(n, (ast.FunctionDef, ast.AsyncFunctionDef, ast.ClassDef, ast.Lambda)):
            continue
        stack.extend(ast.iter_child_nodes(n))


# ------------------------------------------------------------------------------------------------ option defaults
def option_defaults(repo: Repo, rep: Report, rule: str) -> None:
    """Every option consulted through get_dialect_or_config_option(<name>, ...) defaults to Sentinel.MISSING on every
    namespace class that declares it (BaseConfig, Dialect): a concrete class-level default would answer for every
    class and shadow the namespaces after it in the chain (the codecs' default_dialect)."""
    names: Set[str] = set()
    for mi in repo.modules.values():
        for n in ast.walk(mi.tree):
            if isinstance(n, ast.Call) and isinstance(n.func, ast.Attribute) and n.func.attr in ("get_dialect_or_config_option", "get_owner_dialect_or_config_option") \
                    and n.args and isinstance(n.args[0], ast.Constant) and isinstance(n.args[0].value, str):
                names.add(n.args[0].value)
    if len(names) < 4:
        raise AnalysisError(f"only {len(names)} options are read through get_dialect_or_config_option")
    for mod, cname in ((M_CONFIG, "BaseConfig"), (M_DIALECT, "Dialect")):
        ci = repo.cls(mod, cname)
        for st in ci.node.body:
            tgt = st.target if isinstance(st, ast.AnnAssign) else st.targets[0] if isinstance(st, ast.Assign) and len(st.targets) == 1 else None
            if not isinstance(tgt, ast.Name) or tgt.id not in names or st.value is None:
                continue
            val = ast.unparse(st.value)
            inst = f"{cname}.{tgt.id} defaults to {val}"
            if val in ("Sentinel.MISSING", "MISSING"):
                rep.ok(rule, inst, None)
            else:
                rep.violation(rule, ci.key, inst, "an option looked up along the namespace chain (call dialect, Config.dialect, Config, default dialect) "
                              "must default to the MISSING sentinel on every namespace: a concrete default answers for every class and shadows the "
                              "namespaces consulted after it (a codec's default_dialect is ignored)", loc=f"{mod}:{st.lineno}")
    rep.floor(rule, 8)


# ------------------------------------------------------------------------------------------------ annotation scans
def _marker_classes(repo: Repo) -> Set[str]:
    out = {"Alias", "Discriminator"}
    for k, ci in repo.classes.items():
        if ci.module == "mashumaro.jsonschema.annotations":
            out.add(ci.name)
    return out


def annotation_scans(repo: Repo, rep: Report, rule: str, only: Optional[Set[str]] = None) -> None:
    """`isinstance(x, <marker>)` for the Annotated markers (Alias, Discriminator, JSON Schema constraints) is applied to
    the variable of a scan over the *whole* metadata sequence (a for statement or comprehension whose iterable contains
    no subscript / slice / next() / iter()).  A marker is honoured wherever it stands among the metadata."""
    markers = _marker_classes(repo)
    if only:
        markers &= only
    n = 0
    for fi in repo.funcs.values():
        if fi.module == "mashumaro.types" or fi.module == "mashumaro.jsonschema.annotations":
            continue
        params = {a.arg for a in fi.node.args.args + fi.node.args.kwonlyargs + fi.node.args.posonlyargs}
        binds: Dict[str, List[Tuple[str, ast.AST]]] = {}
        for node in _own_nodes(fi.node):
            if isinstance(node, (ast.For, ast.comprehension)):
                for t in ast.walk(node.target):
                    if isinstance(t, ast.Name):
                        binds.setdefault(t.id, []).append(("scan", node.iter))
            elif isinstance(node, ast.Assign):
                for tg in node.targets:
                    for t in ast.walk(tg):
                        if isinstance(t, ast.Name):
                            binds.setdefault(t.id, []).append(("assign", node.value))
            elif isinstance(node, ast.AnnAssign) and isinstance(node.target, ast.Name) and node.value is not None:
                binds.setdefault(node.target.id, []).append(("assign", node.value))
            elif isinstance(node, ast.NamedExpr):
                binds.setdefault(node.target.id, []).append(("assign", node.value))
        for node in _own_nodes(fi.node):
            if not (isinstance(node, ast.Call) and isinstance(node.func, ast.Name) and node.func.id == "isinstance" and len(node.args) == 2):
                continue
            cls_names = {x.id for x in ast.walk(node.args[1]) if isinstance(x, ast.Name)}
            hit = cls_names & markers
            if not hit:
                continue
            x = node.args[0]
            n += 1
            inst = f"{fi.qualname}: isinstance({ast.unparse(x)}, {'/'.join(sorted(hit))})"
            bad = None
            if not isinstance(x, ast.Name):
                bad = f"tested object `{ast.unparse(x)}` is not the variable of a scan"
            else:
                bs = binds.get(x.id, [])
                if not bs and x.id in params:
                    rep.ok(rule, inst + " (parameter)", None)
                    continue
                for kind, src in bs:
                    if kind != "scan":
                        bad = f"`{x.id}` is bound by `{x.id} = {ast.unparse(src)[:60]}`, not by a scan of the metadata"
                        break
                    partial = [s for s in ast.walk(src) if isinstance(s, (ast.Subscript, ast.Slice))
                               or (isinstance(s, ast.Call) and isinstance(s.func, ast.Name) and s.func.id in ("next", "iter", "islice"))]
                    if partial:
                        bad = f"`{x.id}` scans only a part of the metadata: `{ast.unparse(src)[:60]}`"
                        break
                if not bs and x.id not in params:
                    bad = f"`{x.id}` has no visible binding"
            if bad:
                rep.violation(rule, fi.key, inst, "an Annotated marker must be honoured at any position among the metadata; " + bad, loc=_loc(fi, node))
            else:
                rep.ok(rule, inst, None)
    return n


# ------------------------------------------------------------------------------------------------ ValueSpec ownership
VALUESPEC_OWNERS = {
    f"{M_CODEC_BUILDER}::CodecCodeBuilder.add_decode_method": "root spec of a codec",
    f"{M_CODEC_BUILDER}::CodecCodeBuilder.add_encode_method": "root spec of a codec",
    f"{M_BUILDER}::CodeBuilder._add_unpack_method_lines": "root spec of the class-level discriminator",
    f"{M_BUILDER}::CodeBuilder._get_field_packer": "root spec of a field (pack)",
    f"{M_BUILDER}::FieldUnpackerCodeBlockBuilder.build": "root spec of a field (unpack)",
}


def valuespec_ownership(repo: Repo, rep: Report, rule: str) -> None:
    """ValueSpec(...) is constructed only where a *root* spec is made (a field, a codec shape, the class-level
    discriminator).  Everything nested derives its spec with spec.copy(...), which is what carries the builder,
    field context, no_copy_collections, annotated type and owner down to nested positions."""
    seen = 0
    for fi in repo.funcs.values():
        if not fi.module.startswith("mashumaro."):
            continue
        for node in _own_nodes(fi.node):
            if isinstance(node, ast.Call) and isinstance(node.func, ast.Name) and node.func.id == "ValueSpec":
                seen += 1
                if fi.key in VALUESPEC_OWNERS:
                    rep.ok(rule, f"{fi.qualname}: ValueSpec(...) -- {VALUESPEC_OWNERS[fi.key]}", None)
                else:
                    rep.violation(rule, fi.key, f"{fi.qualname} constructs ValueSpec(...) from scratch",
                                  "a nested position must derive its spec with spec.copy(...): a spec built from scratch drops the options "
                                  "the enclosing spec carries (no_copy_collections, annotated type, nullability, owner), so the nested "
                                  "position is generated as if under the default dialect", loc=_loc(fi, node))
    for k in VALUESPEC_OWNERS:
        if k not in repo.funcs:
            raise AnalysisError(f"ValueSpec owner {k} vanished")
    rep.floor(rule, 5)


# ------------------------------------------------------------------------------------------------ loop freshness
def _stores(node: ast.AST) -> Set[str]:
    out: Set[str] = set()
    for n in ast.walk(node):
        if isinstance(n, ast.Name) and isinstance(n.ctx, ast.Store):
            out.add(n.id)
    return out


class _Fresh:
    """Structured must-definition walk of one loop body: which names read at a point were not (re)assigned earlier in
    the same iteration although the loop body assigns them somewhere."""

    def __init__(self, loop_assigned: Set[str]):
        self.assigned = loop_assigned
        self.stale: List[Tuple[str, ast.AST, ast.stmt]] = []

    def loads(self, expr: Optional[ast.AST], defined: Set[str], stmt: ast.stmt) -> None:
        if expr is None:
            return
        comp_targets: Set[str] = set()
        for n in ast.walk(expr):
            if isinstance(n, ast.comprehension):
                comp_targets |= _stores(n.target)
        for n in ast.walk(expr):
            if isinstance(n, ast.Name) and isinstance(n.ctx, ast.Load) and n.id in self.assigned and n.id not in defined and n.id not in comp_targets:
                self.stale.append((n.id, n, stmt))

    def block(self, body: List[ast.stmt], defined: Set[str]) -> Set[str]:
        d = set(defined)
        for st in body:
            d = self.stmt(st, d)
        return d

    def stmt(self, st: ast.stmt, d: Set[str]) -> Set[str]:
        if isinstance(st, ast.Assign):
            self.loads(st.value, d, st)
            for t in st.targets:
                if not isinstance(t, ast.Name):
                    self.loads(t, d, st)
            return d | _stores(st)
        if isinstance(st, ast.AnnAssign):
            self.loads(st.value, d, st)
            return d | (_stores(st.target) if st.value is not None else set())
        if isinstance(st, ast.AugAssign):
            self.loads(st.value, d, st)  # the target's own read is an accumulator by construction
            return d
        if isinstance(st, (ast.Expr, ast.Return, ast.Raise, ast.Assert, ast.Delete)):
            for ch in ast.iter_child_nodes(st):
                self.loads(ch, d, st)
            return d | {n.target.id for n in ast.walk(st) if isinstance(n, ast.NamedExpr)}
        if isinstance(st, ast.If):
            self.loads(st.test, d, st)
            d0 = d | {n.target.id for n in ast.walk(st.test) if isinstance(n, ast.NamedExpr)}
            a = self.block(st.body, d0)
            b = self.block(st.orelse, d0)
            ta, tb = _terminates(st.body), _terminates(st.orelse)
            if ta and not tb:
                return b
            if tb and not ta:
                return a
            return a & b
        if isinstance(st, (ast.For, ast.AsyncFor)):
            self.loads(st.iter, d, st)
            inner = self.block(st.body, d | _stores(st.target))
            self.block(st.orelse, d)
            return d  # zero iterations possible
        if isinstance(st, ast.While):
            self.loads(st.test, d, st)
            self.block(st.body, d)
            return d
        if isinstance(st, (ast.With, ast.AsyncWith)):
            dd = set(d)
            for it in st.items:
                self.loads(it.context_expr, dd, st)
                if it.optional_vars is not None:
                    dd |= _stores(it.optional_vars)
            return self.block(st.body, dd)
        if isinstance(st, ast.Try):
            a = self.block(st.body, d)
            a = self.block(st.orelse, a)
            outs = [a] if not _terminates(st.body + st.orelse) else []
            for h in st.handlers:
                hd = self.block(h.body, d | ({h.name} if h.name else set()))
                if not _terminates(h.body):
                    outs.append(hd)
            res = set.intersection(*outs) if outs else set(d)
            return self.block(st.finalbody, res)
        if isinstance(st, (ast.FunctionDef, ast.AsyncFunctionDef, ast.ClassDef)):
            return d | {st.name}
        if isinstance(st, ast.Match):
            self.loads(st.subject, d, st)
            outs = [self.block(c.body, d | _stores(c.pattern)) for c in st.cases]
            return set.intersection(*outs) & d if outs else d
        return d


def _terminates(body: List[ast.stmt]) -> bool:
    return bool(body) and isinstance(body[-1], (ast.Return, ast.Raise, ast.Continue, ast.Break))


# (function key, variable) -> reason: loop-carried reads that are intended (accumulators / first-time initialisation)
LOOP_CARRIED_OK: Dict[Tuple[str, str], str] = {
    (f"{M_HELPERS}::get_class_that_defines_field", "prev_field"): "compares each base's Field with the previous base's by design (finds the class that last redefined it)",
    (f"{M_HELPERS}::resolve_type_params", "param_idx"): "cursor of a while loop over the type parameters",
    (f"{M_HELPERS}::resolve_type_params", "arg_idx"): "cursor of a while loop over the type arguments",
    (f"{M_HELPERS}::resolve_type_params", "unpack_param_idx"): "position of the single TypeVarTuple, set once",
    (f"{M_BUILDER}::CodeBuilder._add_unpack_method_lines", "in_kwargs"): "sticky flag: once a field goes through kwargs every later one is passed by keyword",
    (f"{M_BUILDER}::CodeBuilder._add_unpack_method_lines", "missing_kw_only"): "sticky flag: the first field without kw_only information makes the rest keyword-only",
    (f"{M_PACK}::get_overridden_serialization_method", "serialize_option"): "every non-None value returns at once, so the carried value is always None",
    (f"{M_UNPACK}::get_overridden_deserialization_method", "deserialize_option"): "every non-None value returns at once, so the carried value is always None",
    (f"{M_SCHEMA}::Instance.get_overridden_serialization_method", "serialize_option"): "every non-None value returns at once, so the carried value is always None",
    (f"{M_PACK}::pack_tuple", "unpack_idx"): "remembers the first Unpack to reject a second one",
    (f"{M_UNPACK}::unpack_tuple", "unpack_idx"): "remembers the first Unpack to reject a second one",
    (f"{M_SCHEMA}::get_schema", "schema"): "plugins are chained: each receives the schema produced so far",
    (f"{M_SCHEMA}::on_tuple", "max_items"): "running upper bound; None once a variable-length part was seen",
}


def loop_freshness(repo: Repo, rep: Report, rule: str, modules=GENERATOR_MODULES) -> List[str]:
    """Inside a loop body of the code generator, a variable the body assigns is read only after it was assigned in the
    same iteration, unless the (function, variable) pair is a confirmed accumulator in LOOP_CARRIED_OK.  A conditional
    assignment followed by an unconditional read uses the value computed for the previous item."""
    found: List[str] = []
    used: Set[Tuple[str, str]] = set()
    loops = 0
    for fi in repo.funcs.values():
        if fi.module not in modules:
            continue
        for node in _own_nodes(fi.node):
            if not isinstance(node, (ast.For, ast.While)):
                continue
            loops += 1
            assigned: Set[str] = set()
            for st in node.body:
                for n in ast.walk(st):
                    if isinstance(n, (ast.FunctionDef, ast.Lambda)):
                        continue
                    if isinstance(n, ast.Name) and isinstance(n.ctx, ast.Store):
                        assigned.add(n.id)
            # comprehension variables are scoped to the comprehension
            start = _stores(node.target) if isinstance(node, ast.For) else set()
            fr = _Fresh(assigned - start)
            fr.block(node.body, start)
            per_var: Dict[str, Tuple[ast.AST, ast.stmt]] = {}
            for v, n, st in fr.stale:
                # accumulator forms: the statement that reads v also writes v;  `if v is None: v = ...` initialisation
                if v in _stores(st) and not isinstance(st, (ast.If, ast.For, ast.While, ast.Try, ast.With)):
                    continue
                per_var.setdefault(v, (n, st))
            for v, (n, st) in per_var.items():
                key = (fi.key, v)
                inst = f"{fi.qualname}: `{v}` read in a loop body before this iteration assigns it"
                if key in LOOP_CARRIED_OK:
                    used.add(key)
                    rep.ok(rule, inst + f" -- confirmed: {LOOP_CARRIED_OK[key]}", None)
                else:
                    found.append(f"{fi.key} {v} line {n.lineno}")
                    rep.violation(rule, fi.key, inst, "the value computed for a previous item of the loop is used for this one on the paths "
                                  "that skip the assignment (stale loop variable)", loc=_loc(fi, n), statement=ast.unparse(st)[:200])
    for key in LOOP_CARRIED_OK:
        if key[0] not in repo.funcs:
            raise AnalysisError(f"loop-carried table entry {key} names a vanished function")
    rep.analysed["loops_examined"] = loops
    stale_tbl = [k for k in LOOP_CARRIED_OK if k not in used]
    if stale_tbl:
        rep.notes.append(f"loop-carried table entries no longer matched: {stale_tbl}")
    if loops < 60:
        raise AnalysisError(f"only {loops} loops examined")
    return found


# ------------------------------------------------------------------------------------------------ user callable lookups
def positional_annotation_lookup(repo: Repo, rep: Report, rule: str) -> None:
    """The input annotation of a user-supplied deserialize callable is looked up by position (arg_pos=0): users are free
    to name the parameter.  A look-up by name silently degrades to Any for every other parameter name."""
    n = 0
    for fi in repo.funcs.values():
        for node in _own_nodes(fi.node):
            if isinstance(node, ast.Call) and isinstance(node.func, ast.Name) and node.func.id == "get_function_arg_annotation":
                n += 1
                kws = {k.arg: k.value for k in node.keywords}
                pos_ok = ("arg_pos" in kws and isinstance(kws["arg_pos"], ast.Constant) and kws["arg_pos"].value == 0 and "arg_name" not in kws) \
                    or (len(node.args) >= 3 and isinstance(node.args[2], ast.Constant) and node.args[2].value == 0)
                inst = f"{fi.qualname}: {ast.unparse(node)[:90]}"
                if pos_ok:
                    rep.ok(rule, inst, None)
                else:
                    rep.violation(rule, fi.key, inst, "the parameter of a user's deserialize callable must be identified by position 0, not by name: "
                                  "otherwise a callable whose parameter is not called as expected loses its annotated input shape (the raw input "
                                  "container is handed over unconverted and shared with the caller)", loc=_loc(fi, node))
    rep.floor(rule, 2)


# ------------------------------------------------------------------------------------------------ tiny helper contracts
def metadatas_contract(repo: Repo, rep: Report, rule: str) -> None:
    """CodeBuilder.metadatas maps every dataclass field name to exactly that Field's metadata mapping (no option is
    injected: the alias precedence metadata > Annotated > Config.aliases is decided in __get_field_alias alone)."""
    fi = repo.func(M_BUILDER, "CodeBuilder.metadatas")
    rets = [n for n in _own_nodes(fi.node) if isinstance(n, ast.Return)]
    ok = False
    why = "no single dict comprehension is returned"
    if len(rets) == 1 and isinstance(rets[0].value, ast.DictComp) and len(rets[0].value.generators) == 1:
        dc = rets[0].value
        g = dc.generators[0]
        tnames = [t.id for t in ast.walk(g.target) if isinstance(t, ast.Name)]
        if ast.unparse(g.iter) == "self.dataclass_fields.items()" and len(tnames) == 2 and not g.ifs \
                and isinstance(dc.key, ast.Name) and dc.key.id == tnames[0] \
                and isinstance(dc.value, ast.Attribute) and dc.value.attr == "metadata" and isinstance(dc.value.value, ast.Name) and dc.value.value.id == tnames[1]:
            ok = True
        else:
            why = f"returns {{{ast.unparse(dc.key)}: {ast.unparse(dc.value)[:80]} ...}}"
    extra = [n for n in _own_nodes(fi.node) if isinstance(n, (ast.Assign, ast.AugAssign, ast.For, ast.If))]
    if ok and not extra:
        rep.ok(rule, "CodeBuilder.metadatas == {name: field.metadata for name, field in dataclass_fields.items()}", None)
    else:
        rep.violation(rule, fi.key, "CodeBuilder.metadatas is not the plain name -> Field.metadata map",
                      "field options (alias, serialize, ...) must be exactly what the field declares: " + why, loc=fi.loc)
    rep.floor(rule, 1)


def mixin_identity_contract(repo: Repo, rep: Report, rule: str) -> None:
    """is_dataclass_dict_mixin recognises the library mixin by its fully qualified name (module + qualname), so a user
    class that merely shares the bare class name keeps its own hooks."""
    fi = repo.func(M_HELPERS, "is_dataclass_dict_mixin")
    mi = repo.module(M_HELPERS)
    path_const = None
    for st in mi.tree.body:
        if isinstance(st, ast.Assign) and any(isinstance(t, ast.Name) and t.id == "DataClassDictMixinPath" for t in st.targets):
            path_const = ast.unparse(st.value)
    rets = [n for n in _own_nodes(fi.node) if isinstance(n, ast.Return)]
    src = ast.unparse(rets[0].value) if len(rets) == 1 and rets[0].value is not None else ""
    good = src in ("type_name(typ) == DataClassDictMixinPath", "DataClassDictMixinPath == type_name(typ)")
    dotted = path_const is not None and "." in path_const and "mixins.dict" in path_const
    if good and dotted:
        rep.ok(rule, f"is_dataclass_dict_mixin compares the full type name with {path_const}", None)
    else:
        rep.violation(rule, fi.key, f"is_dataclass_dict_mixin returns `{src[:80]}` (path constant {path_const})",
                      "the library mixin must be recognised by module and qualified name: a user class that shares the bare name would be "
                      "taken for it and its hooks dropped", loc=fi.loc)
    rep.floor(rule, 1)


# ------------------------------------------------------------------------------------------------ schema arrays
SCHEMA_ARRAY_KEYWORDS = ("prefixItems", "anyOf", "oneOf", "allOf")


def nonempty_schema_arrays(repo: Repo, rep: Report, rule: str) -> None:
    """Keywords whose value is a schemaArray in Draft 2020-12 (minItems 1) are never rendered empty: the argument is
    `<list> or None`, a non-empty list display, or a comprehension over the (non-empty) member list of a union /
    constrained TypeVar."""
    for fi in repo.module_funcs(M_SCHEMA):
        for node in _own_nodes(fi.node):
            if not isinstance(node, ast.Call):
                continue
            for kw in node.keywords:
                if kw.arg not in SCHEMA_ARRAY_KEYWORDS:
                    continue
                v = kw.value
                inst = f"{fi.qualname}: {kw.arg}={ast.unparse(v)[:70]}"
                good = (isinstance(v, ast.BoolOp) and isinstance(v.op, ast.Or) and isinstance(v.values[-1], ast.Constant) and v.values[-1].value is None) \
                    or (isinstance(v, ast.IfExp) and isinstance(v.orelse, ast.Constant) and v.orelse.value is None and ast.unparse(v.test) == ast.unparse(v.body)) \
                    or (isinstance(v, ast.List) and v.elts and not any(isinstance(e, ast.Starred) for e in v.elts)) \
                    or (isinstance(v, ast.ListComp) and kw.arg != "prefixItems")
                if good:
                    rep.ok(rule, inst, None)
                else:
                    rep.violation(rule, fi.key, inst, f"`{kw.arg}` must hold at least one schema in JSON Schema 2020-12: an empty list makes the "
                                  "generated document an invalid schema; render `<list> or None` so the keyword is omitted", loc=_loc(fi, node))
    rep.floor(rule, 4)


# ------------------------------------------------------------------------------------------------ helper call flags
def helper_call_flags(repo: Repo, rep: Report, rule: str) -> None:
    """A function that defines a generated helper with the pluggable flag parameters
    (get_[un]pack_method_default_flag_values) renders every call of that helper with the flags of
    get_[un]pack_method_flags(): the call text `{method_name}(<args>)` has an argument placeholder whose latest
    assignment before the rendering contains that call.  Otherwise nested values below the helper lose
    omit_none / by_alias / dialect / context."""
    n = 0
    for mod in (M_PACK, M_UNPACK):
        for fi in repo.module_funcs(mod):
            calls = [c for c in _own_nodes(fi.node) if isinstance(c, ast.Call) and isinstance(c.func, ast.Attribute)
                     and c.func.attr in ("get_pack_method_default_flag_values", "get_unpack_method_default_flag_values")]
            if not calls:
                continue
            flagfn = "get_pack_method_flags" if "unpack" not in calls[0].func.attr else "get_unpack_method_flags"
            assigns: List[Tuple[int, str, ast.AST]] = []
            for node in _own_nodes(fi.node):
                if isinstance(node, ast.Assign) and len(node.targets) == 1 and isinstance(node.targets[0], ast.Name):
                    assigns.append((node.lineno, node.targets[0].id, node.value))
            for js in _own_nodes(fi.node):
                if not isinstance(js, ast.JoinedStr):
                    continue
                vals = js.values
                for i, v in enumerate(vals):
                    if not (isinstance(v, ast.FormattedValue) and isinstance(v.value, ast.Name) and v.value.id == "method_name"):
                        continue
                    nxt = vals[i + 1] if i + 1 < len(vals) else None
                    prev = vals[i - 1] if i > 0 else None
                    if not (isinstance(nxt, ast.Constant) and str(nxt.value).startswith("(")):
                        continue
                    if isinstance(prev, ast.Constant) and str(prev.value).rstrip().endswith("def"):
                        continue
                    n += 1
                    argnames = [x.value.id for x in vals[i + 1:] if isinstance(x, ast.FormattedValue) and isinstance(x.value, ast.Name)]
                    carried = False
                    for a in argnames:
                        prior = [(ln, val) for ln, nm, val in assigns if nm == a and ln <= js.lineno]
                        if prior:
                            val = max(prior, key=lambda t: t[0])[1]
                            if any(isinstance(c, ast.Call) and isinstance(c.func, ast.Attribute) and c.func.attr == flagfn for c in ast.walk(val)):
                                carried = True
                    inst = f"{fi.qualname}: helper call `{ast.unparse(js)[:70]}`"
                    if carried:
                        rep.ok(rule, inst, None)
                    else:
                        rep.violation(rule, fi.key, inst, f"the helper is defined with the pluggable flag parameters but this call does not pass {flagfn}(): "
                                      "values below it are converted with the flag defaults (context=None, no dialect, omit_none / by_alias off)", loc=_loc(fi, js))
    rep.floor(rule, 8)


# ------------------------------------------------------------------------------------------------ codec wrappers
def codec_wrapper_shape(repo: Repo, rep: Report, rule: str) -> None:
    """The generated encode / decode wrapper of a codec returns exactly the registry expression for the root shape
    (wrapped once in the post-encoder when there is one): the expression variable is assigned once, from
    <Registry>.get(ValueSpec(..., could_be_none=could_be_none)), and every `return` line renders it whole.  Anything
    spliced around it (a None guard outside the post-encoder, a second conversion) makes the codec differ from the
    mixin / the basic codec for the same shape."""
    for meth, var, reg, wraps in (("add_encode_method", "packed_value", "PackerRegistry", {"return encoder({packed_value})", "return {packed_value}"}),
                                  ("add_decode_method", "unpacked_value", "UnpackerRegistry", {"return {unpacked_value}"})):
        fi = repo.func(M_CODEC_BUILDER, f"CodecCodeBuilder.{meth}")
        assigns = [n for n in _own_nodes(fi.node) if isinstance(n, (ast.Assign, ast.AugAssign, ast.AnnAssign))
                   and any(isinstance(t, ast.Name) and t.id == var for t in ast.walk(n.targets[0] if isinstance(n, ast.Assign) else n.target))]
        ok_assign = len(assigns) == 1 and isinstance(assigns[0], ast.Assign) and isinstance(assigns[0].value, ast.Call) \
            and ast.unparse(assigns[0].value.func) == f"{reg}.get"
        if ok_assign:
            rep.ok(rule, f"{meth}: {var} is assigned once, from {reg}.get(...)", None)
            spec_calls = [c for c in ast.walk(assigns[0].value) if isinstance(c, ast.Call) and isinstance(c.func, ast.Name) and c.func.id == "ValueSpec"]
            kws = {k.arg: ast.unparse(k.value) for c in spec_calls for k in c.keywords}
            if kws.get("could_be_none") == "could_be_none" and kws.get("type") == "shape_type" and kws.get("expression") == "'value'":
                rep.ok(rule, f"{meth}: root spec carries shape_type, 'value' and could_be_none", None)
            else:
                rep.violation(rule, fi.key, f"{meth}: root spec is ValueSpec(type={kws.get('type')}, expression={kws.get('expression')}, could_be_none={kws.get('could_be_none')})",
                              "the root spec of a codec must carry the shape, the expression 'value' and the computed nullability", loc=_loc(fi, assigns[0]))
        else:
            rep.violation(rule, fi.key, f"{meth}: {var} is assigned {len(assigns)} times" + (f", last: {ast.unparse(assigns[-1])[:80]}" if assigns else ""),
                          "the wrapper must return the registry expression itself; text spliced around it afterwards is outside what the "
                          "registry generated (e.g. a None guard outside the post-encoder hands None to the caller instead of the encoded null)",
                          loc=_loc(fi, assigns[-1]) if assigns else fi.loc)
        rets = []
        for node in _own_nodes(fi.node):
            if isinstance(node, ast.Call) and isinstance(node.func, ast.Attribute) and node.func.attr == "add_line" and node.args:
                a = node.args[0]
                txt = "".join(str(v.value) if isinstance(v, ast.Constant) else "{" + ast.unparse(v.value) + "}" for v in a.values) if isinstance(a, ast.JoinedStr) \
                    else (a.value if isinstance(a, ast.Constant) and isinstance(a.value, str) else "{" + ast.unparse(a) + "}")
                if txt.startswith("return") or not isinstance(a, (ast.JoinedStr, ast.Constant)):
                    rets.append((txt, node))
        for txt, node in rets:
            if txt in wraps:
                rep.ok(rule, f"{meth}: `{txt}`", None)
            else:
                rep.violation(rule, fi.key, f"{meth}: emits `{txt[:80]}`", f"the wrapper's return line must be one of {sorted(wraps)}", loc=_loc(fi, node))
        if not rets:
            raise AnalysisError(f"{meth}: no return line found")
    rep.floor(rule, 7)


# ------------------------------------------------------------------------------------------------ named tuple field names
def namedtuple_field_names_quoted(repo: Repo, rep: Report, rule: str) -> None:
    """In pack_named_tuple / unpack_named_tuple a field name taken from `_fields` is rendered into generated text only
    as a quoted key ('{name}' or {name!r}), never in identifier position: names given to the functional NamedTuple API
    are not NFKC-normalised, but the compiler normalises identifiers, so `value.<name>` / `<name>=...` may name a
    different attribute than the tuple has."""
    n = 0
    for mod, fn in ((M_PACK, "pack_named_tuple"), (M_UNPACK, "unpack_named_tuple")):
        fi = repo.func(mod, fn)
        tainted: Set[str] = set()
        for node in _own_nodes(fi.node):
            if not isinstance(node, (ast.For, ast.comprehension)):
                continue
            it = node.iter
            names_in = {x.id for x in ast.walk(it) if isinstance(x, ast.Name)}
            if not names_in & {"fields", "field_indices"}:
                continue
            tgt = node.target
            if isinstance(tgt, ast.Name):
                tainted.add(tgt.id)
                continue
            elts = list(tgt.elts) if isinstance(tgt, ast.Tuple) else []
            pos: Set[int] = set(range(len(elts)))
            if isinstance(it, ast.Call) and isinstance(it.func, ast.Name) and it.func.id == "zip":
                pos = {i for i, a in enumerate(it.args) if any(isinstance(x, ast.Name) and x.id in ("fields", "field_indices") for x in ast.walk(a))}
            elif (isinstance(it, ast.Call) and isinstance(it.func, ast.Name) and it.func.id == "enumerate") or (isinstance(it, ast.Name) and it.id == "field_indices"):
                pos = {1}
            for i, e in enumerate(elts):
                if i in pos:
                    tainted |= {x.id for x in ast.walk(e) if isinstance(x, ast.Name)}
        if not tainted:
            raise AnalysisError(f"{fn}: no iteration over the named tuple's fields found")
        for js in _own_nodes(fi.node):
            if not isinstance(js, ast.JoinedStr):
                continue
            for i, v in enumerate(js.values):
                if not (isinstance(v, ast.FormattedValue) and any(isinstance(x, ast.Name) and x.id in tainted for x in ast.walk(v.value))):
                    continue
                n += 1
                prev = js.values[i - 1] if i > 0 else None
                nxt = js.values[i + 1] if i + 1 < len(js.values) else None
                quoted = isinstance(prev, ast.Constant) and str(prev.value).endswith("'") and isinstance(nxt, ast.Constant) and str(nxt.value).startswith("'")
                inst = f"{fn}: `{ast.unparse(js)[:70]}`"
                if v.conversion == ord("r") or quoted:
                    rep.ok(rule, inst, None)
                else:
                    rep.violation(rule, fi.key, inst, "a named-tuple field name is rendered in identifier position; the compiler NFKC-normalises "
                                  "identifiers, so a valid but non-normalised field name addresses another attribute (only quoted keys and "
                                  "positions are exact)", loc=_loc(fi, js))
    rep.floor(rule, 2)


# ------------------------------------------------------------------------------------------------ union class guard
def union_guard_class(repo: Repo, rep: Report, rule: str) -> None:
    """pack_union tests pass-through members with `value.__class__ is/in <names>`; every member type named there is
    first reduced to its runtime class (`if is_generic(t): t = get_type_origin(t)`): no value's __class__ is ever a
    generic alias such as List[int], so a guard naming the alias never matches and the member is rejected."""
    fi = repo.func(M_PACK, "pack_union")
    loops = [n for n in _own_nodes(fi.node) if isinstance(n, ast.For) and isinstance(n.target, ast.Name) and "packer_arg_types[" in ast.unparse(n.iter)]
    if not loops:
        raise AnalysisError("pack_union: loop over the member types of one packer not found")
    for lp in loops:
        v = lp.target.id
        normalised = False
        first_use = None
        for st in lp.body:
            if isinstance(st, ast.If) and ast.unparse(st.test) == f"is_generic({v})" and len(st.body) == 1 and not st.orelse \
                    and ast.unparse(st.body[0]) == f"{v} = get_type_origin({v})":
                normalised = True
                break
            if any(isinstance(x, ast.Name) and x.id == v for x in ast.walk(st)):
                first_use = st
                break
        inst = f"pack_union: member type `{v}` of the class guard"
        if normalised:
            rep.ok(rule, inst + " is reduced to its origin class before it is named", None)
        else:
            rep.violation(rule, fi.key, inst + " is named without get_type_origin()", "the class-identity guard of a pass-through union member must name "
                          "the runtime class: `value.__class__ is typing.List[int]` is never true, so lists / dicts of pass-through items are "
                          "rejected by the union under the no-copy formats", loc=_loc(fi, first_use or lp))
    rep.floor(rule, 1)


# ------------------------------------------------------------------------------------------------ override consulted first
def override_consulted_first(repo: Repo, rep: Report, rule: str) -> None:
    """The three creators for overridden (de)serialization -- packer, unpacker, schema -- consult the override look-up
    as their first action: no return / branch on the type precedes it.  (Sibling agreement: a type family the schema
    exempts from the look-up is still converted by the packer, so document and schema disagree.)"""
    for mod, fn, lookup in ((M_PACK, "pack_type_with_overridden_serialization", "get_overridden_serialization_method"),
                            (M_UNPACK, "unpack_type_with_overridden_deserialization", "get_overridden_deserialization_method"),
                            (M_SCHEMA, "on_type_with_overridden_serialization", "get_overridden_serialization_method")):
        fi = repo.func(mod, fn)
        first = next((st for st in fi.node.body if not isinstance(st, (ast.FunctionDef, ast.Expr))), None)
        called = first is not None and isinstance(first, (ast.Assign, ast.AnnAssign)) and any(
            isinstance(c, ast.Call) and (getattr(c.func, "id", None) == lookup or getattr(c.func, "attr", None) == lookup) for c in ast.walk(first))
        inst = f"{fn}: first action is the {lookup} look-up"
        if called:
            rep.ok(rule, inst, None)
        else:
            rep.violation(rule, fi.key, f"{fn}: `{ast.unparse(first)[:70] if first is not None else ''}` precedes the override look-up",
                          "an override declared for the type (field option, Config / dialect strategy) must be consulted for every type family "
                          "before anything else decides; the sibling creators of the other direction / the schema do so", loc=_loc(fi, first or fi.node))
    rep.floor(rule, 3)


# ------------------------------------------------------------------------------------------------ namespace defaults
def namespace_default_is_value(repo: Repo, rep: Report, rule: str) -> None:
    """Instance.fields may take a field's default from the class namespace; a dataclass with slots=True keeps a
    *member descriptor* under the name of every field there, which is not a default value.  Every assignment
    `x = <...>.namespace.get(<name>, MISSING)` in the schema module is therefore followed, in the same block, by
    `if isinstance(x, MemberDescriptorType): x = MISSING` (or the namespace is not consulted at all)."""
    fi = repo.func(M_SCHEMA, "Instance.fields")
    n = 0

    def blocks(node):
        for ch in ast.walk(node):
            for attr in ("body", "orelse", "finalbody"):
                b = getattr(ch, attr, None)
                if isinstance(b, list) and b and isinstance(b[0], ast.stmt):
                    yield b

    for body in blocks(fi.node):
        for i, st in enumerate(body):
            if not (isinstance(st, ast.Assign) and len(st.targets) == 1 and isinstance(st.targets[0], ast.Name)
                    and isinstance(st.value, ast.Call) and isinstance(st.value.func, ast.Attribute) and st.value.func.attr == "get"
                    and ast.unparse(st.value.func.value).endswith("namespace")):
                continue
            n += 1
            x = st.targets[0].id
            guarded = False
            for nx in body[i + 1:]:
                if isinstance(nx, ast.If) and isinstance(nx.test, ast.Call) and ast.unparse(nx.test.func) == "isinstance" and len(nx.test.args) == 2 \
                        and ast.unparse(nx.test.args[0]) == x and "MemberDescriptorType" in ast.unparse(nx.test.args[1]) \
                        and any(ast.unparse(s) == f"{x} = MISSING" for s in nx.body):
                    guarded = True
                    break
                if any(isinstance(k, ast.Name) and k.id == x for k in ast.walk(nx)):
                    break  # used before any such guard
            inst = f"Instance.fields: `{ast.unparse(st)[:70]}`"
            if guarded:
                rep.ok(rule, inst + " is filtered for slot member descriptors", None)
            else:
                rep.violation(rule, fi.key, inst + " may yield a slot member descriptor",
                              "for a dataclass with slots=True the class namespace holds a member descriptor under each field name: it is "
                              "rendered as the field's `default`, which is not a JSON value (the schema document cannot be serialized)", loc=_loc(fi, st))
    if n == 0:
        rep.ok(rule, "Instance.fields does not consult the class namespace for defaults", None)
    rep.floor(rule, 1)
