"""Sensitivity audit (thorough tier): the confirmed seeded changes of a property (/verif/seeded/<ID>-m*/patch.diff --
each breaks the property, compiles, and passes the unedited test suite) are applied one at a time to a scratch copy
of the current /repo/mashumaro outside /repo and /verif, the property's quick check is run on the copy, and the
outcome is recorded in the evidence.  The audit is informational: it never changes the verdict on the real tree
(a patch that no longer applies to the current tree is `not_applicable`)."""

from __future__ import annotations

import glob
import json
import os
import shutil
import subprocess
import sys
import tempfile
from concurrent.futures import ThreadPoolExecutor
from typing import Dict

from .. import REPO, VERIF


def _one(prop: str, sdir: str) -> Dict:
    seed = os.path.basename(sdir)
    tmp = tempfile.mkdtemp(prefix=f"mashverif-sens-{seed}-")
    try:
        shutil.copytree(os.path.join(REPO, "mashumaro"), os.path.join(tmp, "mashumaro"))
        r = subprocess.run(["git", "apply", os.path.join(sdir, "patch.diff")], cwd=tmp, capture_output=True, text=True)
        if r.returncode != 0:
            return {"seed": seed, "outcome": "not_applicable", "why": "patch does not apply to the current tree"}
        env = dict(os.environ, MASHVERIF_REPO=tmp, MASHVERIF_EVIDENCE_DIR=os.path.join(tmp, "evidence"), MASHVERIF_NO_SENSITIVITY="1")
        r = subprocess.run([sys.executable, "-m", "mashverif", "check", prop, "--tier", "quick"], cwd=VERIF, env=env, capture_output=True, text=True, timeout=3000)
        rules = sorted({l.split("[", 1)[1].split("]", 1)[0] for l in r.stdout.splitlines() if ": [R" in l})
        try:
            summary = json.load(open(os.path.join(sdir, "meta.json"))).get("summary", "")[:200]
        except Exception:
            summary = ""
        return {"seed": seed, "outcome": {0: "missed", 1: "detected"}.get(r.returncode, "undecided"), "rules": rules, "change": summary}
    except Exception as e:  # pragma: no cover
        return {"seed": seed, "outcome": "error", "why": f"{type(e).__name__}: {e}"}
    finally:
        shutil.rmtree(tmp, ignore_errors=True)


def audit(prop: str, rep) -> None:
    if os.environ.get("MASHVERIF_NO_SENSITIVITY"):
        return
    dirs = sorted(d for d in glob.glob(os.path.join(VERIF, "seeded", f"{prop}-m*")) if os.path.isfile(os.path.join(d, "patch.diff")))
    if not dirs:
        return
    with ThreadPoolExecutor(min(4, len(dirs))) as ex:
        res = list(ex.map(lambda d: _one(prop, d), dirs))
    counts: Dict[str, int] = {}
    for r in res:
        counts[r["outcome"]] = counts.get(r["outcome"], 0) + 1
    rep.analysed["sensitivity"] = {"seeded_changes": len(res), **counts, "results": res}
    rep.notes.append(f"sensitivity audit over {len(res)} seeded changes of this property: {counts}")
    print(f"SENSITIVITY property={prop} " + " ".join(f"{k}={v}" for k, v in sorted(counts.items())))
