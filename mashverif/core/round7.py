"""Shape rules added after the seventh round of seeded changes (pure ``ast``; each with a vacuity floor)."""

from __future__ import annotations

import ast
from typing import Dict, List, Optional, Set

from .report import Report
from .round5 import _loc, _own_nodes
from .srcmodel import AnalysisError, M_BUILDER, M_CODEC_BUILDER, M_SCHEMA, M_UNPACK, FuncInfo, Repo


def _parents(fn: ast.AST) -> Dict[ast.AST, ast.AST]:
    par: Dict[ast.AST, ast.AST] = {}
    for n in ast.walk(fn):
        for c in ast.iter_child_nodes(n):
            par[c] = n
    return par


def _is_indent_with(node: ast.AST, prefix: str) -> Optional[ast.AST]:
    """`with <x>.indent(<template starting with prefix>)` -> the template node"""
    if not isinstance(node, ast.With):
        return None
    for it in node.items:
        c = it.context_expr
        if isinstance(c, ast.Call) and isinstance(c.func, ast.Attribute) and c.func.attr == "indent" and c.args:
            a = c.args[0]
            text = None
            if isinstance(a, ast.Constant) and isinstance(a.value, str):
                text = a.value
            elif isinstance(a, ast.JoinedStr) and a.values and isinstance(a.values[0], ast.Constant):
                text = str(a.values[0].value)
            if text is not None and text.startswith(prefix):
                return a
    return None


# ------------------------------------------------------------------------------------------------ R11.15
def literal_conditions_guarded(repo: Repo, rep: Report, rule: str) -> None:
    """The Literal unpacker tries the declared values one after another.  A condition that splices a *converter expression*
    (the result of ``UnpackerRegistry.get``: a constructor / parser call that raises on foreign input) must sit inside an
    emitted ``try:`` -- otherwise the first value whose converter rejects the input ends the whole match and the later
    declared values are never compared.  Conditions over the raw ``value`` need no guard."""
    fi = repo.funcs.get(f"{M_UNPACK}::LiteralUnpackerBuilder._add_body")
    if fi is None:
        raise AnalysisError("LiteralUnpackerBuilder._add_body not found")
    par = _parents(fi.node)
    conv: Set[str] = set()
    for n in _own_nodes(fi.node):
        if isinstance(n, ast.Assign) and isinstance(n.value, ast.Call) and isinstance(n.value.func, ast.Attribute) and n.value.func.attr == "get" \
                and "Registry" in ast.unparse(n.value.func.value):
            for t in n.targets:
                if isinstance(t, ast.Name):
                    conv.add(t.id)
    seen = 0
    for n in _own_nodes(fi.node):
        tmpl = _is_indent_with(n, "if ")
        if tmpl is None:
            continue
        seen += 1
        holes = [v.value for v in tmpl.values if isinstance(v, ast.FormattedValue)] if isinstance(tmpl, ast.JoinedStr) else []
        uses_conv = any(isinstance(x, ast.Name) and x.id in conv for h in holes for x in ast.walk(h)) or \
            any(isinstance(x, ast.Call) and isinstance(x.func, ast.Attribute) and x.func.attr == "get" and "Registry" in ast.unparse(x.func.value) for h in holes for x in ast.walk(h))
        inst = f"LiteralUnpackerBuilder._add_body: `{ast.unparse(tmpl)[:90]}`"
        if not uses_conv:
            rep.ok(rule, inst + " (raw comparison)", None, nontrivial=False)
            continue
        guarded = False
        p = par.get(n)
        while p is not None and p is not fi.node:
            if _is_indent_with(p, "try:") is not None:
                guarded = True
                break
            p = par.get(p)
        if guarded:
            rep.ok(rule, inst + " (converter inside an emitted try:)", None)
        else:
            rep.violation(rule, fi.key, inst, "the condition calls a converter that raises on foreign input, outside any emitted `try:`: an input equal to a "
                          "later declared value is rejected (or, inside a Union, the Literal member is skipped) as soon as an earlier value's converter refuses it",
                          loc=_loc(fi, n))
    rep.floor(rule, 3)


# ------------------------------------------------------------------------------------------------ R18.10
def root_pack_specs_carry_no_copy(repo: Repo, rep: Report, rule: str) -> None:
    """Every *root* ValueSpec handed to the packer registry (a dataclass field, a codec shape) passes
    ``no_copy_collections=<builder>.get_dialect_or_config_option("no_copy_collections", ())``: nested positions inherit it through
    spec.copy, so a root that omits it makes the dialect's option apply to dataclass fields but not to the codec's own shape."""
    seen = 0
    for key in (f"{M_BUILDER}::CodeBuilder._get_field_packer", f"{M_CODEC_BUILDER}::CodecCodeBuilder.add_encode_method"):
        fi = repo.funcs.get(key)
        if fi is None:
            # the field packer may live under another private name: fall back to any function that calls PackerRegistry.get(ValueSpec(...))
            continue
    for fi in repo.funcs.values():
        if fi.module not in (M_BUILDER, M_CODEC_BUILDER):
            continue
        for n in _own_nodes(fi.node):
            if not (isinstance(n, ast.Call) and isinstance(n.func, ast.Attribute) and n.func.attr == "get" and ast.unparse(n.func.value) == "PackerRegistry"):
                continue
            specs = [a for a in list(n.args) + [k.value for k in n.keywords] if isinstance(a, ast.Call) and isinstance(a.func, ast.Name) and a.func.id == "ValueSpec"]
            for sp in specs:
                seen += 1
                kw = {k.arg: k.value for k in sp.keywords}
                v = kw.get("no_copy_collections")
                inst = f"{fi.qualname}: root pack spec"
                ok = (isinstance(v, ast.Call) and isinstance(v.func, ast.Attribute) and v.func.attr == "get_dialect_or_config_option" and v.args
                      and isinstance(v.args[0], ast.Constant) and v.args[0].value == "no_copy_collections")
                if ok:
                    rep.ok(rule, inst + f" passes no_copy_collections={ast.unparse(v)}", None)
                else:
                    rep.violation(rule, fi.key, inst, "the root ValueSpec handed to PackerRegistry.get does not carry the dialect / config option "
                                  f"no_copy_collections (found: {ast.unparse(v) if v is not None else 'absent'}); the sibling root site does, so the same "
                                  "collection is copied through one entry point and passed by reference through the other", loc=_loc(fi, sp))
    rep.floor(rule, 2)


# ------------------------------------------------------------------------------------------------ R20.14
def no_memoised_schema_functions(repo: Repo, rep: Report, rule: str) -> None:
    """No function of mashumaro/jsonschema is memoised on its arguments (functools.lru_cache / cache): the arguments are
    types and Annotated metadata (legally unhashable: ``Annotated[int, DependentRequired({...})]``, a list) and per-call
    configuration; ``cached_property`` (per Instance, no hashing of arguments) is the accepted idiom."""
    seen = 0
    for fi in repo.funcs.values():
        if not fi.module.startswith("mashumaro.jsonschema"):
            continue
        seen += 1
        decos = [ast.unparse(d) for d in fi.node.decorator_list]
        bad = [d for d in decos if d.split("(")[0].split(".")[-1] in ("lru_cache", "cache")]
        takes_args = len(fi.node.args.args) > (1 if fi.node.args.args and fi.node.args.args[0].arg in ("self", "cls") else 0)
        if bad and takes_args:
            rep.violation(rule, fi.key, f"{fi.qualname} is decorated with {bad[0]}", "schema functions receive types / Annotated metadata / configuration "
                          "classes as arguments; memoising on them raises TypeError for unhashable metadata and shares results across "
                          "configurations", loc=_loc(fi, fi.node))
        else:
            rep.ok(rule, f"{fi.qualname}: not memoised on its arguments", None, nontrivial=bool(decos))
    rep.floor(rule, 40)


# ------------------------------------------------------------------------------------------------ R17.15
def type_refs_not_by_bare_name(repo: Repo, rep: Report, rule: str) -> None:
    """A type reference spliced into generated *code* is rendered by get_type_name_identifier / type_name (module-qualified,
    modules registered) or bound with ensure_object_imported.  ``<type>.__name__`` / ``.__qualname__`` is a bare name that is
    in the generated namespace only for builtins: for a NewType, a str subclass, an Annotated alias or a local class the
    generated function has a free variable (NameError on every call).  ``__name__`` as a *part of an identifier* (helper
    method names such as ``__unpack_union_<cls>_<field>__``) is the accepted idiom."""
    from .srcmodel import M_PACK
    seen = 0
    for fi in repo.funcs.values():
        if fi.module not in (M_PACK, M_UNPACK, M_BUILDER, M_CODEC_BUILDER, "mashumaro.core.meta.types.common"):
            continue
        for n in _own_nodes(fi.node):
            if not isinstance(n, ast.JoinedStr):
                continue
            holes = [v for v in n.values if isinstance(v, ast.FormattedValue)]
            named = [h for h in holes if isinstance(h.value, ast.Attribute) and h.value.attr in ("__name__", "__qualname__")]
            if not named:
                continue
            skeleton = "".join(str(v.value) if isinstance(v, ast.Constant) else "h" for v in n.values)
            for h in named:
                seen += 1
                inst = f"{fi.qualname}: `{ast.unparse(n)[:90]}`"
                if skeleton.isidentifier():
                    rep.ok(rule, inst + " (part of an identifier)", None, nontrivial=False)
                else:
                    rep.violation(rule, fi.key, f"{fi.qualname}: {ast.unparse(h.value)} spliced into code `{skeleton[:60]}`",
                                  "the bare class name is a free variable of the generated function unless the type is a builtin: a NewType, a "
                                  "str / int subclass, an Annotated alias or a local class as the union member makes every call raise NameError "
                                  "(reported as InvalidFieldValue for any input)", loc=_loc(fi, n))
    rep.floor(rule, 5)


# ------------------------------------------------------------------------------------------------ R05.17
def nullability_on_substituted_type(repo: Repo, rep: Report, rule: str) -> None:
    """Registry.get dispatches on ``get_real_type(name, type)`` -- the type with the owner's type parameters substituted.  The
    field-level None guard must be decided on the same type: ``is_optional(ftype, resolved_params)`` only looks *inside* a union
    for a parameter bound to NoneType; a field ``x: T`` of ``Box[Optional[date]]`` dispatches to the Optional handler but gets
    no guard (pack side: AttributeError on None).  Accepted: the first argument of is_optional is a ``get_real_type(...)`` call."""
    seen = 0
    for fi in repo.funcs.values():
        if fi.module != M_BUILDER:
            continue
        for st in _own_nodes(fi.node):
            if not (isinstance(st, ast.Assign) and isinstance(st.value, ast.BoolOp) and isinstance(st.value.op, ast.Or)):
                continue
            for v in st.value.values:
                for c in ast.walk(v):
                    if isinstance(c, ast.Call) and isinstance(c.func, ast.Name) and c.func.id == "is_optional" and c.args:
                        seen += 1
                        a0 = c.args[0]
                        inst = f"{fi.qualname}: {ast.unparse(c)}"
                        if isinstance(a0, ast.Name):  # a local bound once to the substituted type
                            binds = [n.value for n in _own_nodes(fi.node) if isinstance(n, ast.Assign) and any(isinstance(t, ast.Name) and t.id == a0.id for t in n.targets)]
                            if len(binds) == 1:
                                a0 = binds[0]
                        if isinstance(a0, ast.Call) and isinstance(a0.func, ast.Attribute) and a0.func.attr == "get_real_type":
                            rep.ok(rule, inst, None)
                        else:
                            rep.violation(rule, fi.key, f"{fi.qualname}: is_optional({ast.unparse(a0)}, ...)",
                                          "the None guard is decided on the declared type although the converter is chosen for the substituted one: a "
                                          "TypeVar field of a generic dataclass specialised with Optional[X] is packed without a None guard", loc=_loc(fi, st))
    rep.floor(rule, 2)
