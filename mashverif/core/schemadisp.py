"""Dispatch simulation of the JSON Schema creator registry (mashumaro/jsonschema/schema.py)."""

from __future__ import annotations

import ast
from typing import Any, Dict, List, Optional, Tuple

from .dispatch import Dispatcher, Entry, lift, _origin
from .pe import Path
from .pe_exec import Evaluator
from .srcmodel import AnalysisError, M_SCHEMA, M_SCHEMA_MODELS, Repo, Undecided
from .values import ClsRef, Const, Dct, Func, Lst, Obj, Py, Sym, Tmpl, Tup, V, show

INSTANCE = f"{M_SCHEMA}::Instance"
CONTEXT = f"{M_SCHEMA_MODELS}::Context"


class SchemaDispatcher(Dispatcher):
    def __init__(self, repo: Repo):
        super().__init__(repo, "PACK")
        ev = self.ev
        ev.inline_modules = frozenset(set(ev.inline_modules) | {M_SCHEMA})
        import re as _re

        ev.assume.append((_re.compile(r"^None in BASIC_TYPES$"), False))  # BASIC_TYPES = {str, int, float, bool}
        ev.inline_depth = 24  # nested Unpack[...] layouts recurse get_schema -> creators -> on_tuple three levels deep
        ev.max_recursion = 10
        # budgets: the largest catalogue entry takes ~700 statement steps on the current tree; a change that makes the
        # evaluation explode is reported as undecided for that entry after seconds, not after an hour
        ev.max_steps = 8000
        ev.max_paths = 400
        mi = repo.module(M_SCHEMA)
        self.creators = [repo.func(M_SCHEMA, n.name) for n in mi.tree.body
                         if isinstance(n, ast.FunctionDef) and any(ast.unparse(d) == "register" for d in n.decorator_list)]
        if len(self.creators) < 12:
            raise AnalysisError(f"only {len(self.creators)} registered schema creators")
        ev.models["method:iter"] = self._registry_iter
        ev.models["method:derive"] = self._derive
        ev.models["method:get_overridden_serialization_method"] = lambda pe, recv, a, kw, p, e: [(Const(None), p)] if isinstance(recv, Obj) and recv.cls == INSTANCE else None
        ev.models["method:get_owner_dialect_or_config_option"] = lambda pe, recv, a, kw, p, e: [(a[1], p)] if isinstance(recv, Obj) and recv.cls == INSTANCE and len(a) == 2 else None
        ev.models["method:get_self_config"] = lambda pe, recv, a, kw, p, e: [(Sym("BaseConfig"), p)] if isinstance(recv, Obj) and recv.cls == INSTANCE else None
        ev.models[f"{M_SCHEMA}::_default"] = lambda pe, fv, a, kw, p, e: [(Sym("DEFAULT_VALUE"), p)]
        orig = ev.call_py

        def call_py(fv, args, kwargs, p, e):
            import builtins as _b

            if fv.obj is _b.isinstance and len(args) == 2 and isinstance(args[0], Obj) and isinstance(args[1], ClsRef):
                ci = repo.classes.get(args[0].cls)
                if ci is not None:
                    return [(Const(args[1].ci in repo.mro(ci)), p)]
            return orig(fv, args, kwargs, p, e)

        ev.call_py = call_py  # type: ignore[assignment]

    def _registry_iter(self, pe, recv, args, kwargs, p, e):
        if isinstance(recv, Sym) and recv.name == "Registry":
            return [(Lst([Func(f) for f in self.creators], name="creators"), p)]
        return None

    def make_instance(self, p: Path, t: Any) -> Obj:
        return self.ev.new_obj(p, INSTANCE, {
            "type": lift(t), "origin_type": lift(_origin(t)), "name": Const(None), "annotations": Lst([]),
            "_Instance__owner_builder": Const(None), "_Instance__self_builder": Const(None), "owner_class": Const(None),
            "metadata": Dct("dict", {}, name="metadata")})

    def _derive(self, pe, recv, args, kwargs, p, e):
        if not (isinstance(recv, Obj) and recv.cls == INSTANCE):
            return None
        t = kwargs.get("type")
        attrs = dict(p.heap.get(recv.oid, {}))
        if isinstance(t, Py):
            attrs["type"] = t
            attrs["origin_type"] = lift(_origin(t.obj))
        elif t is not None:
            attrs["type"] = t
            attrs["origin_type"] = Sym(f"origin({show(t)})")
        if "name" in kwargs:
            attrs["name"] = kwargs["name"]
        return [(pe.new_obj(p, INSTANCE, attrs), p)]

    def schema_of(self, entry: Entry) -> List[Tuple[Optional[V], Path, Optional[str]]]:
        ev = self.ev
        ev.steps = 0
        p = Path()
        inst = self.make_instance(p, entry.type)
        ctx = ev.new_obj(p, CONTEXT, {"all_refs": Const(False), "definitions": Dct("dict", {}, name="definitions"), "dialect": Sym("ctx.dialect"),
                                      "ref_prefix": Sym("ctx.ref_prefix"), "plugins": Lst([])})
        fi = self.repo.func(M_SCHEMA, "get_schema")
        dummy = ast.parse("f(x)").body[0].value
        res = ev.call_func(Func(fi), [inst, ctx], {}, p, dummy, force=True)
        out = []
        for v, q in res:
            if q.ctl == "raise":
                exc = next((show(x[1]) for x in reversed(q.events) if x and x[0] == "raise"), "?")
                out.append((None, q, exc))
                q.ctl = None
            else:
                out.append((v, q, None))
        return out


def enum_values(repo: Repo, cls_name: str) -> Dict[str, Any]:
    ci = repo.cls(M_SCHEMA_MODELS, cls_name)
    out = {}
    for st in ci.node.body:
        if isinstance(st, ast.Assign) and isinstance(st.targets[0], ast.Name):
            try:
                out[st.targets[0].id] = ast.literal_eval(st.value)
            except Exception:
                pass
    return out


def describe(repo: Repo, v: V, p: Path, depth: int = 0) -> Any:
    """JSON-ish description of an abstract JSONSchema object."""
    types = enum_values(repo, "JSONSchemaInstanceType")
    if isinstance(v, Obj):
        a = p.heap.get(v.oid, {})
        out = {}
        cls = v.cls.split("::")[-1]
        if cls == "JSONObjectSchema":
            out["type"] = "object"
        elif cls == "JSONArraySchema":
            out["type"] = "array"
        elif cls == "EmptyJSONSchema":
            return {"<any>": True}
        for k, val in a.items():
            if isinstance(val, Const) and val.v is None:
                continue
            if k == "type" and isinstance(val, Sym) and val.name.startswith("JSONSchemaInstanceType."):
                out["type"] = types.get(val.name.split(".")[1], val.name)
            elif depth < 4:
                out[k] = describe(repo, val, p, depth + 1)
        return out
    if isinstance(v, Const):
        return v.v
    if isinstance(v, (Lst, Tup)):
        return [describe(repo, i, p, depth + 1) for i in v.items]
    if isinstance(v, Dct):
        return {k: describe(repo, vv, p, depth + 1) for k, (kv, vv) in v.entries.items()}
    return show(v)
