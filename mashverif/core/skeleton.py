"""E5 -- skeleton evaluator.

A *skeleton* is the text one generator path emits, with holes.  Holes are replaced by
marker identifiers, so the skeleton parses as Python; a tiny abstract interpreter then
enumerates all valuations of its run-time tests (atoms) and reports, per valuation, the
ordered stores, the outcome (return / raise / fall-through) and the calls evaluated.
Nothing is executed: expressions stay terms (normalised source text).
"""

from __future__ import annotations

import ast
import re
from dataclasses import dataclass, field
from typing import Any, Dict, List, Optional, Sequence, Tuple

from .pe import Line
from .srcmodel import Undecided
from .values import Hole, Sym, Tmpl, V, show

MARK = re.compile(r"_h(\d+)_")


class Rendered:
    def __init__(self):
        self.src = ""
        self.holes: Dict[str, Hole] = {}  # marker -> hole
        self.by_key: Dict[Any, str] = {}
        self.line_sites: List[Tuple[str, int]] = []

    def marker(self, h: Hole) -> str:
        k = h.key()
        if k not in self.by_key:
            m = f"_h{len(self.by_key)}_"
            self.by_key[k] = m
            self.holes[m] = h
        return self.by_key[k]

    def hole_of(self, text: str) -> Optional[Hole]:
        m = MARK.fullmatch(text.strip())
        return self.holes.get(m.group(0)) if m else None

    def holes_in(self, text: str) -> List[Hole]:
        return [self.holes[m.group(0)] for m in MARK.finditer(text) if m.group(0) in self.holes]

    def describe(self, text: str) -> str:
        return MARK.sub(lambda m: "{" + show(self.holes[m.group(0)].val) + "}" if m.group(0) in self.holes else m.group(0), text)


def render_tmpl(t: Tmpl, r: Rendered) -> str:
    out = []
    for p in t.parts:
        if isinstance(p, str):
            out.append(p)
        elif p.more:
            r.marker(p)  # registered (so rules can see it) but renders as no further element
        elif p.conv == "r" and isinstance(p.val, Tmpl):
            # repr() of a string built from a template: a string literal whose text is that template
            out.append(repr(render_tmpl(p.val, r)))
        else:
            out.append(r.marker(p))
    return "".join(out)


def render(lines: Sequence[Line], wrap: bool = True, r: Optional[Rendered] = None) -> Rendered:
    r = r or Rendered()
    body = []
    for l in lines:
        body.append("    " * (l.depth + (1 if wrap else 0)) + render_tmpl(l.tmpl, r))
        r.line_sites.append(l.site)
    if wrap:
        r.src = "def _skeleton_():\n" + ("\n".join(body) if body else "    pass") + "\n"
    else:
        r.src = "\n".join(body) + "\n"
    return r


def parse(r: Rendered) -> ast.Module:
    try:
        return ast.parse(r.src)
    except SyntaxError as e:
        raise SkeletonSyntaxError(str(e), r)


class SkeletonSyntaxError(Exception):
    def __init__(self, msg: str, r: Rendered):
        super().__init__(msg)
        self.rendered = r


# --------------------------------------------------------------------------- interpreter
@dataclass
class Outcome:
    kind: str  # 'return' | 'raise' | 'fall'
    value: str = ""  # term text
    node: Optional[ast.AST] = None


@dataclass
class Run:
    atoms: Dict[str, bool]
    stores: List[Tuple[str, str, str]]  # (target kind, key/target text, value text)
    calls: List[str]
    outcome: Outcome
    env: Dict[str, str]


class _Subst(ast.NodeTransformer):
    def __init__(self, env: Dict[str, ast.expr]):
        self.env = env

    def visit_Name(self, node: ast.Name):
        if isinstance(node.ctx, ast.Load) and node.id in self.env:
            return self.env[node.id]
        return node


class SkelInterp:
    """Enumerates run-time valuations of one skeleton function body."""

    def __init__(self, may_raise=None, max_runs: int = 4096, atom_hint=None):
        # may_raise(stmt_text) -> bool : does evaluating this statement possibly raise?
        self.may_raise = may_raise or (lambda text, node: False)
        self.max_runs = max_runs
        self.runs: List[Run] = []

    def term(self, e: ast.expr, env: Dict[str, ast.expr]) -> ast.expr:
        import copy

        return _Subst(env).visit(copy.deepcopy(e))

    def text(self, e: ast.expr, env) -> str:
        return ast.unparse(self.term(e, env))

    # ---------------------------------------------------------------- conditions
    def cond(self, e: ast.expr, st: "_St") -> List[Tuple[bool, "_St"]]:
        if isinstance(e, ast.BoolOp):
            isand = isinstance(e.op, ast.And)
            out = []

            def rec(i, s):
                if i == len(e.values):
                    out.append((isand, s))
                    return
                for b, s2 in self.cond(e.values[i], s):
                    if b != isand:
                        out.append((b, s2))
                    else:
                        rec(i + 1, s2)

            rec(0, st)
            return out
        if isinstance(e, ast.UnaryOp) and isinstance(e.op, ast.Not):
            return [(not b, s) for b, s in self.cond(e.operand, st)]
        if isinstance(e, ast.Constant):
            return [(bool(e.value), st)]
        neg = False
        if isinstance(e, ast.Compare) and len(e.ops) == 1:
            op = e.ops[0]
            l = self.text(e.left, st.env)
            r = self.text(e.comparators[0], st.env)
            if isinstance(op, (ast.Is, ast.IsNot)):
                key = f"{l} is {r}"
                neg = isinstance(op, ast.IsNot)
                # literal facts: a constant is never MISSING / None unless it is that constant
                tl = self.term(e.left, st.env)
                if isinstance(tl, ast.Constant) and isinstance(self.term(e.comparators[0], st.env), (ast.Constant, ast.Name)):
                    tr = self.term(e.comparators[0], st.env)
                    if isinstance(tr, ast.Constant):
                        return [((tl.value is tr.value) != neg, st)]
                    return [(False != neg, st)]
            elif isinstance(op, (ast.Eq, ast.NotEq)):
                key = f"{l} == {r}"
                neg = isinstance(op, ast.NotEq)
            elif isinstance(op, (ast.In, ast.NotIn)):
                key = f"{l} in {r}"
                neg = isinstance(op, ast.NotIn)
            else:
                key = f"{l} {type(op).__name__} {r}"
        else:
            key = f"bool({self.text(e, st.env)})"
        return [(b != neg, s) for b, s in self.atom(key, st)]

    def atom(self, key: str, st: "_St"):
        if key in st.atoms:
            return [(st.atoms[key], st)]
        # X is None  =>  not bool(X); bool(X) => not (X is None)
        m = re.fullmatch(r"(.+) is None", key)
        if m and st.atoms.get(f"bool({m.group(1)})") is True:
            return [(False, st)]
        m = re.fullmatch(r"bool\((.+)\)", key)
        if m and st.atoms.get(f"{m.group(1)} is None") is True:
            return [(False, st)]
        # X is MISSING and X is None are exclusive
        m = re.fullmatch(r"(.+) is (None|MISSING)", key)
        if m:
            other = "MISSING" if m.group(2) == "None" else "None"
            if st.atoms.get(f"{m.group(1)} is {other}") is True:
                return [(False, st)]
        a = st.clone()
        a.atoms[key] = True
        st.atoms[key] = False
        return [(True, a), (False, st)]

    # ---------------------------------------------------------------- statements
    def run_body(self, body: Sequence[ast.stmt], env0=None) -> List[Run]:
        st = _St()
        st.env = dict(env0 or {})
        finals = self.block(list(body), [st])
        out = []
        for s in finals:
            oc = s.outcome or Outcome("fall")
            out.append(Run(dict(s.atoms), list(s.stores), list(s.calls), oc, {k: ast.unparse(v) for k, v in s.env.items()}))
        return out

    def block(self, stmts, states: List["_St"]) -> List["_St"]:
        for stn in stmts:
            nxt = []
            for s in states:
                if s.outcome is not None or s.loopctl:
                    nxt.append(s)
                else:
                    nxt.extend(self.stmt(stn, s))
            states = nxt
            if len(states) > self.max_runs:
                raise Undecided("skeleton valuation explosion")
        return states

    def note_calls(self, e: ast.AST, s: "_St"):
        for n in ast.walk(e):
            if isinstance(n, ast.Call):
                s.calls.append(self.text(n, s.env))

    def stmt(self, n: ast.stmt, s: "_St") -> List["_St"]:
        if isinstance(n, ast.Assign) and len(n.targets) == 1:
            t = n.targets[0]
            self.note_calls(n.value, s)
            val = self.term(n.value, s.env)
            if isinstance(t, ast.Name):
                s.stores.append(("name", t.id, ast.unparse(val)))
                if isinstance(n.value, (ast.Dict, ast.List, ast.Set)):
                    s.env.pop(t.id, None)  # a fresh mutable container: the variable stays symbolic
                else:
                    s.env[t.id] = val
            elif isinstance(t, ast.Subscript):
                s.stores.append(("item", f"{self.text(t.value, {})}[{self.text(t.slice, s.env)}]", ast.unparse(val)))
            elif isinstance(t, ast.Attribute):
                s.stores.append(("attr", self.text(t, {}), ast.unparse(val)))
            else:
                s.stores.append(("other", ast.unparse(t), ast.unparse(val)))
            return [s]
        if isinstance(n, ast.Expr):
            self.note_calls(n.value, s)
            s.stores.append(("expr", "", self.text(n.value, s.env)))
            return [s]
        if isinstance(n, ast.Return):
            if n.value is not None:
                self.note_calls(n.value, s)
            s.outcome = Outcome("return", self.text(n.value, s.env) if n.value is not None else "None", n)
            return [s]
        if isinstance(n, ast.Raise):
            s.outcome = Outcome("raise", self.text(n.exc, s.env) if n.exc is not None else "<reraise>", n)
            return [s]
        if isinstance(n, ast.Pass):
            return [s]
        if isinstance(n, ast.Continue):
            s.loopctl = "continue"
            return [s]
        if isinstance(n, ast.Break):
            s.loopctl = "break"
            return [s]
        if isinstance(n, ast.If):
            out = []
            for b, s2 in self.cond(n.test, s):
                out.extend(self.block(n.body if b else n.orelse, [s2]))
            return out
        if isinstance(n, ast.Try):
            out = []
            # exceptional exits: before each body statement that may raise
            cur = [s]
            for i, bst in enumerate(n.body):
                nxt = []
                for c in cur:
                    if c.outcome is not None:
                        nxt.append(c)
                        continue
                    txt = self.text_stmt(bst, c.env)
                    if self.may_raise(txt, bst):
                        for h in n.handlers:
                            hn = ast.unparse(h.type) if h.type is not None else "*"
                            key = f"raises[{hn}]({txt})"
                            res = self.atom(key, c)
                            keep = None
                            for b, c2 in res:
                                if b:
                                    c2.calls.append(f"<raised in> {txt}")
                                    out.extend(self.block(h.body, [c2]))
                                else:
                                    keep = c2
                            if keep is None:
                                break
                            c = keep
                        else:
                            nxt.extend(self.stmt(bst, c))
                            continue
                        continue
                    nxt.extend(self.stmt(bst, c))
                cur = nxt
            for c in cur:
                if c.outcome is None and n.orelse:
                    out.extend(self.block(n.orelse, [c]))
                else:
                    out.append(c)
            return out
        if isinstance(n, ast.For):
            # one generic iteration, then the loop may end (or never run)
            s0 = s.clone()
            key = f"iterates({self.text(n.iter, s.env)})"
            out = []
            for b, s2 in self.atom(key, s):
                if not b:
                    out.append(s2)
                    continue
                if isinstance(n.target, ast.Name):
                    s2.env[n.target.id] = ast.Name(f"<elem of {self.text(n.iter, s2.env)}>", ast.Load())
                for r in self.block(n.body, [s2]):
                    r.loopctl = None
                    out.append(r)
            return out
        if isinstance(n, (ast.FunctionDef, ast.ClassDef)):
            s.stores.append(("def", n.name, ""))
            return [s]
        if isinstance(n, ast.With):
            return self.block(n.body, [s])
        if isinstance(n, ast.AugAssign):
            s.stores.append(("aug", ast.unparse(n.target), self.text(n.value, s.env)))
            return [s]
        raise Undecided(f"skeleton statement {type(n).__name__} not modelled")

    def text_stmt(self, n: ast.stmt, env) -> str:
        import copy

        n2 = _Subst(env).visit(copy.deepcopy(n)) if not isinstance(n, (ast.If, ast.Try, ast.For)) else n
        # do not substitute assignment targets
        return ast.unparse(n2).split("\n")[0]


class _St:
    __slots__ = ("env", "atoms", "stores", "calls", "outcome", "loopctl")

    def __init__(self):
        self.env: Dict[str, ast.expr] = {}
        self.atoms: Dict[str, bool] = {}
        self.stores: List[Tuple[str, str, str]] = []
        self.calls: List[str] = []
        self.outcome: Optional[Outcome] = None
        self.loopctl = None

    def clone(self):
        c = _St()
        c.env = dict(self.env)
        c.atoms = dict(self.atoms)
        c.stores = list(self.stores)
        c.calls = list(self.calls)
        c.outcome = self.outcome
        c.loopctl = self.loopctl
        return c


def free_names(tree: ast.AST) -> Dict[str, List[ast.Name]]:
    """Names loaded in ``tree`` (no scoping)."""
    out: Dict[str, List[ast.Name]] = {}
    for n in ast.walk(tree):
        if isinstance(n, ast.Name) and isinstance(n.ctx, ast.Load):
            out.setdefault(n.id, []).append(n)
    return out
