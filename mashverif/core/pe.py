"""E4 -- path-enumerating partial evaluator over *generator* functions.

Walks the statement tree of a generator function of the repository with abstract
values (values.py).  Branch conditions the evaluator cannot decide become boolean
*atoms*: the path forks and each side remembers the atom's value.  Emissions into
``CodeLines`` buffers are recorded as templates with holes, with their indent
depth.  Repository code is never executed: unknown callees are opaque symbols.
"""

from __future__ import annotations

import ast
import importlib
import itertools
from typing import Any, Callable, Dict, List, Optional, Sequence, Tuple

from .srcmodel import (
    AnalysisError,
    ClassInfo,
    FuncInfo,
    M_BUILDER,
    M_COMMON,
    M_LINES,
    Repo,
    Undecided,
)
from .values import (
    ClsRef,
    Const,
    Dct,
    Func,
    Hole,
    LinesRef,
    Lst,
    Obj,
    Py,
    Sym,
    Tmpl,
    Tup,
    V,
    as_parts,
    is_stringy,
    show,
    to_tmpl,
)

STDLIB_OK = {
    "collections", "collections.abc", "typing", "typing_extensions", "enum", "os",
    "pathlib", "datetime", "uuid", "ipaddress", "decimal", "fractions", "re", "types",
    "zoneinfo", "base64", "dataclasses", "math", "abc", "contextlib", "functools",
    "inspect", "importlib", "builtins", "warnings",
}


class Line:
    __slots__ = ("depth", "tmpl", "site")

    def __init__(self, depth: int, tmpl: Tmpl, site: Tuple[str, int]):
        self.depth = depth
        self.tmpl = tmpl
        self.site = site  # (function key, line number)

    def key(self):
        return (self.depth, self.tmpl.key())

    def show(self) -> str:
        return "    " * self.depth + self.tmpl.show()


class Path:
    """One abstract execution state.  ``facts`` is the valuation of the atoms decided on the
    way here; ``alts`` are further valuations (of merged-away paths) that reached *exactly*
    the same state -- see Evaluator.merge / PE.focus (exact merging, nothing is invented)."""

    __slots__ = (
        "env", "facts", "alts", "since", "bufs", "ind", "heap", "events",
        "ctl", "retv", "frames", "counter", "trace",
    )

    def __init__(self):
        self.env: Dict[str, V] = {}
        self.facts: Dict[str, Any] = {}  # 'A|key'->bool, 'I|var'->const text, 'X|var'->frozenset
        self.alts: Tuple[Dict[str, Any], ...] = ()
        self.since: Dict[str, Any] = {}
        self.bufs: Dict[str, List[Line]] = {"main": []}
        self.ind: Dict[str, int] = {"main": 0}
        self.heap: Dict[str, Dict[str, V]] = {}
        self.events: List[Tuple] = []
        self.ctl: Optional[str] = None  # None | 'return' | 'continue' | 'break' | 'raise'
        self.retv: Optional[V] = None
        self.frames: List[Dict[str, Any]] = []
        self.counter = 0
        self.trace: List[str] = []

    def clone(self) -> "Path":
        p = Path()
        p.env = dict(self.env)
        p.facts = dict(self.facts)
        p.alts = self.alts
        p.since = dict(self.since)
        p.bufs = {k: list(v) for k, v in self.bufs.items()}
        p.ind = dict(self.ind)
        p.heap = {k: dict(v) for k, v in self.heap.items()}
        p.events = list(self.events)
        p.ctl = self.ctl
        p.retv = self.retv
        p.frames = [{"__env__": dict(f["__env__"]), "__visible__": f["__visible__"]} for f in self.frames]
        p.counter = self.counter
        p.trace = list(self.trace)
        return p

    # ---- facts
    def set_fact(self, k: str, v: Any) -> None:
        self.facts[k] = v
        if self.alts:
            self.since[k] = v

    def worlds(self) -> List[Dict[str, Any]]:
        """All valuations that reach this state (primary first)."""
        out = [self.facts]
        for a in self.alts:
            if self.since:
                w = dict(a)
                w.update(self.since)
                out.append(w)
            else:
                out.append(a)
        return out

    @staticmethod
    def _view(facts: Dict[str, Any], prefix: str) -> Dict[str, Any]:
        return {k[2:]: v for k, v in facts.items() if k.startswith(prefix)}

    @property
    def atoms(self) -> Dict[str, bool]:
        return self._view(self.facts, "A|")

    @property
    def ident(self) -> Dict[str, str]:
        return self._view(self.facts, "I|")

    @property
    def excl(self) -> Dict[str, frozenset]:
        return self._view(self.facts, "X|")

    def atom_views(self) -> List[Dict[str, bool]]:
        return [self._view(w, "A|") for w in self.worlds()]

    def fresh(self, prefix: str) -> str:
        self.counter += 1
        return f"{prefix}{self.counter}"

    def lines(self, bid: str = "main") -> List[Line]:
        return self.bufs.get(bid, [])

    def text(self, bid: str = "main") -> str:
        return "\n".join(l.show() for l in self.lines(bid))

    def state_key(self, with_facts: bool = True):
        k = (
            tuple(sorted((k, v.key()) for k, v in self.env.items())),
            tuple((k, tuple(l.key() for l in v)) for k, v in sorted(self.bufs.items())),
            tuple(sorted(self.ind.items())),
            tuple(sorted((o, tuple(sorted((a, v.key()) for a, v in d.items()))) for o, d in self.heap.items())),
            tuple(_ev_key(e) for e in self.events),
            self.ctl,
            self.retv.key() if self.retv is not None else None,
            tuple(tuple(sorted((k, v.key()) for k, v in f["__env__"].items())) for f in self.frames),
            self.counter,
        )
        if with_facts:
            k = k + (tuple(sorted((a, repr(b)) for a, b in self.facts.items())),)
        return k


def _ev_key(e):
    out = []
    for x in e:
        if isinstance(x, V):
            out.append(x.key())
        elif isinstance(x, (list, tuple)):
            out.append(tuple(y.key() if isinstance(y, V) else repr(y) for y in x))
        elif isinstance(x, dict):
            out.append(tuple(sorted((k, v.key() if isinstance(v, V) else repr(v)) for k, v in x.items())))
        else:
            out.append(repr(x))
    return tuple(out)


BUILDER_CLS = f"{M_BUILDER}::CodeBuilder"
LINES_CLS = f"{M_LINES}::CodeLines"


class PE:
    """The evaluator.  One instance per analysed entry point."""

    def __init__(
        self,
        repo: Repo,
        inline_depth: int = 5,
        no_inline: Sequence[str] = (),
        force_opaque: Sequence[str] = (),
        models: Optional[Dict[str, Callable]] = None,
        cond_oracle: Optional[Callable] = None,
        tagger: Optional[Callable] = None,
        generic_elems: int = 1,
        max_paths: int = 20000,
        assume: Sequence[Tuple[str, bool]] = (),
        max_steps: int = 400000,
    ):
        import re as _re

        self.assume = [(_re.compile(rx), val) for rx, val in assume]
        self.assumed_hits: Dict[str, int] = {}
        self.max_steps = max_steps
        self.steps = 0
        self.repo = repo
        self.inline_depth = inline_depth
        self.no_inline = set(no_inline)
        self.force_opaque = set(force_opaque)
        self.models = dict(models or {})
        self.cond_oracle = cond_oracle
        self.tagger = tagger
        self.generic_elems = generic_elems
        self.max_paths = max_paths
        self.nsplit = 0
        self.call_stack: List[FuncInfo] = []
        self.unresolved: set = set()
        self.sites_hit: set = set()
        self._live_cache: Dict[Any, frozenset] = {}

    # ================================================================ helpers
    def sym(self, name: str, node: Optional[ast.AST] = None, inherit: Sequence[V] = ()) -> Sym:
        tags = set()
        for v in inherit:
            tags |= set(v.tags)
        s = Sym(name, tags, node)
        if self.tagger is not None:
            extra = self.tagger(s, node, inherit)
            if extra:
                extra = set(extra)
                if "!RESET" in extra:
                    extra.discard("!RESET")
                    tags = set()
                s = Sym(name, tags | extra, node)
        return s

    @property
    def cur(self) -> FuncInfo:
        return self.call_stack[-1]

    def cur_module(self):
        return self.repo.module(self.cur.module)

    # ---------------------------------------------------------------- objects
    def new_obj(self, p: Path, cls: str, attrs: Dict[str, V], oid: Optional[str] = None) -> Obj:
        oid = oid or p.fresh("o")
        p.heap[oid] = dict(attrs)
        return Obj(cls, oid)

    def new_lines(self, p: Path) -> LinesRef:
        bid = p.fresh("buf")
        p.bufs[bid] = []
        p.ind[bid] = 0
        return LinesRef(bid)

    def builder_obj(self, p: Path, cls_key: str = BUILDER_CLS) -> Obj:
        if "B" not in p.heap:
            p.heap["B"] = {"lines": LinesRef("main")}
        return Obj(cls_key, "B")

    def getattr_v(self, recv: V, attr: str, p: Path, node: Optional[ast.AST] = None) -> V:
        if isinstance(recv, Obj):
            d = p.heap.get(recv.oid, {})
            if attr in d:
                return d[attr]
            ci = self.repo.classes.get(recv.cls)
            if ci is not None:
                fi = self.repo.method(ci, attr)
                if fi is not None:
                    decs = fi.decorators()
                    if any(d in ("property", "cached_property") or d.endswith(".cached_property") for d in decs):
                        return self._property_value(recv, fi, attr, p)
                    return Func(fi, recv)
            name = f"{self.obj_name(recv)}.{attr}"
            return self.sym(name, node)
        if isinstance(recv, ClsRef):
            fi = self.repo.method(recv.ci, attr)
            if fi is not None:
                return Func(fi, recv if "classmethod" in fi.decorators() else None)
            return self.sym(f"{recv.ci.name}.{attr}", node)
        if isinstance(recv, Py):
            try:
                return Py(getattr(recv.obj, attr), f"{recv.name}.{attr}")
            except AttributeError:
                return self.sym(f"{recv.name}.{attr}", node)
        if isinstance(recv, Sym):
            return self.sym(f"{recv.name}.{attr}", node, inherit=[recv])
        if isinstance(recv, Tup) and attr in ("index", "count"):
            return self.sym(f"{show(recv)}.{attr}", node)
        return self.sym(f"{show(recv)}.{attr}", node, inherit=[recv])

    def _property_value(self, recv: Obj, fi: FuncInfo, attr: str, p: Path) -> V:
        # properties are summarised as opaque attributes of the object (is_nailed, attrs, ...)
        return self.sym(f"{self.obj_name(recv)}.{attr}")

    def obj_name(self, o: Obj) -> str:
        import re as _re

        if not _re.fullmatch(r"o\d+", o.oid):
            return o.oid
        return f"{o.cls.split('::')[-1]}#{o.oid}"

    # ================================================================ names
    def lookup(self, name: str, p: Path, node: ast.AST) -> V:
        if name in p.env:
            return p.env[name]
        for fr in reversed(p.frames):  # enclosing function scopes (closures)
            if name in fr:
                return fr[name]
        mi = self.cur_module()
        # module-level constant string / in-repo def / import
        if name in mi.consts and isinstance(mi.consts[name], (str, int, bool, tuple, type(None))):
            return Const(mi.consts[name])
        if name in mi.consts and mi.consts[name] is type(None):
            return Py(type(None), "NoneType")
        k = f"{mi.name}::{name}"
        if k in self.repo.funcs:
            return Func(self.repo.funcs[k])
        if k in self.repo.classes:
            return ClsRef(self.repo.classes[k])
        if name in mi.imports:
            q = mi.imports[name]
            return self.resolve_qualified(q, name, node)
        import builtins

        if hasattr(builtins, name):
            return Py(getattr(builtins, name), name)
        return self.sym(name, node)

    def resolve_qualified(self, q: str, local: str, node) -> V:
        if q.startswith("mashumaro"):
            mod, _, nm = q.rpartition(".")
            if q in self.repo.modules:
                return self.sym(f"<module {q}>", node)
            fk = f"{mod}::{nm}"
            if fk in self.repo.funcs:
                return Func(self.repo.funcs[fk])
            if fk in self.repo.classes:
                return ClsRef(self.repo.classes[fk])
            m = self.repo.modules.get(mod)
            if m is not None and nm in m.consts and isinstance(m.consts[nm], (str, int, bool, tuple, type(None))):
                return Const(m.consts[nm])
            if m is not None and nm in m.consts and m.consts[nm] is type(None):
                return Py(type(None), "NoneType")
            return self.sym(local, node)
        # standard library object
        parts = q.split(".")
        for i in range(len(parts), 0, -1):
            modname = ".".join(parts[:i])
            if modname in STDLIB_OK:
                try:
                    obj: Any = importlib.import_module(modname)
                    for a in parts[i:]:
                        obj = getattr(obj, a)
                    return Py(obj, local)
                except Exception:
                    break
        return self.sym(local, node)

    # ================================================================ atoms
    def assumed(self, key: str) -> Optional[bool]:
        for rx, val in self.assume:
            if rx.search(key):
                self.assumed_hits[rx.pattern] = self.assumed_hits.get(rx.pattern, 0) + 1
                return val
        return None

    def focus(self, p: Path, keys: Sequence[str]) -> List[Path]:
        """Split ``p`` so that every valuation it stands for agrees on ``keys`` (exact un-merging)."""
        if not p.alts:
            return [p]
        mine = tuple(p.facts.get(k, _ABSENT) for k in keys)
        same: List[Dict[str, Any]] = []
        groups: Dict[Any, List[Dict[str, Any]]] = {}
        worlds = p.worlds()[1:]
        for w in worlds:
            proj = tuple(w.get(k, _ABSENT) for k in keys)
            if proj == mine:
                same.append(w)
            else:
                groups.setdefault(proj, []).append(w)
        if not groups:
            return [p]
        out = []
        for proj, ws in groups.items():
            q = p.clone()
            q.facts = dict(ws[0])
            q.alts = tuple(ws[1:])
            q.since = {}
            out.append(q)
        p.alts = tuple(same)
        p.since = {}
        return [p] + out

    def atom(self, key: str, p: Path) -> List[Tuple[bool, Path]]:
        out = []
        for q in self.focus(p, ["A|" + key]):
            out.extend(self._atom1(key, q))
        return out

    def _atom1(self, key: str, p: Path) -> List[Tuple[bool, Path]]:
        fk = "A|" + key
        if fk in p.facts:
            return [(p.facts[fk], p)]
        a = self.assumed(key)
        if a is not None:
            p.set_fact(fk, a)
            return [(a, p)]
        self.nsplit += 1
        a = p.clone()
        a.set_fact(fk, True)
        p.set_fact(fk, False)
        return [(True, a), (False, p)]

    def truth(self, v: V, p: Path) -> List[Tuple[bool, Path]]:
        if isinstance(v, Const):
            return [(bool(v.v), p)]
        if isinstance(v, Tmpl):
            if any(isinstance(x, str) and x for x in v.parts):
                return [(True, p)]
            return self.atom(f"bool({v.show()})", p)
        if isinstance(v, (Tup,)):
            return [(bool(v.items), p)]
        if isinstance(v, Lst):
            if v.items:
                return [(True, p)]
            if not v.open:
                return [(False, p)]
            return self.atom(f"nonempty({v.name or 'list'})", p)
        if isinstance(v, Dct):
            if v.entries:
                return [(True, p)]
            if not v.open:
                return [(False, p)]
            return self.atom(f"nonempty({v.name or v.kind})", p)
        if isinstance(v, (Obj, Func, ClsRef, LinesRef)):
            return [(True, p)]
        if isinstance(v, Py):
            try:
                return [(bool(v.obj), p)]
            except Exception:
                return self.atom(f"bool({v.name})", p)
        if isinstance(v, Sym):
            nm = v.name
            out = []
            for q in self.focus(p, ["A|bool(%s)" % nm, "I|" + nm, "X|" + nm]):
                out.extend(self._truth_sym(nm, q))
            return out
        return self.atom(f"bool({show(v)})", p)

    def _truth_sym(self, nm: str, p: Path) -> List[Tuple[bool, Path]]:
        c = p.facts.get("I|" + nm)
        if c in ("None", "False", "''"):
            return [(False, p)]
        key = f"bool({nm})"
        if "A|" + key in p.facts:
            return [(p.facts["A|" + key], p)]
        out = self._atom1(key, p)
        for b, q in out:
            if b:  # truthy => not None
                q.set_fact("X|" + nm, frozenset(set(q.facts.get("X|" + nm, ())) | {"None"}))
        return out

    def identity(self, l: V, r: V, p: Path) -> List[Tuple[bool, Path]]:
        """``l is r``"""
        if isinstance(l, Const) and isinstance(r, Const):
            return [(l.v is r.v or (l.v == r.v and isinstance(l.v, (bool, type(None)))), p)]
        if isinstance(l, Py) and isinstance(r, Py):
            return [(l.obj is r.obj, p)]
        if isinstance(l, Py) and isinstance(r, Const):
            return [(l.obj is r.v, p)]
        if isinstance(l, Const) and isinstance(r, Py):
            return [(l.v is r.obj, p)]
        if is_stringy(l) and isinstance(r, (Const, Py)):
            return [(False, p)]
        if isinstance(l, (Obj, Lst, Dct, Tup, LinesRef)) and isinstance(r, (Const, Py)):
            return [(False, p)]
        if isinstance(l, Obj) and isinstance(r, Obj):
            return [(l.oid == r.oid, p)]
        if (isinstance(l, (Lst, Dct, Tup)) and isinstance(r, Sym)) or (isinstance(r, (Lst, Dct, Tup)) and isinstance(l, Sym)):
            return [(False, p)]  # a container built on this path is not a pre-existing named object
        if not isinstance(l, Sym) and isinstance(r, Sym):
            l, r = r, l
        var, c = show(l), show(r)
        out = []
        for q in self.focus(p, ["I|" + var, "X|" + var, "A|bool(%s)" % var]):
            out.extend(self._identity1(var, c, q))
        return out

    def _identity1(self, var: str, c: str, p: Path) -> List[Tuple[bool, Path]]:
        if "I|" + var in p.facts:
            return [(p.facts["I|" + var] == c, p)]
        if c in p.facts.get("X|" + var, ()):
            return [(False, p)]
        if c == "None" and p.facts.get("A|bool(%s)" % var) is True:
            return [(False, p)]
        asm = self.assumed(f"{var} is {c}")
        if asm is True:
            p.set_fact("I|" + var, c)
            if c == "None":
                p.set_fact("A|bool(%s)" % var, False)
            return [(True, p)]
        if asm is False:
            p.set_fact("X|" + var, frozenset(set(p.facts.get("X|" + var, ())) | {c}))
            return [(False, p)]
        self.nsplit += 1
        a = p.clone()
        a.set_fact("I|" + var, c)
        if c == "None":
            a.set_fact("A|bool(%s)" % var, False)
        p.set_fact("X|" + var, frozenset(set(p.facts.get("X|" + var, ())) | {c}))
        return [(True, a), (False, p)]

    def equal(self, l: V, r: V, p: Path, node=None) -> List[Tuple[bool, Path, Optional[Tuple[str, V]]]]:
        """``l == r``; third component = optional refinement (var text, value)"""
        if isinstance(l, Const) and isinstance(r, Const):
            return [(l.v == r.v, p, None)]
        if is_stringy(l) and is_stringy(r):
            tl, tr = to_tmpl(l), to_tmpl(r)
            if tl.is_literal() and tr.is_literal():
                return [(tl.literal() == tr.literal(), p, None)]
            if tl.key() == tr.key():
                return [(True, p, None)]
            # templates with holes: decide when the literal skeletons cannot unify
            dec = _tmpl_may_equal(tl, tr)
            if dec is False:
                return [(False, p, None)]
        if isinstance(l, Py) and isinstance(r, Py):
            try:
                return [(bool(l.obj == r.obj), p, None)]
            except Exception:
                pass
        if isinstance(l, (Tup, Lst)) and isinstance(r, Const) and r.v == ():
            if isinstance(l, Tup):
                return [(len(l.items) == 0, p, None)]
        a, b = sorted([show(l), show(r)])
        key = f"{a} == {b}"
        out = []
        for val, q in self.atom(key, p):
            out.append((val, q, None))
        return out

    # ================================================================ conditions
    def cond(self, e: ast.AST, p: Path) -> List[Tuple[bool, Path]]:
        res = self._cond(e, p)
        if len(res) > 2 and getattr(self, "merge_enabled", False):
            t = self.merge([q for b, q in res if b], frozenset())
            f = self.merge([q for b, q in res if not b], frozenset())
            return [(True, q) for q in t] + [(False, q) for q in f]
        return res

    def _cond(self, e: ast.AST, p: Path) -> List[Tuple[bool, Path]]:
        if self.cond_oracle is not None:
            r = self.cond_oracle(self, e, p)
            if r is not None:
                return [(bool(r), p)]
        if isinstance(e, ast.BoolOp):
            isand = isinstance(e.op, ast.And)
            out: List[Tuple[bool, Path]] = []

            def rec(i: int, q: Path):
                if i == len(e.values):
                    out.append((isand, q))
                    return
                for b, q2 in self.cond(e.values[i], q):
                    if b != isand:
                        out.append((b, q2))
                    else:
                        rec(i + 1, q2)

            rec(0, p)
            return out
        if isinstance(e, ast.UnaryOp) and isinstance(e.op, ast.Not):
            return [(not b, q) for b, q in self.cond(e.operand, p)]
        if isinstance(e, ast.Compare) and len(e.ops) == 1:
            op = e.ops[0]
            out = []
            for (l, r), q in self.ev_many([e.left, e.comparators[0]], p):
                if isinstance(op, (ast.Is, ast.IsNot)):
                    neg = isinstance(op, ast.IsNot)
                    out.extend((b != neg, q2) for b, q2 in self.identity(l, r, q))
                elif isinstance(op, (ast.Eq, ast.NotEq)):
                    neg = isinstance(op, ast.NotEq)
                    for b, q2, _ in self.equal(l, r, q, e):
                        if b and isinstance(e.left, ast.Name) and isinstance(l, Sym) and isinstance(r, (Const, Tmpl)):
                            self.rebind(e.left.id, r, q2)
                        elif b and isinstance(e.comparators[0], ast.Name) and isinstance(r, Sym) and isinstance(l, (Const, Tmpl)):
                            self.rebind(e.comparators[0].id, l, q2)
                        out.append((b != neg, q2))
                elif isinstance(op, (ast.In, ast.NotIn)):
                    neg = isinstance(op, ast.NotIn)
                    out.extend((b != neg, q2) for b, q2 in self.contains(l, r, q, e))
                else:
                    out.extend(self._cmp_other(op, l, r, q, e))
            return out
        out = []
        for v, q in self.ev(e, p):
            out.extend(self.truth(v, q))
        return out

    def rebind(self, name: str, v: V, p: Path) -> None:
        if name in p.env:
            p.env[name] = v

    def _cmp_other(self, op, l, r, p, e):
        if isinstance(l, Const) and isinstance(r, Const):
            try:
                fn = {ast.Lt: lambda a, b: a < b, ast.LtE: lambda a, b: a <= b,
                      ast.Gt: lambda a, b: a > b, ast.GtE: lambda a, b: a >= b}[type(op)]
                return [(bool(fn(l.v, r.v)), p)]
            except Exception:
                pass
        return self.atom(f"{show(l)} {type(op).__name__} {show(r)}", p)

    def contains(self, l: V, r: V, p: Path, e=None) -> List[Tuple[bool, Path]]:
        if isinstance(r, Dct):
            k = show(l)
            if k in r.entries:
                return [(True, p)]
            if not r.open:
                return [(False, p)]
            return self.atom(f"{k} in {r.name or r.kind}", p)
        if isinstance(r, (Tup, Lst)):
            if all(isinstance(i, (Const, Py)) for i in r.items) and isinstance(l, (Const, Py)):
                def raw(x):
                    return x.v if isinstance(x, Const) else x.obj
                try:
                    hit = any(raw(l) is raw(i) or raw(l) == raw(i) for i in r.items)
                except Exception:
                    hit = False
                if hit or not (isinstance(r, Lst) and r.open):
                    return [(hit, p)]
            for i in r.items:
                if i.key() == l.key():
                    return [(True, p)]
            if isinstance(r, (Tup,)) or not r.open:
                if all(isinstance(i, Const) for i in r.items) and is_stringy(l) and to_tmpl(l).is_literal():
                    return [(False, p)]
        if isinstance(l, Const) and isinstance(l.v, str) and is_stringy(r):
            t = to_tmpl(r)
            if t.is_literal():
                return [(l.v in t.literal(), p)]
        return self.atom(f"{show(l)} in {show(r)}", p)

    # ================================================================ expressions
    def ev_many(self, exprs: Sequence[ast.AST], p: Path) -> List[Tuple[List[V], Path]]:
        res: List[Tuple[List[V], Path]] = [([], p)]
        for e in exprs:
            nxt = []
            for vals, q in res:
                for v, q2 in self.ev(e, q):
                    nxt.append((vals + [v], q2))
            res = nxt
        return res

    def ev1(self, e: ast.AST, p: Path) -> V:
        """Evaluate an expression that must not fork (used for simple sub-expressions)."""
        r = self.ev(e, p)
        if len(r) != 1:
            raise Undecided(f"expression forks unexpectedly: {ast.unparse(e)[:80]}")
        return r[0][0]

    def ev(self, e: ast.AST, p: Path) -> List[Tuple[V, Path]]:
        m = getattr(self, "ev_" + type(e).__name__, None)
        if m is None:
            return [(self.opaque_expr(e, p), p)]
        return m(e, p)

    def opaque_expr(self, e: ast.AST, p: Path) -> Sym:
        """Opaque value of an expression the evaluator does not model; it conservatively
        inherits the kinds (taint) of every variable the expression mentions."""
        inherit = []
        for n in ast.walk(e):
            if isinstance(n, ast.Name) and isinstance(n.ctx, ast.Load):
                v = p.env.get(n.id)
                if v is None:
                    for fr in reversed(p.frames):
                        if not fr.get("__visible__"):
                            break
                        if n.id in fr["__env__"]:
                            v = fr["__env__"][n.id]
                            break
                if v is not None:
                    inherit.append(v)
        return self.sym(ast.unparse(e), e, inherit)

    def ev_Constant(self, e, p):
        return [(Const(e.value), p)]

    def ev_Name(self, e, p):
        return [(self.lookup(e.id, p, e), p)]

    def ev_Attribute(self, e, p):
        return [(self.getattr_v(v, e.attr, q, e), q) for v, q in self.ev(e.value, p)]

    def ev_JoinedStr(self, e, p):
        res: List[Tuple[List[Any], Path]] = [([], p)]
        for part in e.values:
            if isinstance(part, ast.Constant):
                res = [(parts + [part.value], q) for parts, q in res]
                continue
            conv = {-1: "", 114: "r", 115: "s", 97: "a"}[part.conversion]
            nxt = []
            for parts, q in res:
                for v, q2 in self.ev(part.value, q):
                    nxt.append((parts + as_parts(v, conv), q2))
            res = nxt
        return [(Tmpl(parts), q) for parts, q in res]

    def ev_Tuple(self, e, p):
        if any(isinstance(x, ast.Starred) for x in e.elts):
            return [(self.opaque_expr(e, p), p)]
        return [(Tup(vals), q) for vals, q in self.ev_many(e.elts, p)]

    def ev_List(self, e, p):
        if any(isinstance(x, ast.Starred) for x in e.elts):
            return [(self.sym(ast.unparse(e), e), p)]
        return [(Lst(vals, name=f"list@{getattr(e, 'lineno', 0)}"), q) for vals, q in self.ev_many(e.elts, p)]

    def ev_Set(self, e, p):
        out = []
        for vals, q in self.ev_many(e.elts, p):
            out.append((Dct("set", {show(v): (v, v) for v in vals}, name=f"set@{e.lineno}"), q))
        return out

    def ev_Dict(self, e, p):
        if any(k is None for k in e.keys):
            return [(self.sym(ast.unparse(e), e), p)]
        out = []
        for vals, q in self.ev_many(list(e.keys) + list(e.values), p):
            n = len(e.keys)
            out.append((Dct("dict", {show(k): (k, v) for k, v in zip(vals[:n], vals[n:])}, name=f"dict@{e.lineno}"), q))
        return out

    def ev_IfExp(self, e, p):
        out = []
        for b, q in self.cond(e.test, p):
            out.extend(self.ev(e.body if b else e.orelse, q))
        return out

    def ev_BoolOp(self, e, p):
        # value semantics of and/or
        isand = isinstance(e.op, ast.And)
        out: List[Tuple[V, Path]] = []

        def rec(i: int, q: Path):
            for v, q2 in self.ev(e.values[i], q):
                if i == len(e.values) - 1:
                    out.append((v, q2))
                    continue
                for b, q3 in self.truth(v, q2):
                    if b != isand:
                        out.append((v if not isinstance(v, Sym) else v, q3))
                    else:
                        rec(i + 1, q3)

        rec(0, p)
        return out

    def ev_UnaryOp(self, e, p):
        if isinstance(e.op, ast.Not):
            return [(Const(b), q) for b, q in self.cond(e, p)]
        out = []
        for v, q in self.ev(e.operand, p):
            if isinstance(v, Const) and isinstance(e.op, ast.USub) and isinstance(v.v, (int, float)):
                out.append((Const(-v.v), q))
            else:
                out.append((self.sym(f"{type(e.op).__name__}({show(v)})", e, [v]), q))
        return out

    def ev_Compare(self, e, p):
        return [(Const(b), q) for b, q in self.cond(e, p)]

    def ev_BinOp(self, e, p):
        out = []
        for (l, r), q in self.ev_many([e.left, e.right], p):
            out.append((self.binop(e.op, l, r, e), q))
        return out

    def binop(self, op, l: V, r: V, e) -> V:
        if isinstance(op, ast.Add):
            if is_stringy(l) and (is_stringy(r) or isinstance(r, Sym)):
                return Tmpl(as_parts(l) + as_parts(r))
            if isinstance(l, Sym) and is_stringy(r):
                return Tmpl(as_parts(l) + as_parts(r))
            if isinstance(l, Lst) and isinstance(r, Lst):
                return Lst(l.items + r.items, l.open or r.open, l.name)
            if isinstance(l, Tup) and isinstance(r, Tup):
                return Tup(l.items + r.items)
        if isinstance(l, Const) and isinstance(r, Const):
            try:
                fn = {ast.Add: lambda a, b: a + b, ast.Sub: lambda a, b: a - b,
                      ast.Mult: lambda a, b: a * b, ast.Mod: lambda a, b: a % b}[type(op)]
                return Const(fn(l.v, r.v))
            except Exception:
                pass
        if isinstance(op, ast.Mult) and isinstance(l, Const) and isinstance(l.v, str):
            return self.sym(f"{l.v!r} * {show(r)}", e, [r])
        return self.sym(f"({show(l)} {_OPS.get(type(op), type(op).__name__)} {show(r)})", e, [l, r])

    def ev_Subscript(self, e, p):
        out = []
        for (v, idx), q in self.ev_many([e.value, e.slice], p):
            out.append((self.subscript(v, idx, q, e), q))
        return out

    def ev_Slice(self, e, p):
        parts = [x for x in (e.lower, e.upper, e.step)]
        vals = []
        for x in parts:
            vals.append(self.ev1(x, p) if x is not None else Const(None))
        return [(Tup(vals), p)]

    def subscript(self, v: V, idx: V, p: Path, e) -> V:
        if isinstance(v, (Tup, Lst)) and isinstance(idx, Const) and isinstance(idx.v, int):
            try:
                return v.items[idx.v]
            except IndexError:
                pass
        if isinstance(v, Dct):
            k = show(idx)
            if k in v.entries:
                return v.entries[k][1]
        if isinstance(v, (Tup, Lst)) and not getattr(v, "open", False) and isinstance(e, ast.Subscript) and isinstance(e.slice, ast.Slice) \
                and isinstance(idx, Tup) and len(idx.items) == 3 and all(isinstance(i, Const) and (i.v is None or isinstance(i.v, int)) for i in idx.items):
            items = v.items[slice(*[i.v for i in idx.items])]
            return Tup(items) if isinstance(v, Tup) else Lst(items)
        if isinstance(v, Const) and isinstance(v.v, (str, tuple)) and isinstance(idx, Const) and isinstance(idx.v, int):
            try:
                return Const(v.v[idx.v])
            except Exception:
                pass
        if isinstance(v, Const) and isinstance(v.v, str) and isinstance(idx, Tup) and all(isinstance(i, Const) for i in idx.items):
            return Const(v.v[slice(*[i.v for i in idx.items])])
        if isinstance(v, Tmpl) and isinstance(idx, Tup) and len(idx.items) == 3 and all(isinstance(i, Const) for i in idx.items):
            lo, hi, st = [i.v for i in idx.items]
            if isinstance(lo, int) and lo >= 0 and hi is None and st is None and v.parts and isinstance(v.parts[0], str) and len(v.parts[0]) >= lo:
                return Tmpl([v.parts[0][lo:]] + list(v.parts[1:]))
        if isinstance(v, Py) and isinstance(v.obj, type) and (isinstance(idx, Py) or (isinstance(idx, Tup) and all(isinstance(i, Py) for i in idx.items))):
            # parametrising a standard-library generic class with type objects (dict[str, int])
            try:
                key = idx.obj if isinstance(idx, Py) else tuple(i.obj for i in idx.items)
                r = v.obj[key]
                return Py(r, str(r).replace("typing.", ""))
            except Exception:
                pass
        if isinstance(v, Py):
            return self.sym(f"{v.name}[{show(idx)}]", e, [idx])
        return self.sym(f"{show(v)}[{show(idx)}]", e, [v])

    def ev_Starred(self, e, p):
        return [(self.sym("*" + ast.unparse(e.value), e), p)]

    def ev_Lambda(self, e, p):
        return [(self.opaque_expr(e, p), p)]

    def ev_NamedExpr(self, e, p):
        out = []
        for v, q in self.ev(e.value, p):
            q.env[e.target.id] = v
            out.append((v, q))
        return out

    def ev_GeneratorExp(self, e, p):
        return self._comprehension(e, p, "gen")

    def ev_ListComp(self, e, p):
        return self._comprehension(e, p, "list")

    def ev_SetComp(self, e, p):
        out = []
        for v, q in self._comprehension(e, p, "set"):
            if isinstance(v, Lst):
                out.append((Dct("set", {show(x): (x, x) for x in v.items}, v.open, name=f"set@{e.lineno}", opens=v.opens), q))
            else:
                out.append((v, q))
        return out

    def ev_DictComp(self, e, p):
        if len(e.generators) != 1 or e.generators[0].ifs:
            return [(self.opaque_expr(e, p), p)]
        g = e.generators[0]
        out = []
        for it, q in self.ev(g.iter, p):
            if not isinstance(it, (Lst, Tup, Dct)) or getattr(it, "open", False):
                out.append((self.opaque_expr(e, q), q))
                continue
            elems, _ = self.iter_elems(it, q, g.iter)
            saved = dict(q.env)
            entries = {}
            ok = True
            for el in elems:
                self.bind(g.target, el, q)
                rk = self.ev(e.key, q)
                rv = self.ev(e.value, q)
                if len(rk) != 1 or len(rv) != 1:
                    ok = False
                    break
                entries[show(rk[0][0])] = (rk[0][0], rv[0][0])
            q.env = saved
            out.append((Dct("dict", entries, name=f"dict@{e.lineno}") if ok else self.opaque_expr(e, q), q))
        return out

    def _comprehension(self, e, p, kind):
        if len(e.generators) != 1 or e.generators[0].ifs:
            return [(self.opaque_expr(e, p), p)]
        g = e.generators[0]
        out = []
        for it, q in self.ev(g.iter, p):
            elems, open_ = self.iter_elems(it, q, g.iter)
            opens = self.last_opens if open_ else ()
            saved = dict(q.env)
            states = [([], q)]
            for el in elems:
                nxt = []
                for vals, qq in states:
                    self.bind(g.target, el, qq)
                    for v2, q2 in self.ev(e.elt, qq):
                        nxt.append((vals + [v2], q2))
                states = nxt
                if len(states) > 64:
                    break
            if len(states) > 64:
                q.env = saved
                out.append((self.opaque_expr(e, q), q))
                continue
            for vals, qq in states:
                for k in list(qq.env):
                    if k not in saved:
                        del qq.env[k]
                for k, v0 in saved.items():
                    qq.env[k] = v0
                out.append((Lst(vals, open_, name=f"comp@{e.lineno}", opens=opens), qq))
        return out

    def iter_elems(self, it: V, p: Path, node) -> Tuple[List[V], bool]:
        """Known elements of an iterable and whether unknown ones may follow."""
        self.last_opens = ()
        if isinstance(it, Tup):
            return list(it.items), False
        if isinstance(it, Lst):
            self.last_opens = it.opens or ((it.name,) if it.open else ())
            return list(it.items), it.open
        if isinstance(it, Dct):
            self.last_opens = it.opens or ((it.name,) if it.open else ())
            return [kv for kv, _ in it.entries.values()], it.open
        if isinstance(it, Const) and isinstance(it.v, (tuple, list)):
            return [Const(x) for x in it.v], False
        # unknown iterable: generic elements
        n = self.generic_elems
        base = show(it)
        self.last_opens = (base,)
        reg = self.__dict__.setdefault("_iter_ids", {})
        iid = reg.setdefault(base, len(reg) + 1)
        els = []
        for i in range(n):
            s = self.sym(f"elem{i + 1}.{iid}", node, [it])
            s = Sym(s.name, s.tags, ("elem", i + 1, iid, base))
            els.append(s)
        return els, True

    # ---------------------------------------------------------------- binding
    def bind(self, target: ast.AST, v: V, p: Path, key: Optional[V] = None) -> None:
        if isinstance(target, ast.Name):
            p.env[target.id] = v
        elif isinstance(target, (ast.Tuple, ast.List)):
            n = len(target.elts)
            if isinstance(v, (Tup, Lst)) and len(v.items) == n and not getattr(v, "open", False):
                for t, x in zip(target.elts, v.items):
                    self.bind(t, x, p)
            else:
                for i, t in enumerate(target.elts):
                    nm = t.id if isinstance(t, ast.Name) else ast.unparse(t)
                    base = show(v)
                    if isinstance(v, Sym) and isinstance(v.origin, tuple) and v.origin and v.origin[0] == "elem":
                        label = f"{nm}#{v.origin[1]}" + ("" if v.origin[2] == 1 else f"'{v.origin[2]}")
                    else:
                        label = f"{nm}<{base}>" if len(base) < 60 else f"{nm}<{base[:40]}...>"
                    self.bind(t, self.sym(label, target, [v]), p)
        elif isinstance(target, ast.Attribute):
            recv = self.ev1(target.value, p)
            if isinstance(recv, Obj):
                p.heap.setdefault(recv.oid, {})[target.attr] = v
            else:
                p.events.append(("setattr", show(recv), target.attr, v))
        elif isinstance(target, ast.Subscript):
            c = self.ev1(target.value, p)
            k = key if key is not None else self.ev1(target.slice, p)
            if isinstance(c, Dct) and isinstance(target.value, ast.Name):
                c2 = Dct(c.kind, c.entries, c.open, c.name)
                c2.entries[show(k)] = (k, v)
                self._store_name(target.value.id, c2, p)
            elif isinstance(c, Dct) and isinstance(target.value, ast.Attribute) and isinstance(self.ev1(target.value.value, p), Obj):
                c2 = Dct(c.kind, c.entries, c.open, c.name)
                c2.entries[show(k)] = (k, v)
                p.heap.setdefault(self.ev1(target.value.value, p).oid, {})[target.value.attr] = c2
            else:
                p.events.append(("setitem", show(c), show(k), v))
        elif isinstance(target, ast.Starred):
            self.bind(target.value, self.sym(ast.unparse(target), target, [v]), p)

    def _store_name(self, name: str, v: V, p: Path) -> None:
        if name in p.env:
            p.env[name] = v
            return
        for fr in reversed(p.frames):
            if name in fr:
                fr[name] = v
                return
        p.env[name] = v


_ABSENT = object()
_OPS = {ast.Add: "+", ast.Sub: "-", ast.Mult: "*", ast.Div: "/", ast.Mod: "%", ast.BitOr: "|", ast.BitAnd: "&"}


def _tmpl_may_equal(a: Tmpl, b: Tmpl) -> Optional[bool]:
    """False when two templates can never render the same text (prefix/suffix clash)."""
    pa = a.parts[0] if a.parts and isinstance(a.parts[0], str) else ""
    pb = b.parts[0] if b.parts and isinstance(b.parts[0], str) else ""
    n = min(len(pa), len(pb))
    if pa[:n] != pb[:n]:
        return False
    sa = a.parts[-1] if a.parts and isinstance(a.parts[-1], str) else ""
    sb = b.parts[-1] if b.parts and isinstance(b.parts[-1], str) else ""
    n = min(len(sa), len(sb))
    if n and sa[-n:] != sb[-n:]:
        return False
    if a.is_literal() and not b.is_literal():
        # b has holes; if b's literal chunks do not all occur in a, they cannot be equal
        t = a.literal()
        pos = 0
        for chunk in b.parts:
            if isinstance(chunk, str):
                i = t.find(chunk, pos)
                if i < 0:
                    return False
                pos = i + len(chunk)
    if b.is_literal() and not a.is_literal():
        return _tmpl_may_equal(b, a)
    return None
