"""Verdict plumbing: obligations, findings, known-findings file, evidence, exit codes."""

from __future__ import annotations

import json
import os
import re
import sys
import time
from dataclasses import dataclass, field
from typing import Any, Dict, List, Optional

from .. import VERIF

KNOWN_FINDINGS = os.path.join(VERIF, "known_findings.json")
EVIDENCE_DIR = os.environ.get("MASHVERIF_EVIDENCE_DIR") or os.path.join(VERIF, "evidence")
REPLAY_DIR = os.path.join(EVIDENCE_DIR, "replay")


@dataclass
class Finding:
    rule: str
    construct: str  # module::qualname
    instance: str  # normalised key of the offending instance (never a line number)
    what: str
    loc: str = ""  # file:line, for the human reader only
    detail: Dict[str, Any] = field(default_factory=dict)

    @property
    def key(self) -> str:
        return f"{self.rule}|{self.construct}|{self.instance}"


def _norm_key(s: str) -> str:
    return re.sub(r"\s+", " ", s).strip()


class Report:
    """Collects what one property check examined and decided."""

    def __init__(self, prop: str, tier: str, seed: int, technique: str):
        self.prop = prop
        self.tier = tier
        self.seed = seed
        self.technique = technique
        self.t0 = time.time()
        self.obligations = 0
        self.discharged = 0
        self.rule_counts: Dict[str, int] = {}
        self.distinct: set = set()
        self.samples: List[Any] = []
        self.findings: List[Finding] = []
        self.undecided: List[str] = []
        self.errors: List[str] = []
        self.analysed: Dict[str, Any] = {}
        self.assumptions: List[str] = []
        self.notes: List[str] = []
        self.exhaustive = True
        self.explanation = ""
        self.floors: Dict[str, int] = {}
        self.sensitivity: Optional[Dict[str, Any]] = None

    # -------------------------------------------------------------- recording
    def ok(self, rule: str, instance: str, sample: Any = None, nontrivial: bool = True) -> None:
        self.obligations += 1
        self.discharged += 1
        self.rule_counts[rule] = self.rule_counts.get(rule, 0) + 1
        if nontrivial:
            self.distinct.add((rule, _norm_key(instance)))
        if sample is not None and len([s for s in self.samples if s.get("rule") == rule]) < 3:
            self.samples.append({"rule": rule, "instance": instance, "verdict": "HOLDS", **(sample if isinstance(sample, dict) else {"case": sample})})

    def violation(self, rule: str, construct: str, instance: str, what: str, loc: str = "", **detail: Any) -> None:
        self.obligations += 1
        self.rule_counts[rule] = self.rule_counts.get(rule, 0) + 1
        self.distinct.add((rule, _norm_key(instance)))
        f = Finding(rule, construct, _norm_key(instance), what, loc, detail)
        if f.key not in {g.key for g in self.findings}:
            self.findings.append(f)

    def undecide(self, rule: str, msg: str) -> None:
        self.undecided.append(f"{rule}: {msg}")

    def error(self, msg: str) -> None:
        self.errors.append(msg)

    def floor(self, rule: str, minimum: int) -> None:
        """Vacuity guard: the rule must have examined at least ``minimum`` instances."""
        self.floors[rule] = minimum

    def require(self, cond: bool, msg: str) -> None:
        if not cond:
            self.error(msg)

    # --------------------------------------------------------------- finish
    def finish(self) -> int:
        for rule, minimum in self.floors.items():
            got = self.rule_counts.get(rule, 0)
            if got < minimum:
                self.error(
                    f"rule {rule} examined {got} instances, floor is {minimum} "
                    "(anchor vanished or extractor broken)"
                )
        known = load_known()
        known_here = [k for k in known if k.get("property") == self.prop and k.get("status") == "known"]
        known_keys = {f"{k['rule']}|{k['construct']}|{_norm_key(k['instance'])}": k for k in known_here}
        new: List[Finding] = []
        seen_known = set()
        for f in self.findings:
            if f.key in known_keys:
                seen_known.add(f.key)
                print(f"KNOWN-FINDING: property={self.prop} {known_keys[f.key]['what']}")
            else:
                new.append(f)
        for key, k in known_keys.items():
            if key not in seen_known and not self.errors:
                print(f"STALE-KNOWN-FINDING: property={self.prop} {k['id']} no longer derivable ({k['what']})")
        os.makedirs(REPLAY_DIR, exist_ok=True)
        for old in os.listdir(REPLAY_DIR):
            if old.startswith(f"{self.prop}-"):
                try:
                    os.unlink(os.path.join(REPLAY_DIR, old))
                except OSError:
                    pass
        rc = 0
        for i, f in enumerate(new):
            path = os.path.join(REPLAY_DIR, f"{self.prop}-{i}.json")
            with open(path, "w") as fh:
                json.dump({"property": self.prop, "rule": f.rule, "construct": f.construct,
                           "instance": f.instance, "what": f.what, "loc": f.loc, "detail": f.detail}, fh, indent=1, default=str)
            print(f"{f.loc or f.construct}: [{f.rule}] {f.construct} :: {f.instance}\n    {f.what}")
            for k, v in f.detail.items():
                sv = str(v)
                print(f"    {k}: {sv[:600]}")
            print(f"VIOLATION property={self.prop} replay={path}")
            rc = 1
        for u in self.undecided:
            print(f"UNDECIDED property={self.prop} {u}")
        for e in self.errors:
            print(f"ANALYSIS-ERROR property={self.prop} {e}")
        if rc == 0 and (self.undecided or self.errors):
            rc = 2
        self._write_evidence(len(new), [f for f in self.findings if f.key in known_keys])
        status = {0: "HOLDS", 1: "VIOLATION", 2: "UNDECIDED/ANALYSIS-ERROR"}[rc]
        print(
            f"[{self.prop}] {status}: {self.discharged}/{self.obligations} obligations discharged, "
            f"{len(self.distinct)} distinct instances, rules={self.rule_counts}, "
            f"known={len(seen_known)}, new={len(new)}, {time.time() - self.t0:.2f}s"
        )
        return rc

    def _write_evidence(self, n_new: int, known: List[Finding]) -> None:
        os.makedirs(EVIDENCE_DIR, exist_ok=True)
        samples = list(self.samples[:14])
        for f in self.findings[:4]:
            samples.append({"rule": f.rule, "instance": f.instance, "verdict": "VIOLATION", "what": f.what})
        if not samples:
            samples = [{"note": "no instance recorded"}]
        ev = {
            "property_id": self.prop,
            "tier": self.tier,
            "seed": self.seed,
            "level": "other",
            "coverage": {
                "explanation": self.explanation or self.technique,
                "evaluations": max(self.obligations, 1),
                "distinct_nontrivial": max(len(self.distinct), 0),
                "rule": (
                    "one evaluation = one rule instance (emission site, generator path x run-time valuation, "
                    "catalogue entry, decision-list step, call site) checked against its oracle; distinct = distinct "
                    "(rule, normalised construct) pairs that carry at least one hole/atom/guard"
                ),
                "samples": samples,
                "obligations": self.obligations,
                "discharged": self.discharged,
                "exhaustive": bool(self.exhaustive),
                "per_rule": self.rule_counts,
                "analysed": self.analysed,
                "technique": self.technique,
                "known_findings": [f.key for f in known],
                "undecided": self.undecided,
                "analysis_errors": self.errors,
                "notes": self.notes,
            },
            "assumptions": self.assumptions,
            "wall_s": round(time.time() - self.t0, 3),
            "violations": n_new,
        }
        if self.sensitivity is not None:
            ev["coverage"]["sensitivity"] = self.sensitivity
        with open(os.path.join(EVIDENCE_DIR, f"{self.prop}.json"), "w") as fh:
            json.dump(ev, fh, indent=1, default=str)


def load_known() -> List[dict]:
    try:
        with open(KNOWN_FINDINGS) as fh:
            data = json.load(fh)
    except FileNotFoundError:
        return []
    return data.get("findings", [])


class Only:
    """Report proxy: a property takes over selected rules of another property's module (same rule ids; they are necessary
    conditions of both properties).  Everything else the borrowed module reports (other rules, floors, known findings of
    the other property) is dropped; engine errors still propagate."""

    borrowed = True

    def __init__(self, rep, keep):
        self._r = rep
        self._keep = set(keep)

    def __getattr__(self, n):
        return getattr(self._r, n)

    def ok(self, rule, *a, **k):
        if rule in self._keep:
            self._r.ok(rule, *a, **k)

    def violation(self, rule, *a, **k):
        if rule in self._keep:
            self._r.violation(rule, *a, **k)

    def undecide(self, rule, *a, **k):
        if rule in self._keep or rule in ("engine", "corpus"):
            self._r.undecide(rule, *a, **k)

    def floor(self, rule, n):
        if rule in self._keep:
            self._r.floor(rule, n)
