"""Reference semantics (T-PACK / T-UNPACK of DESIGN.md section 3) and the canoniser (E7).

``ref_pack`` / ``ref_unpack`` are an independent reading of the README's "supported data types"
section: for a *type object* and an input expression they give the documented operation as
canonical expression text (a list of acceptable spellings).  ``canon`` renders an actual
template produced by the dispatch simulation into the same canonical vocabulary: registered
helper names and type-reference holes are replaced by tokens naming the *object* they are bound to.
"""

from __future__ import annotations

import ast
import collections
import collections.abc
import datetime
import decimal
import enum
import fractions
import ipaddress
import os
import pathlib
import re
import types
import typing
import uuid
import zoneinfo
from typing import Any, Dict, List, Optional, Tuple

from .pe import Path
from .values import ClsRef, Const, Func, Hole, Obj, Py, Sym, Tmpl, V, show, to_tmpl

SCALARS_IDENTITY = (int, float, bool, type(None))
STR_OF = (zoneinfo.ZoneInfo, uuid.UUID, decimal.Decimal, fractions.Fraction, ipaddress.IPv4Address, ipaddress.IPv6Address,
          ipaddress.IPv4Network, ipaddress.IPv6Network, ipaddress.IPv4Interface, ipaddress.IPv6Interface)


def tok(obj: Any) -> str:
    """Canonical token of a Python object (class / function / bound builtin method)."""
    if isinstance(obj, type) and obj.__module__ == "builtins":
        return obj.__qualname__
    mod = getattr(obj, "__module__", None)
    qn = getattr(obj, "__qualname__", None) or getattr(obj, "__name__", repr(obj))
    if mod is None and hasattr(obj, "__self__"):
        mod = getattr(obj.__self__, "__module__", "")
    return "OBJ_" + re.sub(r"\W", "_", f"{mod}.{qn}")


def _origin(t):
    return getattr(t, "__origin__", t)


def _args(t):
    return tuple(getattr(t, "__args__", ()) or ())


def _is_nt(o):
    try:
        return issubclass(o, tuple) and hasattr(o, "_fields")
    except TypeError:
        return False


def _sub(o, *cls):
    try:
        return issubclass(o, cls)
    except TypeError:
        return False


def _alts(*xs) -> List[str]:
    out = []
    for x in xs:
        out.extend(x if isinstance(x, list) else [x])
    return out


def _one(xs: List[str]) -> str:
    return xs[0]


def pack_trivial(t) -> bool:
    o = _origin(t)
    return t is typing.Any or o in SCALARS_IDENTITY or (_sub(o, str) and not _sub(o, enum.Enum))


def _is_unpack(t):
    return typing.get_origin(t) is typing.Unpack or getattr(t, "__unpacked__", False) is True


def _tuple_items(a, x, conv, var_fmt):
    """Items of a fixed tuple; an unpacked variadic member takes the slice between its neighbours."""
    n = len(a)
    out = []
    seen = False
    for i, ai in enumerate(a):
        if _is_unpack(ai):
            seen = True
            inner = typing.get_args(ai)[0] if typing.get_origin(ai) is typing.Unpack else ai
            ia = typing.get_args(inner)
            j = (i + 1 - n) if i < n - 1 else None
            sl = f"{x}[{i}:{'' if j is None else j}]"
            elem = conv(ia[0] if ia else typing.Any, "value")
            out.append("*" + var_fmt.format(elem, sl))
        elif seen:
            out.append(conv(ai, f"{x}[{i - n}]"))
        else:
            out.append(conv(ai, f"{x}[{i}]"))
    return out


# --------------------------------------------------------------------------- T-PACK
def _optional_arg(t):
    if typing.get_origin(t) in (typing.Union, types.UnionType):
        a = typing.get_args(t)
        if len(a) == 2 and type(None) in a:
            return a[0] if a[1] is type(None) else a[1]
    return None


def ref_pack(t: Any, x: str, no_copy: Tuple = (), cbn: bool = True) -> List[str]:
    """``cbn``: the position could hold None and nothing above has checked it yet (ValueSpec.could_be_none)."""
    inner = _optional_arg(t)
    if inner is not None:
        alts = ref_pack(inner, x, no_copy)
        return [f"{e} if {x} is not None else None" for e in alts] if cbn else alts
    o = _origin(t)
    a = _args(t)
    if t is typing.Any or o in SCALARS_IDENTITY:
        return [x]
    if _sub(o, enum.Enum):
        return [f"{x}.value"]
    if o in (datetime.datetime, datetime.date, datetime.time):
        return [f"{x}.isoformat()"]
    if o is datetime.timedelta:
        return [f"{x}.total_seconds()"]
    if o is datetime.timezone:
        return [f"{x}.tzname(None)"]
    if o in STR_OF:
        return [f"str({x})", f"{x}.__str__()"]
    if _sub(o, bytes, bytearray):
        return [f"{tok(__import__('base64').encodebytes)}({x}).decode()"]
    if _sub(o, str):
        return [x]
    if _sub(o, os.PathLike):
        return [f"{x}.__fspath__()", f"{tok(os.fspath)}({x})"]
    if o in (re.Pattern, typing.Pattern):
        return [f"{x}.pattern"]
    if _is_nt(o):
        anns = getattr(o, "__annotations__", {})
        items = [_one(ref_pack(anns.get(f, typing.Any), f"{x}[{i}]", no_copy)) for i, f in enumerate(o._fields)]
        return ["[" + ", ".join(items) + "]"]
    if typing.is_typeddict(o):
        return [f"<typeddict helper>({x})"]
    if _sub(o, tuple):
        if not a or (len(a) == 2 and a[1] is Ellipsis):
            e = _one(ref_pack(a[0] if a else typing.Any, "value", no_copy))
            return [f"[{e} for value in {x}]"]
        return ["[" + ", ".join(_tuple_items(a, x, lambda t_, e_: _one(ref_pack(t_, e_, no_copy)), "[{} for value in {}]")) + "]"]
    if _sub(o, collections.ChainMap):
        k = _one(ref_pack(a[0] if a else typing.Any, "key", no_copy))
        v = _one(ref_pack(a[1] if a else typing.Any, "value", no_copy))
        return [f"[{{{k}: {v} for key, value in m.items()}} for m in {x}.maps]"]
    if _sub(o, collections.abc.Mapping):
        kt = a[0] if a else typing.Any
        vt = int if _sub(o, collections.Counter) else (a[1] if len(a) > 1 else typing.Any)
        k = _one(ref_pack(kt, "key", no_copy))
        v = _one(ref_pack(vt, "value", no_copy))
        comp = f"{{{k}: {v} for key, value in {x}.items()}}"
        if k == "key" and v == "value":
            if o in no_copy:
                return [x]
            if o is dict:
                return [f"{x}.copy()", comp, f"dict({x})"]
        return [comp]
    if _sub(o, list, collections.deque, collections.abc.Set, collections.abc.Sequence):
        e = _one(ref_pack(a[0] if a else typing.Any, "value", no_copy))
        comp = f"[{e} for value in {x}]"
        if e == "value":
            if o in no_copy:
                return [x]
            if o is list:
                return [f"{x}.copy()", comp, f"list({x})"]
            return [comp, f"list({x})"]
        return [comp]
    return ["<unsupported>"]


# --------------------------------------------------------------------------- T-UNPACK
def ref_unpack(t: Any, x: str, cbn: bool = True) -> List[str]:
    inner = _optional_arg(t)
    if inner is not None:
        alts = ref_unpack(inner, x)
        return [f"{e} if {x} is not None else None" for e in alts] if cbn else alts
    o = _origin(t)
    a = _args(t)
    if t is typing.Any:
        return [x]
    if o is type(None):
        return ["None"]
    if _sub(o, enum.Enum):
        return [f"{tok(o)}({x})"]
    if o in (int, float, bool):
        return [f"{o.__name__}({x})"]
    if o in (datetime.datetime, datetime.date, datetime.time):
        return [f"{tok(o.fromisoformat)}({x})", f"{tok(o)}.fromisoformat({x})"]
    if o is datetime.timedelta:
        return [f"{tok(o)}(seconds={x})"]
    if o is datetime.timezone:
        return [f"FUNC_parse_timezone({x})"]
    if o in STR_OF:
        return [f"{tok(o)}({x})"]
    if o is bytes:
        return [f"{tok(__import__('base64').decodebytes)}({x}.encode())"]
    if o is bytearray:
        return [f"bytearray({tok(__import__('base64').decodebytes)}({x}.encode()))"]
    if _sub(o, str):
        return [f"str({x})"]
    if o is os.PathLike:
        return [f"{tok(pathlib.PurePath)}({x})"]
    if _sub(o, os.PathLike):
        return [f"{tok(o)}({x})"]
    if o in (re.Pattern, typing.Pattern):
        return [f"{tok(re.compile)}({x})"]
    if _is_nt(o):
        if getattr(o, "_field_defaults", {}):
            return [f"<namedtuple helper>({x})"]
        anns = getattr(o, "__annotations__", {})
        items = [_one(ref_unpack(anns.get(f, typing.Any), f"{x}[{i}]")) for i, f in enumerate(o._fields)]
        return [f"{tok(o)}(" + ", ".join(items) + ")"]
    if typing.is_typeddict(o):
        return [f"<typeddict helper>({x})"]
    if _sub(o, tuple):
        if not a or (len(a) == 2 and a[1] is Ellipsis):
            e = _one(ref_unpack(a[0] if a else typing.Any, "value"))
            return [f"tuple([{e} for value in {x}])", f"tuple({e} for value in {x})"]
        return ["tuple([" + ", ".join(_tuple_items(a, x, lambda t_, e_: _one(ref_unpack(t_, e_)), "tuple([{} for value in {}])")) + "])"]
    if _sub(o, collections.abc.Mapping):
        kt = a[0] if a else typing.Any
        vt = int if _sub(o, collections.Counter) else (a[1] if len(a) > 1 else typing.Any)
        k = _one(ref_unpack(kt, "key"))
        v = _one(ref_unpack(vt, "value"))
        comp = f"{{{k}: {v} for key, value in {x}.items()}}"
        if _sub(o, collections.ChainMap):
            return [f"{tok(collections.ChainMap)}(*[{{{k}: {v} for key, value in m.items()}} for m in {x}])"]
        if _sub(o, collections.OrderedDict):
            return [f"{tok(collections.OrderedDict)}({comp})"]
        if _sub(o, collections.defaultdict):
            fac = "None" if not a else (tok(_origin(a[1])) if isinstance(_origin(a[1]), type) else "<factory>")
            return [f"{tok(collections.defaultdict)}({fac}, {comp})"]
        if _sub(o, collections.Counter):
            return [f"{tok(collections.Counter)}({comp})"]
        if _sub(o, types.MappingProxyType):
            return [f"{tok(types.MappingProxyType)}({comp})"]
        return [comp]
    e = _one(ref_unpack(a[0] if a else typing.Any, "value"))
    comp = f"[{e} for value in {x}]"
    if _sub(o, list):
        return [comp]
    if _sub(o, collections.deque):
        return [f"{tok(collections.deque)}({comp})"]
    if _sub(o, frozenset):
        return [f"frozenset({comp})", f"frozenset({e} for value in {x})"]
    if _sub(o, collections.abc.Set):
        return [f"set({comp})", f"{{{e} for value in {x}}}"]
    if _sub(o, collections.abc.Sequence):
        return [comp]
    return ["<unsupported>"]


# --------------------------------------------------------------------------- canoniser
def registered_objects(p: Path) -> Dict[str, str]:
    """name bound by ensure_object_imported / ensure_module_imported on this path -> canonical token."""
    out: Dict[str, str] = {}
    for ev in p.events:
        if not ev or ev[0] not in ("ensure_object", "ensure_module"):
            continue
        obj, name = ev[1], ev[2]
        if ev[0] == "ensure_module":
            if isinstance(obj, Py) and hasattr(obj.obj, "__name__"):
                out[obj.obj.__name__.split(".")[0]] = "MODULE:" + obj.obj.__name__
            continue
        if isinstance(obj, Py):
            target = tok(obj.obj)
            nm = name.v if isinstance(name, Const) and name.v else (show(name) if name is not None and not (isinstance(name, Const) and name.v is None) else getattr(obj.obj, "__name__", None))
        elif isinstance(obj, Func):
            target = "FUNC_" + obj.fi.node.name
            nm = name.v if isinstance(name, Const) and name.v else (show(name) if name is not None and not (isinstance(name, Const) and name.v is None) else obj.fi.node.name)
        else:
            continue
        if nm:
            out.setdefault(nm, target)  # setdefault semantics of builder.globals
    return out


def hole_token(h: Hole) -> Optional[str]:
    v = h.val
    if isinstance(v, Sym):
        if v.name == "X":
            return "X"
        if isinstance(v.origin, tuple) and v.origin and v.origin[0] == "typeref":
            return tok(v.origin[1])
    return None


class Canon(ast.NodeTransformer):
    def __init__(self, reg: Dict[str, str], holes: Dict[str, str]):
        self.reg = reg
        self.holes = holes
        self.unknown: List[str] = []

    def visit_Attribute(self, node: ast.Attribute):
        # module attribute chains: collections.deque -> OBJ_collections_deque
        chain = []
        n: ast.AST = node
        while isinstance(n, ast.Attribute):
            chain.append(n.attr)
            n = n.value
        if isinstance(n, ast.Name) and self.reg.get(n.id, "").startswith("MODULE:"):
            import importlib

            try:
                obj: Any = importlib.import_module(self.reg[n.id][7:].split(".")[0])
                for a in reversed(chain):
                    obj = getattr(obj, a)
                return ast.copy_location(ast.Name(tok(obj), ast.Load()), node)
            except Exception:
                pass
        self.generic_visit(node)
        return node

    def visit_Name(self, node: ast.Name):
        if node.id in self.holes:
            return ast.copy_location(ast.Name(self.holes[node.id], node.ctx), node)
        if node.id in self.reg and not self.reg[node.id].startswith("MODULE:"):
            return ast.copy_location(ast.Name(self.reg[node.id], node.ctx), node)
        return node


def typeref_of_identifier_call(h: Hole) -> Optional[str]:
    """`B.get_type_name_identifier(T)` with a concrete T: the sanctioned reference to T itself."""
    v = h.val
    if isinstance(v, Sym) and v.name.startswith("B.get_type_name_identifier(") and "TYPEREF_ID" in v.tags:
        return v.name
    return None


class _Norm(ast.NodeTransformer):
    """Equivalent spellings: x[a:None] == x[a:], tuple(gen) handled by alternatives."""

    def visit_Slice(self, node: ast.Slice):
        self.generic_visit(node)
        for f in ("lower", "upper", "step"):
            v = getattr(node, f)
            if isinstance(v, ast.Constant) and v.value is None:
                setattr(node, f, None)
        return node


def canon_text(src: str) -> str:
    try:
        return ast.dump(_Norm().visit(ast.parse(src, mode="eval")))
    except SyntaxError:
        return "<unparseable> " + src
