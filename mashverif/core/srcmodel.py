"""E1 -- source model of the repository (stdlib ``ast`` only).

Parses every module below ``<repo>/mashumaro`` and offers: module trees, import
maps to fully qualified names, a class index with in-repo MRO, a function index
keyed by ``module::qualname`` and callee resolution helpers.  The repository is
never imported.
"""

from __future__ import annotations

import ast
import hashlib
import os
from dataclasses import dataclass, field
from typing import Dict, Iterable, Iterator, List, Optional, Tuple

from .. import PKG, REPO


class AnalysisError(Exception):
    """An anchor vanished or a structural fact the analyser relies on changed."""


class Undecided(Exception):
    """The construct has a shape the analyser cannot classify (exit 2, no alarm)."""


@dataclass
class FuncInfo:
    module: str  # dotted module name, e.g. mashumaro.core.meta.types.pack
    qualname: str  # e.g. CodeBuilder._add_pack_method_lines or pack_tuple
    node: ast.FunctionDef
    cls: Optional[str] = None  # enclosing class name if a method
    path: str = ""

    @property
    def key(self) -> str:
        return f"{self.module}::{self.qualname}"

    @property
    def loc(self) -> str:
        return f"{os.path.relpath(self.path, REPO)}:{self.node.lineno}"

    def decorators(self) -> List[str]:
        return [ast.unparse(d) for d in self.node.decorator_list]


@dataclass
class ClassInfo:
    module: str
    name: str
    node: ast.ClassDef
    bases: List[str] = field(default_factory=list)  # resolved dotted names
    path: str = ""

    @property
    def key(self) -> str:
        return f"{self.module}::{self.name}"


@dataclass
class ModuleInfo:
    name: str
    path: str
    tree: ast.Module
    source: str
    imports: Dict[str, str] = field(default_factory=dict)  # local -> dotted
    consts: Dict[str, object] = field(default_factory=dict)


class Repo:
    def __init__(self, pkg_dir: str = PKG):
        self.pkg_dir = pkg_dir
        self.modules: Dict[str, ModuleInfo] = {}
        self.funcs: Dict[str, FuncInfo] = {}
        self.classes: Dict[str, ClassInfo] = {}
        self._digest = hashlib.sha256()
        self._load()

    # ------------------------------------------------------------------ load
    def _load(self) -> None:
        root = os.path.dirname(self.pkg_dir)
        files = []
        for dp, dn, fn in os.walk(self.pkg_dir):
            dn[:] = sorted(d for d in dn if d != "__pycache__")
            for f in sorted(fn):
                if f.endswith(".py"):
                    files.append(os.path.join(dp, f))
        if len(files) < 30:
            raise AnalysisError(
                f"only {len(files)} python modules under {self.pkg_dir}"
            )
        for path in files:
            rel = os.path.relpath(path, root)[:-3].replace(os.sep, ".")
            if rel.endswith(".__init__"):
                rel = rel[: -len(".__init__")]
            with open(path, "rb") as fh:
                raw = fh.read()
            self._digest.update(rel.encode() + b"\0" + raw)
            src = raw.decode("utf-8")
            try:
                tree = ast.parse(src, filename=path)
            except SyntaxError as e:  # pragma: no cover
                raise AnalysisError(f"cannot parse {path}: {e}")
            mi = ModuleInfo(rel, path, tree, src)
            self.modules[rel] = mi
            self._index_module(mi)

    def _index_module(self, mi: ModuleInfo) -> None:
        for node in ast.walk(mi.tree):
            if isinstance(node, ast.Import):
                for a in node.names:
                    if a.asname:
                        mi.imports[a.asname] = a.name
                    else:
                        mi.imports[a.name.split(".")[0]] = a.name.split(".")[0]
            elif isinstance(node, ast.ImportFrom):
                mod = node.module or ""
                if node.level:
                    base = mi.name.split(".")
                    base = base[: len(base) - node.level + (1 if mi.path.endswith("__init__.py") else 0)]
                    mod = ".".join(base + ([mod] if mod else []))
                for a in node.names:
                    mi.imports[a.asname or a.name] = f"{mod}.{a.name}"
        for node in mi.tree.body:
            if isinstance(node, ast.Assign) and len(node.targets) == 1:
                t = node.targets[0]
                if isinstance(t, ast.Name):
                    try:
                        mi.consts[t.id] = ast.literal_eval(node.value)
                    except Exception:
                        if ast.unparse(node.value) == "type(None)":
                            mi.consts[t.id] = type(None)
        self._index_body(mi, mi.tree.body, prefix="", cls=None)

    def _index_body(self, mi, body, prefix, cls):
        for node in body:
            if isinstance(node, (ast.FunctionDef, ast.AsyncFunctionDef)):
                qn = f"{prefix}{node.name}"
                fi = FuncInfo(mi.name, qn, node, cls, mi.path)
                # keep the last definition with an actual body (skip @overload)
                if any(
                    ast.unparse(d).endswith("overload")
                    for d in node.decorator_list
                ):
                    continue
                self.funcs[fi.key] = fi
                self._index_body(mi, node.body, prefix=f"{qn}.<locals>.", cls=None)
            elif isinstance(node, ast.ClassDef):
                qn = f"{prefix}{node.name}"
                bases = [self.resolve_name(mi, ast.unparse(b)) for b in node.bases]
                self.classes[f"{mi.name}::{qn}"] = ClassInfo(
                    mi.name, qn, node, bases, mi.path
                )
                self._index_body(mi, node.body, prefix=f"{qn}.", cls=qn)
            elif isinstance(node, (ast.If, ast.Try)):
                for sub in ast.iter_child_nodes(node):
                    if isinstance(sub, list):
                        continue
                blocks = []
                if isinstance(node, ast.If):
                    blocks = [node.body, node.orelse]
                else:
                    blocks = [node.body, node.orelse, node.finalbody] + [
                        h.body for h in node.handlers
                    ]
                for b in blocks:
                    self._index_body(mi, b, prefix, cls)

    # --------------------------------------------------------------- lookups
    @property
    def digest(self) -> str:
        return self._digest.hexdigest()

    def module(self, name: str) -> ModuleInfo:
        try:
            return self.modules[name]
        except KeyError:
            raise AnalysisError(f"module {name} not found")

    def func(self, module: str, qualname: str) -> FuncInfo:
        key = f"{module}::{qualname}"
        try:
            return self.funcs[key]
        except KeyError:
            raise AnalysisError(f"anchor function {key} not found")

    def has_func(self, module: str, qualname: str) -> bool:
        return f"{module}::{qualname}" in self.funcs

    def cls(self, module: str, name: str) -> ClassInfo:
        try:
            return self.classes[f"{module}::{name}"]
        except KeyError:
            raise AnalysisError(f"anchor class {module}::{name} not found")

    def resolve_name(self, mi: ModuleInfo, dotted: str) -> str:
        """Resolve a (dotted) local name in module ``mi`` to a qualified name."""
        head, _, rest = dotted.partition(".")
        if head in mi.imports:
            q = mi.imports[head]
            return f"{q}.{rest}" if rest else q
        # a module-level definition?
        if f"{mi.name}::{head}" in self.funcs or f"{mi.name}::{head}" in self.classes:
            return f"{mi.name}.{dotted}"
        return dotted

    def find_class(self, dotted: str) -> Optional[ClassInfo]:
        mod, _, name = dotted.rpartition(".")
        return self.classes.get(f"{mod}::{name}")

    def mro(self, ci: ClassInfo) -> List[ClassInfo]:
        """In-repo linearisation (simple depth-first, sufficient: single inheritance)."""
        out = [ci]
        for b in ci.bases:
            bc = self.find_class(b)
            if bc is not None:
                for c in self.mro(bc):
                    if c not in out:
                        out.append(c)
        return out

    def method(self, ci: ClassInfo, name: str) -> Optional[FuncInfo]:
        """Look ``name`` up along the in-repo MRO, honouring private name mangling."""
        for c in self.mro(ci):
            for cand in (name,):
                fi = self.funcs.get(f"{c.module}::{c.name}.{cand}")
                if fi is not None:
                    return fi
            # mangled private: _Cls__name -> __name defined in Cls
            pre = f"_{c.name}__"
            if name.startswith(pre):
                fi = self.funcs.get(f"{c.module}::{c.name}.__{name[len(pre):]}")
                if fi is not None:
                    return fi
        return None

    def methods_of(self, ci: ClassInfo) -> Iterator[FuncInfo]:
        pre = f"{ci.module}::{ci.name}."
        for k, f in self.funcs.items():
            if k.startswith(pre) and "." not in k[len(pre):]:
                yield f

    def module_funcs(self, module: str) -> Iterator[FuncInfo]:
        pre = f"{module}::"
        for k, f in self.funcs.items():
            if k.startswith(pre):
                yield f

    def stats(self) -> dict:
        return {
            "modules": len(self.modules),
            "functions": len(self.funcs),
            "classes": len(self.classes),
            "source_digest": self.digest,
        }


# Module names used all over the checks.
M_BUILDER = "mashumaro.core.meta.code.builder"
M_LINES = "mashumaro.core.meta.code.lines"
M_COMMON = "mashumaro.core.meta.types.common"
M_PACK = "mashumaro.core.meta.types.pack"
M_UNPACK = "mashumaro.core.meta.types.unpack"
M_HELPERS = "mashumaro.core.meta.helpers"
M_CORE_HELPERS = "mashumaro.core.helpers"
M_CODEC_BUILDER = "mashumaro.codecs._builder"
M_DIALECT = "mashumaro.dialect"
M_CONFIG = "mashumaro.config"
M_MIXIN = "mashumaro.core.meta.mixin"
M_SCHEMA = "mashumaro.jsonschema.schema"
M_SCHEMA_MODELS = "mashumaro.jsonschema.models"
M_SCHEMA_BUILDER = "mashumaro.jsonschema.builder"
M_EXC = "mashumaro.exceptions"
M_TYPES = "mashumaro.types"

GENERATOR_MODULES = (M_BUILDER, M_PACK, M_UNPACK, M_COMMON, M_CODEC_BUILDER)


def walk_no_nested(node: ast.AST) -> Iterator[ast.AST]:
    """ast.walk that does not descend into nested function/class definitions."""
    stack = list(ast.iter_child_nodes(node))
    while stack:
        n = stack.pop()
        yield n
        if isinstance(n, (ast.FunctionDef, ast.AsyncFunctionDef, ast.ClassDef, ast.Lambda)):
            continue
        stack.extend(ast.iter_child_nodes(n))


def norm(node: ast.AST) -> str:
    """Normalised source text of an expression/statement (formatting-insensitive)."""
    return ast.unparse(node)
