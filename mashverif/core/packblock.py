"""Analysis of the to_dict body generator (CodeBuilder._add_pack_method_lines) for one generic field.

All generator paths (E4) x all run-time valuations of each emitted body (E5) are compared with
PROJECT, the specification function written from the statement of C08.
"""

from __future__ import annotations

import ast
import itertools
import re
from dataclasses import dataclass, field
from typing import Any, Dict, List, Optional, Tuple

from .pe import Path
from .scen import make_eval
from .skeleton import MARK, Rendered, Run, SkelInterp, SkeletonSyntaxError, parse, render
from .srcmodel import AnalysisError, M_BUILDER, Repo, Undecided
from .values import Const, Hole, Sym, Tmpl, show

BASE_ASSUME = [
    (r"lazy_compilation", False), (r"raises\[Unresolved", False), (r"get_declared_hook", False),
    (r"sort_keys", False), (r"B\.encoder is None", True), (r"bool\(B\.encoder\)", False),
    (r"get_config\(\)\.debug", False),
]


@dataclass
class PGen:
    by_alias_feature: bool
    omit_none_feature: bool
    serialize_by_alias: bool
    omit_none: bool
    omit_default: bool
    omitted: bool
    could_be_none: bool
    trivial: Optional[bool]
    has_alias: bool
    default: str  # 'MISSING' | 'None' | 'other' | 'n/a'
    nan_default: bool = False

    def label(self) -> str:
        return (f"by_alias_flag={int(self.by_alias_feature)} omit_none_flag={int(self.omit_none_feature)} "
                f"serialize_by_alias={int(self.serialize_by_alias)} omit_none={int(self.omit_none)} "
                f"omit_default={int(self.omit_default)} omitted={int(self.omitted)} nullable={int(self.could_be_none)} "
                f"trivial={'?' if self.trivial is None else int(self.trivial)} alias={int(self.has_alias)} default={self.default}")


@dataclass
class PMismatch:
    gen: PGen
    valuation: Dict[str, bool]
    expected: str
    actual: str
    skeleton: str


@dataclass
class PackResult:
    paths: int = 0
    worlds: int = 0
    skeletons: int = 0
    valuations: int = 0
    checked: int = 0
    mismatches: List[PMismatch] = field(default_factory=list)
    undecided: List[str] = field(default_factory=list)
    samples: List[dict] = field(default_factory=list)
    syntax_errors: List[str] = field(default_factory=list)


def explore(repo: Repo, extra_assume=(), generic_elems: int = 1, max_steps: int = 800000):
    ev = make_eval(repo, inline_depth=6, assume=list(BASE_ASSUME) + list(extra_assume), force_opaque={"__get_field_alias"},
                   generic_elems=generic_elems, max_steps=max_steps)
    p = Path()
    fi = repo.func(M_BUILDER, "CodeBuilder._add_pack_method_lines")
    paths = ev.run(fi, {"self": ev.builder_obj(p), "method_name": Sym("method_name", {"IDENT"})}, p)
    return ev, paths


def _atom(at: Dict[str, bool], rx: str) -> Optional[bool]:
    for k, v in at.items():
        if re.search(rx, k):
            return v
    return None


def gen_facts(at: Dict[str, bool], idn: Dict[str, str], exc: Dict[str, frozenset]) -> PGen:
    def b(rx):
        v = _atom(at, rx)
        return bool(v)

    omitted = b(r"\.get\(serialize\) == omit")
    cbn = False
    for rx in (r"ftype#1 in \(typing\.Any", r"is_type_var_any", r"is_optional"):
        if _atom(at, rx):
            cbn = True
    # default facts: get_field_default(fname#1) is None  (could_be_none)  and  get_field_default(fname#1, call_factory=True)
    d1 = next((k for k in list(idn) + list(exc) if re.search(r"get_field_default\(fname#1\)$", k)), None)
    if d1 and idn.get(d1) == "None":
        cbn = True
    d2 = next((k for k in list(idn) + list(exc) if "get_field_default(fname#1, call_factory=True)" in k and "literal" not in k), None)
    default = "n/a"
    if d2:
        default = idn.get(d2) if idn.get(d2) in ("MISSING", "None") else "other"
    nan = bool(_atom(at, r"isnan"))
    alias_t = _atom(at, r"^bool\(B\.__get_field_alias\(")
    alias_none = any(v == "None" for k, v in idn.items() if k.startswith("B.__get_field_alias("))
    has_alias = bool(alias_t) or (alias_t is None and not alias_none and any("None" in v for k, v in exc.items() if k.startswith("B.__get_field_alias(")))
    triv = _atom(at, r"PACK\[ftype#1\]\(.*\) == value")
    return PGen(
        by_alias_feature=b(r"is_code_generation_option_enabled\(TO_DICT_ADD_BY_ALIAS_FLAG\)"),
        omit_none_feature=b(r"is_code_generation_option_enabled\(TO_DICT_ADD_OMIT_NONE_FLAG\)"),
        serialize_by_alias=b(r"get_dialect_or_config_option\(serialize_by_alias, False\)"),
        omit_none=b(r"get_dialect_or_config_option\(omit_none, False\)"),
        omit_default=b(r"get_dialect_or_config_option\(omit_default, False\)"),
        omitted=omitted, could_be_none=cbn, trivial=triv, has_alias=has_alias, default=default, nan_default=nan,
    )


class PRoles:
    def __init__(self, r: Rendered):
        self.alias, self.name, self.pack, self.deflit = set(), set(), set(), set()
        self.r = r
        for m, h in r.holes.items():
            t = set(h.val.tags)
            nm = show(h.val)
            if "ALIAS" in t:
                self.alias.add(m)
            elif nm.startswith("PACK["):
                self.pack.add(m)
            elif "DEFAULT_LITERAL" in t:
                self.deflit.add(m)
            elif "FIELDS" in t or "FIELDNAME" in t:
                self.name.add(m)

    def key_role(self, text: str) -> Optional[str]:
        ms = MARK.findall(text)
        if len(ms) != 1:
            return None
        m = f"_h{ms[0]}_"
        if text.strip().strip("'\"") != m:
            return None
        return "alias" if m in self.alias else "name" if m in self.name else None


def analyse(repo: Repo, extra_assume=(), max_steps: int = 800000) -> PackResult:
    res = PackResult()
    ev, paths = explore(repo, extra_assume, max_steps=max_steps)
    res.paths = len(paths)
    seen = set()
    for p in paths:
        if p.ctl == "raise":
            continue
        lines = p.lines()
        r = render(lines, wrap=True)
        try:
            tree = parse(r)
        except SkeletonSyntaxError as e:
            res.syntax_errors.append(f"{e}\n{r.describe(r.src)}")
            continue
        roles = PRoles(r)
        fn = tree.body[0]
        interp = SkelInterp()
        try:
            runs = interp.run_body(fn.body)
        except Undecided as e:
            res.undecided.append(str(e))
            continue
        for w in p.worlds():
            res.worlds += 1
            g = gen_facts(Path._view(w, "A|"), Path._view(w, "I|"), Path._view(w, "X|"))
            key = (r.src, g.label())
            if key in seen:
                continue
            seen.add(key)
            _compare(res, g, r, roles, runs)
        res.skeletons = len({k[0] for k in seen})
    return res


def _classify(run: Run, roles: PRoles) -> Optional[Dict[str, bool]]:
    f: Dict[str, bool] = {}
    for k, v in run.atoms.items():
        if re.fullmatch(r"self\._h\d+_ is None", k):
            f["is_none"] = v
        elif k == "bool(by_alias)":
            f["kw_by_alias"] = v
        elif k == "bool(omit_none)":
            f["kw_omit_none"] = v
        elif re.fullmatch(r"self\._h\d+_ == _h\d+_", k):
            f["eq_default"] = v
        elif re.fullmatch(r"bool\(isnan\(self\._h\d+_\)\)", k):
            f["eq_default"] = v
        else:
            return None
    return f


def expected(g: PGen, val: Dict[str, bool]) -> Tuple:
    if g.omitted:
        return ("absent",)
    by_alias = val["kw_by_alias"] if g.by_alias_feature else g.serialize_by_alias
    omit_none = val["kw_omit_none"] if g.omit_none_feature else g.omit_none
    if omit_none and val["is_none"]:
        return ("absent",)
    if g.omit_default and g.default != "MISSING":
        eq = val["is_none"] if g.default == "None" else val["eq_default"]
        if eq:
            return ("absent",)
    key = "alias" if (by_alias and g.has_alias) else "name"
    if val["is_none"]:
        return ("present", key, "None")
    return ("present", key, "raw" if g.trivial else "packed")


def actual(g: PGen, r: Rendered, roles: PRoles, run: Run) -> Tuple:
    writes = []
    for kind, target, value in run.stores:
        if kind == "item":
            m = re.fullmatch(r"kwargs\[(.+)\]", target)
            if m:
                writes.append((m.group(1), value))
            else:
                return ("other", f"store to {r.describe(target)}")
        elif kind in ("attr", "aug"):
            return ("other", f"store to {r.describe(target)}")
    ret = run.outcome.value if run.outcome.kind == "return" else None
    if ret is None:
        return ("other", f"outcome {run.outcome.kind}")
    if ret != "kwargs":
        try:
            node = ast.parse(ret, mode="eval").body
        except SyntaxError:
            return ("other", f"return {r.describe(ret)}")
        if not isinstance(node, ast.Dict):
            return ("other", f"return {r.describe(ret)}")
        if writes:
            return ("other", "dict literal returned after kwargs stores")
        for k, v in zip(node.keys, node.values):
            writes.append((ast.unparse(k), ast.unparse(v)))
    else:
        if not any(s[0] == "name" and s[1] == "kwargs" and s[2] == "{}" for s in run.stores):
            return ("other", "kwargs returned but never initialised to {}")
    if not writes:
        return ("absent",)
    if len(writes) > 1:
        return ("multi", tuple((r.describe(a), r.describe(b)) for a, b in writes))
    ktxt, vtxt = writes[0]
    role = roles.key_role(ktxt)
    if vtxt == "None":
        vk = "None"
    elif re.fullmatch(r"self\._h\d+_", vtxt) and roles.key_role(vtxt[5:]) == "name":
        vk = "raw"
    elif vtxt in roles.pack:
        vk = "packed"
        h = r.holes[vtxt]
        arg = show(h.val)
        # the packer expression takes `value` or self.<name>; `value` must hold self.<name>
        if arg.endswith("](value)"):
            vt = run.env.get("value", "")
            if not (re.fullmatch(r"self\._h\d+_", vt) and roles.key_role(vt[5:]) == "name"):
                vk = "packed-stale-value"
    else:
        vk = f"other:{r.describe(vtxt)}"
    return ("present", role, vk)


def _compare(res: PackResult, g: PGen, r: Rendered, roles: PRoles, runs: List[Run]) -> None:
    names = ["is_none", "kw_by_alias", "kw_omit_none", "eq_default"]
    classified = []
    for run in runs:
        f = _classify(run, roles)
        if f is None:
            res.undecided.append(f"{g.label()}: unknown run-time test in to_dict body: {[r.describe(k) for k in run.atoms]}")
            return
        classified.append((f, run))
    for vals in itertools.product([False, True], repeat=4):
        val = dict(zip(names, vals))
        if val["is_none"] and not g.could_be_none:
            continue  # a non-nullable field holding None: outside the property (non-conforming value)
        if val["is_none"] and val["eq_default"] and g.default == "other":
            continue  # None never equals a non-None default
        res.valuations += 1
        matching = [run for f, run in classified if all(val.get(k) == v for k, v in f.items())]
        if not matching:
            res.undecided.append(f"{g.label()}: no run matches {val}")
            continue
        outs = {str(actual(g, r, roles, m)) for m in matching}
        if len(outs) != 1:
            res.undecided.append(f"{g.label()}: ambiguous runs for {val}: {outs}")
            continue
        act = actual(g, r, roles, matching[0])
        exp = expected(g, val)
        res.checked += 1
        if len(res.samples) < 8 and res.checked % 211 == 3:
            res.samples.append({"generator": g.label(), "valuation": {k: v for k, v in val.items() if v}, "expected": str(exp), "actual": str(act)})
        ok = exp == act
        if not ok and exp[0] == "present" and act[0] == "present" and exp[1] == act[1]:
            # None rendered through the raw value (value is None): same thing
            if exp[2] == "None" and act[2] == "raw":
                ok = True
        if not ok:
            res.mismatches.append(PMismatch(g, val, str(exp), str(act), r.describe(r.src)))
