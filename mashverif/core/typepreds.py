"""Contracts of the type-level helpers (mashumaro/core/meta/helpers.py), decided by interpreting each helper's own source
over type objects (typeeval.py).

Two rules:

* ``model_agreement``: every predicate that the dispatch simulation replaces by ``dispatch.HELPER_MODEL`` is evaluated on
  every catalogue type and on a list of special forms; the helper's own body must return what the model returns.  This
  removes HELPER_MODEL from the trusted base: an edit inside ``is_union`` / ``is_literal`` / ``get_type_origin`` / ... that
  changes the answer for a supported type is reported against the helper, with the type.
* ``reference_cases``: helpers that the simulation summarises symbolically (``type_name``, ``resolve_type_params``,
  ``substitute_type_params``, ``collect_type_params``, ``not_none_type_arg``, ``is_variable_length_tuple``,
  ``get_literal_values``, ``get_class_that_defines_method`` / ``_field``, ``get_function_*_annotation`` ...) are evaluated on
  a hand-written table of (arguments -> documented result) cases.  The expected values were written from the README /
  typing documentation (a type's name is the expression that denotes it; a TypeVar resolves to its argument; the
  defining class of a field is the most-derived dataclass that declares it) and confirmed case by case.
"""

import collections
import dataclasses
import datetime
import enum
import typing
from typing import Any, Callable, Dict, List, Tuple

from .report import Report
from .srcmodel import M_HELPERS, Repo
from .typeeval import TypeEval, evaluate

T = typing.TypeVar("T")
S = typing.TypeVar("S")
TB = typing.TypeVar("TB", bound=int)
TC = typing.TypeVar("TC", int, str)
TA = typing.TypeVar("TA", bound=typing.Any)
Ts = typing.TypeVarTuple("Ts")
NT = typing.NewType("NT", int)
NoneType = type(None)


class _Color(enum.Enum):
    RED = 1


class _G(typing.Generic[T]):
    pass


class _H(_G[int]):
    pass


class _P(typing.Generic[T, S]):
    pass


class _Q(_P[S, int], typing.Generic[S]):
    pass


class _V(typing.Generic[typing.Unpack[Ts]]):
    pass


class _MA:
    def m(self):
        pass


class _MB(_MA):
    pass


class _MC(_MB):
    def m(self):
        pass


@dataclasses.dataclass
class _FA:
    x: int = 0


@dataclasses.dataclass
class _FB(_FA):
    y: int = 0


@dataclasses.dataclass
class _FC(_FB):
    x: int = 1


class _FD(_FC):  # not a dataclass itself
    pass


def _fn(a: int, b: "str", c=3) -> float:  # noqa: ANN001
    return 0.0


def _fn_noret(a: int):  # noqa: ANN202
    return None


def special_forms() -> List[Tuple[str, Any]]:
    O, U, L, A = typing.Optional, typing.Union, typing.Literal, typing.Annotated
    return [
        ("Any", typing.Any), ("None", None), ("NoneType", NoneType), ("Ellipsis", Ellipsis), ("object", object),
        ("Optional[int]", O[int]), ("Union[int, str]", U[int, str]), ("int | str", int | str), ("int | None", int | None),
        ("Union[int, str, None]", U[int, str, None]), ("Union[None, int]", U[None, int]),
        ("Literal[1]", L[1]), ("Literal[1, 'a', None]", L[1, "a", None]), ("Literal[Color.RED]", L[_Color.RED]),
        ("Annotated[int, 'x']", A[int, "x"]), ("Annotated[Optional[int], 'x']", A[O[int], "x"]), ("Annotated[list[int], 'x']", A[list[int], "x"]),
        ("T", T), ("TB (bound)", TB), ("TC (constraints)", TC), ("TA (bound Any)", TA), ("Ts", Ts), ("Unpack[Ts]", typing.Unpack[Ts]),
        ("NewType", NT), ("Final[int]", typing.Final[int]), ("Final", typing.Final), ("ClassVar[int]", typing.ClassVar[int]), ("ClassVar", typing.ClassVar),
        ("InitVar[int]", dataclasses.InitVar[int]), ("Self", typing.Self), ("Required[int]", typing.Required[int]), ("NotRequired[int]", typing.NotRequired[int]),
        ("Unpack[tuple[int, ...]]", typing.Unpack[tuple[int, ...]]), ("Unpack[Tuple[int, str]]", typing.Unpack[typing.Tuple[int, str]]),
        ("tuple[()]", tuple[()]), ("Tuple[()]", typing.Tuple[()]), ("tuple[int]", tuple[int]), ("Tuple[int, ...]", typing.Tuple[int, ...]),
        ("typing.List", typing.List), ("typing.Dict", typing.Dict), ("typing.Tuple", typing.Tuple), ("G[int]", _G[int]), ("G", _G), ("H", _H),
        ("Callable[[int], str]", typing.Callable[[int], str]), ("type[int]", type[int]), ("ForwardRef('X')", typing.ForwardRef("X")), ("'X'", "X"),
        ("List[T]", typing.List[T]), ("dict[str, T]", dict[str, T]),
    ]


def _same(a, b) -> bool:
    try:
        if type(a) is not type(b) and not (isinstance(a, (tuple, list)) and isinstance(b, (tuple, list))):
            return False
        if isinstance(a, (tuple, list)):
            return len(a) == len(b) and all(_same(x, y) for x, y in zip(a, b))
        if isinstance(a, dict):
            return set(a.keys()) == set(b.keys()) and all(_same(a[k], b[k]) for k in a)
        return a == b
    except Exception:  # noqa: BLE001
        return a is b


def _show(v) -> str:
    s = repr(v)
    return s if len(s) < 160 else s[:157] + "..."


def model_agreement(repo: Repo, rep: Report, rule: str, tier: str = "quick") -> None:
    from . import dispatch

    te = TypeEval(repo)
    probes: List[Tuple[str, Any]] = [(e.name, e.type) for e in dispatch.catalogue(tier)] + special_forms()
    models = dict(dispatch.HELPER_MODEL)
    models["get_args"] = dispatch.get_args_model(repo)
    n = 0
    for name, model in models.items():
        f = te.func(M_HELPERS, name)
        construct = f"{M_HELPERS}::{name}"
        for pname, t in probes:
            try:
                want: Tuple[str, Any] = ("value", model(t))
            except Exception as ex:  # noqa: BLE001 -- the model's own answer for a foreign object
                want = ("raises", type(ex).__name__)
            got = evaluate(te, f, t)
            inst = f"{name}({pname})"
            n += 1
            if got[0] == "unsupported":
                rep.undecide(rule, f"{inst}: the helper's body uses a construct the type-level evaluator does not model ({got[1]})")
                continue
            if got[0] == want[0] and (got[0] == "raises" and got[1] == want[1] or got[0] == "value" and _same(got[1], want[1])):
                rep.ok(rule, inst, {"result": _show(got[1])}, nontrivial=bool(got[1]) if got[0] == "value" else True)
            elif want[0] == "raises":
                # the model is only defined on what the generator passes; a helper that answers where the model raises is fine
                rep.ok(rule, inst, nontrivial=False)
            else:
                rep.violation(rule, construct, inst, f"the type predicate answers {_show(got[1])} for this type; the documented classification (and the model "
                              f"every catalogue rule relies on) is {_show(want[1])}", actual=_show(got), reference=_show(want))
    rep.analysed["type_predicate_evaluations"] = n
    rep.floor(rule, 3000)


def _cases() -> List[Tuple[str, str, tuple, dict, Any]]:
    """(label, helper, args, kwargs, expected) -- expected is ('value', v) or ('raises', 'Exc')"""
    O, U, L, A = typing.Optional, typing.Union, typing.Literal, typing.Annotated
    D = datetime
    mod = __name__
    v = lambda x: ("value", x)  # noqa: E731
    c: List[Tuple[str, str, tuple, dict, Any]] = []
    # ---- type_name: the expression that denotes the type (full form is spliced into generated code / error messages)
    tn = [
        (int, "int"), (str, "str"), (NoneType, "NoneType"), (None, "None"), (Ellipsis, "..."), (typing.Any, "typing.Any"),
        (D.date, "datetime.date"), (D.datetime, "datetime.datetime"), (collections.OrderedDict, "collections.OrderedDict"),
        (list[int], "list[int]"), (typing.List[int], "typing.List[int]"), (typing.List, "typing.List"), (dict[str, int], "dict[str, int]"),
        (typing.Dict[str, typing.List[D.date]], "typing.Dict[str, typing.List[datetime.date]]"),
        (O[int], "typing.Optional[int]"), (int | None, "typing.Optional[int]"), (U[None, int], "typing.Optional[int]"),
        (U[int, str], "typing.Union[int, str]"), (int | str, "typing.Union[int, str]"), (U[int, str, None], "typing.Union[int, str, None]"),
        (O[list[D.date]], "typing.Optional[list[datetime.date]]"),
        (L[1, "a"], "typing.Literal[1, 'a']"), (L[_Color.RED], f"typing.Literal[{mod}._Color.RED]"), (L[None, b"x", True], "typing.Literal[None, b'x', True]"),
        (A[int, "x"], "int"), (A[list[int], "x"], "list[int]"),
        # a type's name is also an identity key (method names of generic specialisations are digests of it) and is spliced into
        # generated source: Literal values must be rendered completely and as valid literals
        (L["https://example.org/api/v1/a-rather-long-endpoint-name"], "typing.Literal['https://example.org/api/v1/a-rather-long-endpoint-name']"),
        (L["it's", 'say "hi"', "back\\slash"], "typing.Literal[\"it's\", 'say \"hi\"', 'back\\\\slash']"),
        (L[b"0123456789012345678901234567890123456789"], "typing.Literal[b'0123456789012345678901234567890123456789']"),
        (L[12345678901234567890123456789012345678901234567890], "typing.Literal[12345678901234567890123456789012345678901234567890]"),
        (T, "typing.Any"), (TB, "int"), (TC, "typing.Union[int, str]"), (NT, f"{mod}.NT"),
        (tuple[int, ...], "tuple[int, ...]"), (typing.Tuple[int, str], "typing.Tuple[int, str]"), (tuple[()], "tuple[()]"), (typing.Tuple[()], "typing.Tuple[()]"),
        (typing.Unpack[tuple[int, ...]], "*tuple[int, ...]"), (tuple[int, typing.Unpack[tuple[str, ...]]], "tuple[int, *tuple[str, ...]]"),
        (collections.OrderedDict[str, int], "collections.OrderedDict[str, int]"), (typing.Mapping[str, int], "typing.Mapping[str, int]"),
        (_G[int], f"{mod}._G[int]"), (_G, f"{mod}._G"), (_Color, f"{mod}._Color"), (type[int], "type[int]"),
    ]
    for t, want in tn:
        c.append((f"type_name({_show(t)})", "type_name", (t,), {}, v(want)))
    for t, want in [(int, "int"), (D.date, "date"), (O[int], "Optional[int]"), (typing.List[D.date], "List[date]"), (U[int, D.date], "Union[int, date]"),
                    (L[_Color.RED], "Literal[_Color.RED]"), (T, "Any"), (_G[D.date], "_G[date]")]:
        c.append((f"type_name({_show(t)}, short=True)", "type_name", (t,), {"short": True}, v(want)))
    c += [
        ("type_name(T, resolved={T: int})", "type_name", (T,), {"resolved_type_params": {T: int}}, v("int")),
        ("type_name(List[T], resolved={T: date})", "type_name", (typing.List[T],), {"resolved_type_params": {T: D.date}}, v("typing.List[datetime.date]")),
        ("type_name(T, resolved={T: T})", "type_name", (T,), {"resolved_type_params": {T: T}}, v("typing.Any")),
        ("type_name(Union[T, int], resolved={T: NoneType})", "type_name", (U[T, int],), {"resolved_type_params": {T: NoneType}}, v("typing.Optional[int]")),
        ("type_name(NoneType, none_type_as_none=True)", "type_name", (NoneType,), {"none_type_as_none": True}, v("None")),
        ("type_name(list, is_type_origin=True)", "type_name", (list,), {"is_type_origin": True}, v("list")),
        ("get_generic_name(List[int])", "get_generic_name", (typing.List[int],), {}, v("typing.List")),
        ("get_generic_name(List[int], short)", "get_generic_name", (typing.List[int], True), {}, v("List")),
        ("get_generic_name(list[int])", "get_generic_name", (list[int],), {}, v("list")),
        ("get_generic_name(OrderedDict[str, int])", "get_generic_name", (collections.OrderedDict[str, int],), {}, v("collections.OrderedDict")),
    ]
    # ---- small predicates not in HELPER_MODEL
    for t, want in [(tuple[int, ...], True), (typing.Tuple[int, ...], True), (tuple[int, str], False), (tuple[int], False), (tuple, False), (tuple[()], False),
                    (list[int], False), (typing.Tuple[D.date, ...], True), (tuple[int, str, ...] if False else tuple[int, int], False)]:
        c.append((f"is_variable_length_tuple({_show(t)})", "is_variable_length_tuple", (t,), {}, v(want)))
    c += [
        ("not_none_type_arg((int, NoneType))", "not_none_type_arg", ((int, NoneType),), {}, v(int)),
        ("not_none_type_arg((NoneType, int))", "not_none_type_arg", ((NoneType, int),), {}, v(int)),
        ("not_none_type_arg((NoneType,))", "not_none_type_arg", ((NoneType,),), {}, v(None)),
        ("not_none_type_arg((T, int), {T: NoneType})", "not_none_type_arg", ((T, int), {T: NoneType}), {}, v(int)),
        ("not_none_type_arg((T, NoneType), {T: int})", "not_none_type_arg", ((T, NoneType), {T: int}), {}, v(T)),
        ("is_optional(Union[T, int], {T: NoneType})", "is_optional", (U[T, int], {T: NoneType}), {}, v(True)),
        ("is_optional(Union[T, int], {T: str})", "is_optional", (U[T, int], {T: str}), {}, v(False)),
        ("is_optional(Union[int, str, None])", "is_optional", (U[int, str, None],), {}, v(False)),
        ("get_literal_values(Literal[1, 'a', None])", "get_literal_values", (L[1, "a", None],), {}, v((1, "a", None))),
        ("get_literal_values(Literal[Literal[1, 2], 3])", "get_literal_values", (L[L[1, 2], 3],), {}, v((1, 2, 3))),
        ("get_literal_values(Literal[Color.RED, 1])", "get_literal_values", (L[_Color.RED, 1],), {}, v((_Color.RED, 1))),
        ("is_class_var(ClassVar[int])", "is_class_var", (typing.ClassVar[int],), {}, v(True)),
        ("is_class_var(ClassVar)", "is_class_var", (typing.ClassVar,), {}, v(True)),
        ("is_class_var(int)", "is_class_var", (int,), {}, v(False)),
        ("is_class_var(Final[int])", "is_class_var", (typing.Final[int],), {}, v(False)),
        ("is_init_var(InitVar[int])", "is_init_var", (dataclasses.InitVar[int],), {}, v(True)),
        ("is_init_var(int)", "is_init_var", (int,), {}, v(False)),
        ("is_builtin_type(int)", "is_builtin_type", (int,), {}, v(True)),
        ("is_builtin_type(date)", "is_builtin_type", (D.date,), {}, v(False)),
        ("is_local_type_name('f.<locals>.C')", "is_local_type_name", ("f.<locals>.C",), {}, v(True)),
        ("is_local_type_name('m.C')", "is_local_type_name", ("m.C",), {}, v(False)),
        ("type_var_has_default(T)", "type_var_has_default", (T,), {}, v(False)),
        ("get_type_annotations(Annotated[int, 'a', 'b'])", "get_type_annotations", (A[int, "a", "b"],), {}, v(("a", "b"))),
        ("get_orig_bases(H)", "get_orig_bases", (_H,), {}, v((_G[int],))),
        ("get_orig_bases(int)", "get_orig_bases", (int,), {}, v(())),
    ]
    # ---- who defines a method / a field
    c += [
        ("get_class_that_defines_method('m', MA)", "get_class_that_defines_method", ("m", _MA), {}, v(_MA)),
        ("get_class_that_defines_method('m', MB)", "get_class_that_defines_method", ("m", _MB), {}, v(_MA)),
        ("get_class_that_defines_method('m', MC)", "get_class_that_defines_method", ("m", _MC), {}, v(_MC)),
        ("get_class_that_defines_method('nope', MC)", "get_class_that_defines_method", ("nope", _MC), {}, v(None)),
        ("get_class_that_defines_field('x', FA)", "get_class_that_defines_field", ("x", _FA), {}, v(_FA)),
        ("get_class_that_defines_field('x', FB)", "get_class_that_defines_field", ("x", _FB), {}, v(_FA)),
        ("get_class_that_defines_field('y', FB)", "get_class_that_defines_field", ("y", _FB), {}, v(_FB)),
        ("get_class_that_defines_field('x', FC)", "get_class_that_defines_field", ("x", _FC), {}, v(_FC)),
        ("get_class_that_defines_field('y', FC)", "get_class_that_defines_field", ("y", _FC), {}, v(_FB)),
        ("get_class_that_defines_field('x', FD)", "get_class_that_defines_field", ("x", _FD), {}, v(_FC)),
    ]
    # ---- type parameters
    UTs = typing.Unpack[Ts]
    c += [
        ("collect_type_params(Dict[T, List[S]])", "collect_type_params", (typing.Dict[T, typing.List[S]],), {}, v([T, S])),
        ("collect_type_params(Generic[S, T])", "collect_type_params", (typing.Generic[S, T],), {}, v([S, T])),
        ("collect_type_params(Tuple[T, T])", "collect_type_params", (typing.Tuple[T, T],), {}, v([T])),
        ("collect_type_params(Tuple[T, List[T], S])", "collect_type_params", (typing.Tuple[T, typing.List[T], S],), {}, v([T, S])),
        ("collect_type_params(Tuple[List[T], S])", "collect_type_params", (typing.Tuple[typing.List[T], S],), {}, v([T, S])),
        ("collect_type_params(Dict[S, Tuple[List[T], S]])", "collect_type_params", (typing.Dict[S, typing.Tuple[typing.List[T], S]],), {}, v([S, T])),
        ("collect_type_params(int)", "collect_type_params", (int,), {}, v([])),
        ("collect_type_params(Generic[Unpack[Ts]])", "collect_type_params", (typing.Generic[UTs],), {}, v([UTs])),
        ("resolve_type_params(G, (int,))", "resolve_type_params", (_G, (int,)), {}, v({_G: {T: int}, typing.Generic: {}, object: {}})),
        ("resolve_type_params(G)", "resolve_type_params", (_G,), {}, v({_G: {T: T}, typing.Generic: {}, object: {}})),
        ("resolve_type_params(H)", "resolve_type_params", (_H,), {}, v({_H: {}, _G: {T: int}, typing.Generic: {}, object: {}})),
        ("resolve_type_params(P, (int, str))", "resolve_type_params", (_P, (int, str)), {}, v({_P: {T: int, S: str}, typing.Generic: {}, object: {}})),
        ("resolve_type_params(Q, (str,))", "resolve_type_params", (_Q, (str,)), {}, v({_Q: {S: str}, _P: {T: str, S: int}, typing.Generic: {}, object: {}})),
        ("resolve_type_params(G, (int,), include_bases=False)", "resolve_type_params", (_G, (int,)), {"include_bases": False}, v({_G: {T: int}})),
        ("resolve_type_params(P, (int,))", "resolve_type_params", (_P, (int,)), {}, ("raises", "TypeError")),
        ("resolve_type_params(V, (int, str))", "resolve_type_params", (_V, (int, str)), {}, v({_V: {UTs: typing.Unpack[typing.Tuple[int, str]]}, typing.Generic: {}, object: {}})),
        ("resolve_type_params(V)", "resolve_type_params", (_V,), {}, v({_V: {UTs: typing.Unpack[typing.Tuple[typing.Any, ...]]}, typing.Generic: {}, object: {}})),
        ("substitute_type_params(List[T], {T: int})", "substitute_type_params", (typing.List[T], {T: int}), {}, v(typing.List[int])),
        ("substitute_type_params(list[T], {T: int})", "substitute_type_params", (list[T], {T: int}), {}, v(list[int])),
        ("substitute_type_params(T, {T: int})", "substitute_type_params", (T, {T: int}), {}, v(int)),
        ("substitute_type_params(S, {T: int})", "substitute_type_params", (S, {T: int}), {}, v(S)),
        ("substitute_type_params(int, {T: str})", "substitute_type_params", (int, {T: str}), {}, v(int)),
        ("substitute_type_params(Dict[T, S], {T: int})", "substitute_type_params", (typing.Dict[T, S], {T: int}), {}, v(typing.Dict[int, S])),
        ("substitute_type_params(Dict[S, List[T]], {T: int, S: str})", "substitute_type_params", (typing.Dict[S, typing.List[T]], {T: int, S: str}), {}, v(typing.Dict[str, typing.List[int]])),
        ("substitute_type_params(Annotated[T, 'm'], {T: int})", "substitute_type_params", (A[T, "m"], {T: int}), {}, v(A[int, "m"])),
        ("substitute_type_params(Optional[T], {T: int})", "substitute_type_params", (O[T], {T: int}), {}, v(O[int])),
        ("substitute_type_params(list[int], {T: str})", "substitute_type_params", (list[int], {T: str}), {}, v(list[int])),
    ]
    # ---- annotations of user callables
    c += [
        ("get_function_arg_annotation(fn, arg_pos=0)", "get_function_arg_annotation", (_fn,), {"arg_pos": 0}, v(int)),
        ("get_function_arg_annotation(fn, arg_name='a')", "get_function_arg_annotation", (_fn,), {"arg_name": "a"}, v(int)),
        ("get_function_arg_annotation(fn, arg_pos=2)", "get_function_arg_annotation", (_fn,), {"arg_pos": 2}, ("raises", "ValueError")),
        ("get_function_arg_annotation(fn)", "get_function_arg_annotation", (_fn,), {}, ("raises", "ValueError")),
        ("get_function_return_annotation(fn)", "get_function_return_annotation", (_fn,), {}, v(float)),
        ("get_function_return_annotation(fn_noret)", "get_function_return_annotation", (_fn_noret,), {}, ("raises", "ValueError")),
    ]
    return c


def reference_cases(repo: Repo, rep: Report, rule: str, only: Tuple[str, ...] = ()) -> None:
    te = TypeEval(repo)
    n = 0
    for label, fn, args, kwargs, want in _cases():
        if only and fn not in only:
            continue
        construct = f"{M_HELPERS}::{fn}"
        f = te.func(M_HELPERS, fn)
        got = evaluate(te, f, *args, **kwargs)
        n += 1
        if got[0] == "unsupported":
            rep.undecide(rule, f"{label}: the helper uses a construct the type-level evaluator does not model ({got[1]})")
            continue
        if got[0] == want[0] and (_same(got[1], want[1]) if got[0] == "value" else got[1] == want[1]):
            rep.ok(rule, label, {"result": _show(got[1])})
        else:
            rep.violation(rule, construct, label, f"evaluates to {_show(got)}; the documented result is {_show(want)}", actual=_show(got), reference=_show(want))
    rep.analysed["type_helper_reference_cases"] = n
    if not only:
        rep.floor(rule, 100)


# --------------------------------------------------------------------------- methods of CodeBuilder on a stub ``self``
def _fa():
    return dataclasses.field(default_factory=list)


@dataclasses.dataclass
class _DA:
    x: list = _fa()


@dataclasses.dataclass
class _DB:
    y: list = _fa()
    k: int = dataclasses.field(default=0, init=False)


class _DC(_DA, _DB):  # as the mixin's __init_subclass__ sees it: before @dataclass has processed the class
    pass


class _DC2(_DA, _DB):
    z: int = dataclasses.field(default=1)


class _DD(_DA):
    x: list  # bare re-annotation, no value of its own


@dataclasses.dataclass
class _DE(_DA):  # a finished dataclass (codec / schema route): own Field only in __dataclass_fields__
    w: int = 0


@dataclasses.dataclass
class _DX:
    x: int = 1


@dataclasses.dataclass
class _DXB(_DX):
    x: int = 2


@dataclasses.dataclass
class _DXC(_DX):
    pass


class _DXD(_DXB, _DXC):
    pass


def _builder_stub(cls):
    import types as _t
    own = dict(cls.__dict__.get("__annotations__", {}))
    return _t.SimpleNamespace(cls=cls, namespace=cls.__dict__, _CodeBuilder__get_field_types=lambda recursive=True, include_extras=False: dict(own))


def builder_method_cases(repo: Repo, rep: Report, rule: str) -> None:
    """CodeBuilder.dataclass_fields evaluated on classes with multiple inheritance, own Fields, a bare re-annotation, a
    finished dataclass and a diamond.  Reference = the rule `dataclasses` itself applies: walk the MRO from the root to
    the nearest base, every dataclass ancestor contributes *its* fields, later (nearer) ones win; then the class's own
    annotations: a Field of its own replaces, a bare re-annotation drops the inherited Field."""
    from .srcmodel import M_BUILDER

    te = TypeEval(repo)
    F = "__dataclass_fields__"
    f = te.method(M_BUILDER, "CodeBuilder", "dataclass_fields")
    construct = f"{M_BUILDER}::CodeBuilder.dataclass_fields"
    cases = [
        ("C(A, B) two dataclass bases", _DC, {"x": getattr(_DA, F)["x"], "y": getattr(_DB, F)["y"], "k": getattr(_DB, F)["k"]}),
        ("C2(A, B) + own Field", _DC2, {"x": getattr(_DA, F)["x"], "y": getattr(_DB, F)["y"], "k": getattr(_DB, F)["k"], "z": _DC2.__dict__["z"]}),
        ("D(A) bare re-annotation", _DD, {}),
        ("E(A) finished dataclass", _DE, {"x": getattr(_DA, F)["x"], "w": getattr(_DE, F)["w"]}),
        ("diamond D(B(X), C(X))", _DXD, {"x": getattr(_DXB, F)["x"]}),
        ("A itself (finished, no dataclass ancestor)", _DA, {"x": getattr(_DA, F)["x"]}),
    ]
    for label, cls, want in cases:
        got = evaluate(te, f, _builder_stub(cls))
        inst = f"dataclass_fields of {label}"
        if got[0] == "unsupported":
            rep.undecide(rule, f"{inst}: {got[1]}")
        elif got[0] == "value" and isinstance(got[1], dict) and set(got[1]) == set(want) and all(got[1][k] is want[k] for k in want):
            rep.ok(rule, inst, {"fields": sorted(want)})
        else:
            shown = {k: ("Field of " + next((c.__name__ for c in cls.__mro__ if getattr(c, F, {}).get(k) is v or c.__dict__.get(k) is v), "?")) for k, v in got[1].items()} if got[0] == "value" and isinstance(got[1], dict) else got
            rep.violation(rule, construct, inst, f"evaluates to {_show(shown)}; dataclasses' own rule gives the fields {sorted(want)} with the Field object of the nearest declaring ancestor", actual=_show(shown), reference=str(sorted(want)))
    rep.floor(rule, 5)


# --------------------------------------------------------------------------- CodeBuilder.get_real_type on a stub builder
@dataclasses.dataclass
class _RG(typing.Generic[T]):
    x: typing.List[T]
    y: int = 0


@dataclasses.dataclass
class _RH(_RG[int]):
    w: str = ""


@dataclasses.dataclass
class _RP(typing.Generic[T, S]):
    a: T
    b: S


@dataclasses.dataclass
class _RQ(_RP[S, int], typing.Generic[S]):
    c: S


def real_type_cases(repo: Repo, rep: Report, rule: str) -> None:
    """CodeBuilder.get_real_type(name, type) -- the type every registry dispatches on -- substitutes the type parameters
    *of the class that defines the field* (resolved through the bases), not those of the class being compiled: in
    ``class Q(P[S, int], Generic[S])`` the inherited field ``b: S`` (P's S) is ``int`` while Q's own ``c: S`` is the argument of Q."""
    import types as _t
    from .srcmodel import M_BUILDER

    te = TypeEval(repo)
    resolve = te.func(M_HELPERS, "resolve_type_params")
    grt = te.method(M_BUILDER, "CodeBuilder", "get_real_type")
    gfc = te.method(M_BUILDER, "CodeBuilder", "_get_field_class")
    construct = f"{M_BUILDER}::CodeBuilder.get_real_type"
    D = datetime
    cases = [
        ("G[date].x: List[T]", _RG, (D.date,), "x", typing.List[T], typing.List[D.date]),
        ("G[date].y: int", _RG, (D.date,), "y", int, int),
        ("G (bare).x: List[T]", _RG, (), "x", typing.List[T], typing.List[T]),
        ("H(G[int]).x: List[T] (inherited)", _RH, (), "x", typing.List[T], typing.List[int]),
        ("H(G[int]).w: str (own)", _RH, (), "w", str, str),
        ("Q[str].a: T (P's T = Q's S)", _RQ, (str,), "a", T, str),
        ("Q[str].b: S (P's S = int)", _RQ, (str,), "b", S, int),
        ("Q[str].c: S (Q's own S)", _RQ, (str,), "c", S, str),
        ("Q[str].c: Dict[S, List[S]]", _RQ, (str,), "c", typing.Dict[S, typing.List[S]], typing.Dict[str, typing.List[str]]),
    ]
    for label, cls, targs, fname, ftype, want in cases:
        r = evaluate(te, resolve, cls, targs)
        if r[0] != "value":
            rep.undecide(rule, f"{label}: resolve_type_params -> {r}")
            continue
        stub = _t.SimpleNamespace(cls=cls, field_classes={}, resolved_type_params=r[1])
        stub._get_field_class = lambda name, _s=stub: gfc(_s, name)
        got = evaluate(te, grt, stub, fname, ftype)
        inst = f"get_real_type of {label}"
        if got[0] == "unsupported":
            rep.undecide(rule, f"{inst}: {got[1]}")
        elif got[0] == "value" and _same(got[1], want):
            rep.ok(rule, inst, {"result": _show(got[1])})
        else:
            rep.violation(rule, construct, inst, f"evaluates to {_show(got)}; the field's type in this specialisation is {_show(want)}", actual=_show(got), reference=_show(want))
    rep.floor(rule, 8)
