"""Sibling rules: re-instantiations of the code builder must carry the builder's identity."""

from __future__ import annotations

import ast
from typing import Dict, List, Tuple

from .srcmodel import M_PACK, M_UNPACK, Repo, walk_no_nested

IDENTITY_KW = {"format_name": "spec.builder.format_name", "default_dialect": "spec.builder.default_dialect", "attrs": "method_loc"}


def nested_builder_constructions(repo: Repo) -> List[Tuple[str, str, Dict[str, str], int]]:
    """(function key, loc, keyword map, #positional) of every `spec.builder.__class__(...)` in pack.py / unpack.py."""
    out = []
    for mod in (M_PACK, M_UNPACK):
        for fi in repo.module_funcs(mod):
            for n in walk_no_nested(fi.node):
                if isinstance(n, ast.Call) and ast.unparse(n.func) == "spec.builder.__class__":
                    kws = {k.arg: ast.unparse(k.value) for k in n.keywords if k.arg}
                    out.append((fi.key, f"{fi.loc.rsplit(':', 1)[0]}:{n.lineno}", kws, len(n.args)))
    return out


def check_nested_builders(repo: Repo, rep, rule: str) -> None:
    cons = nested_builder_constructions(repo)
    if len(cons) < 4:
        rep.error(f"{rule}: only {len(cons)} nested builder constructions found (expected 4)")
    for key, loc, kws, npos in cons:
        problems = []
        for k, want in IDENTITY_KW.items():
            if k not in kws:
                problems.append(f"{k} is not passed")
            elif " ".join(kws[k].split()) != want:
                problems.append(f"{k}={kws[k]} (expected {want})")
        if "attrs_registry" not in kws or "spec.attrs_registry" not in kws["attrs_registry"]:
            problems.append("attrs_registry is not handed down")
        extra = sorted(set(kws) - set(IDENTITY_KW) - {"attrs_registry"})
        if extra:
            problems.append(f"additionally passes {extra}: everything but format / default dialect / holder must start from the nested class's own defaults "
                            "(a nested class decides about its own dialect, postponed evaluation and first method)")
        inst = f"{key.split('::')[-1]}: nested builder({', '.join(sorted(kws))})"
        if problems:
            rep.violation(rule, key, inst, "the builder created for a nested (or Self-typed) dataclass does not carry the identity of the "
                          "current builder: " + "; ".join(problems) + " -- the nested method is compiled for another format / without the format dialect", loc=loc)
        else:
            rep.ok(rule, inst, {"site": key, "keywords": kws})
    # all sites agree
    sigs = {tuple(sorted((k, " ".join(v.split())) for k, v in kws.items() if k in IDENTITY_KW or k == "attrs_registry")) for _, _, kws, _ in cons}
    if len(sigs) > 1:
        rep.violation(rule, f"{M_PACK}::pack_dataclass", "nested builder constructions disagree", f"the four sibling constructions pass different identity arguments: {sorted(sigs)}")


def check_own_method_tests(repo: Repo, rep, rule: str) -> None:
    """Every python-level decision "does this class already have its compiled method?" that guards a nested
    `builder.add_pack_method()` / `add_unpack_method()` asks for the class's *own* definition
    (`get_class_that_defines_method(name, loc) != loc`).  `hasattr` / `getattr(..., None)` also accept a method
    inherited from a parent class: a subclass then runs its parent's compiled code (its own fields and hooks are
    ignored) -- for the format-specific methods, which are compiled on demand, no test of the suite notices."""
    import ast as _ast

    from .srcmodel import M_PACK, M_UNPACK

    n = 0
    for mod in (M_PACK, M_UNPACK):
        for key, fi in sorted(repo.funcs.items()):
            if fi.module != mod:
                continue

            def visit(node, guards):
                nonlocal n
                for ch in _ast.iter_child_nodes(node):
                    if isinstance(ch, (_ast.FunctionDef, _ast.Lambda, _ast.ClassDef)) and ch is not fi.node:
                        continue
                    if isinstance(ch, _ast.If):
                        for b in ch.body:
                            visit_stmt(b, guards + [ch.test])
                        for b in ch.orelse:
                            visit_stmt(b, guards)
                    else:
                        visit_stmt(ch, guards)

            def visit_stmt(st, guards):
                nonlocal n
                if isinstance(st, _ast.Expr) and isinstance(st.value, _ast.Call) and isinstance(st.value.func, _ast.Attribute) \
                        and st.value.func.attr in ("add_pack_method", "add_unpack_method"):
                    n += 1
                    tests = [_ast.unparse(g) for g in guards]
                    own = [t for t in tests if "get_class_that_defines_method(" in t]
                    weak = [t for t in tests if ("hasattr(" in t or "getattr(" in t) and "get_class_that_defines_method(" not in t and "method_name" in t]
                    if weak or not own:
                        rep.violation(rule, fi.key, f"{fi.qualname}: nested compilation guarded by `{(weak or tests or ['<nothing>'])[0][:80]}`",
                                      "the guard accepts a compiled method inherited from a parent class, so a subclass is (de)serialized by its parent's code: fields and hooks the "
                                      "subclass adds are ignored on the on-demand (format-specific, Self, nested) paths", loc=f"{fi.loc.split(':')[0]}:{st.lineno}")
                    else:
                        rep.ok(rule, f"{fi.qualname}: nested compilation guarded by the class's own definition test", None)
                    return
                if isinstance(st, _ast.If):
                    for b in st.body:
                        visit_stmt(b, guards + [st.test])
                    for b in st.orelse:
                        visit_stmt(b, guards)
                    return
                visit(st, guards)

            visit(fi.node, [])
    if n < 4:
        rep.error(f"{rule}: only {n} nested compilation sites found")


def check_guard_mirror(repo: Repo, rep, rule: str) -> None:
    """The guards of the nested compilations on the serialization side and on the deserialization side are mirror images
    (pack<->unpack, encoder<->decoder): `class lacks its own method AND (another class OR the requested method is not the one
    being compiled)`.  A side that loses a conjunct / disjunct compiles too little (a self-referencing class under a format
    mixin never gets its to_dict_<format> method) or too much; the other side is the reference."""
    import ast as _ast
    import re as _re

    from .srcmodel import M_PACK, M_UNPACK

    def guards(mod):
        out = []
        for key, fi in sorted(repo.funcs.items(), key=lambda kv: kv[1].node.lineno):
            if fi.module != mod:
                continue
            stack = []

            def walk(stmts, gs):
                for st in stmts:
                    if isinstance(st, _ast.If):
                        walk(st.body, gs + [st.test])
                        walk(st.orelse, gs)
                    elif isinstance(st, (_ast.For, _ast.While, _ast.With, _ast.Try)):
                        walk(getattr(st, "body", []), gs)
                    elif isinstance(st, _ast.Expr) and isinstance(st.value, _ast.Call) and isinstance(st.value.func, _ast.Attribute) \
                            and st.value.func.attr in ("add_pack_method", "add_unpack_method"):
                        own = [g for g in gs if "get_class_that_defines_method(" in _ast.unparse(g)]
                        out.append((fi, st.lineno, _ast.unparse(own[-1]) if own else "<no own-definition guard>"))

            walk(fi.node.body, [])
        return out

    def mirror(t: str) -> str:
        for a, b in (("get_unpack_method_name", "get_pack_method_name"), ("decoder", "encoder"), ("unpack", "pack")):
            t = t.replace(a, b)
        return " ".join(t.split())

    gp, gu = guards(M_PACK), guards(M_UNPACK)
    if len(gp) != len(gu) or len(gp) < 2:
        rep.undecide(rule, f"{len(gp)} nested compilations on the pack side, {len(gu)} on the unpack side")
        return
    for (fp, lp, tp), (fu, lu, tu) in zip(gp, gu):
        if mirror(tp) == mirror(tu):
            rep.ok(rule, f"{fp.qualname} / {fu.qualname}: nested-compilation guards are mirror images", None)
        else:
            shorter = fp if len(tp) < len(tu) else fu
            rep.violation(rule, shorter.key, f"{fp.qualname} and {fu.qualname} guard their nested compilation differently",
                          f"pack side: `{mirror(tp)[:200]}`; unpack side (mirrored): `{mirror(tu)[:200]}` -- the two halves must compile the same set of nested methods "
                          "(e.g. the format-specific method of a self-referencing class)", loc=f"{shorter.loc.split(':')[0]}:{lp if shorter is fp else lu}")


UNPACK_ONLY = ("For spec.annotations", "if isinstance(annotation, Discriminator)")  # the unpack side additionally looks for a Discriminator annotation


def check_special_primitive_mirror(repo: Repo, rep, rule: str) -> None:
    """pack_special_typing_primitive and unpack_special_typing_primitive decide the same cases (Union, Any-like TypeVar,
    constrained / bound / defaulted TypeVar, NewType, Literal, Self, Required / NotRequired, Unpack, TypeVarTuple,
    ForwardRef, type alias, ReadOnly) in the same order with the same tests; only the unpack side additionally scans the
    annotations for a Discriminator.  A branch added, removed, re-ordered or turned into a loop on one side only makes the
    two directions treat a type differently (a registration honoured by one direction and skipped by the other, a
    defaulted TypeVar decoded as its default but encoded as the union of its constraints)."""
    import ast as _ast
    import difflib

    from .srcmodel import M_PACK, M_UNPACK

    def skel(fn):
        out = []

        def walk(stmts, d):
            for st in stmts:
                if isinstance(st, _ast.If):
                    out.append("  " * d + "if " + _ast.unparse(st.test))
                    walk(st.body, d + 1)
                    if st.orelse:
                        out.append("  " * d + "else")
                        walk(st.orelse, d + 1)
                elif isinstance(st, (_ast.For, _ast.While)):
                    out.append("  " * d + type(st).__name__ + " " + _ast.unparse(st.iter if isinstance(st, _ast.For) else st.test))
                    walk(st.body, d + 1)
                elif isinstance(st, (_ast.With, _ast.Try)):
                    walk(st.body, d)

        walk(fn.body, 0)
        return out

    def mirror(t: str) -> str:
        for a, b in (("get_unpack_method_name", "get_pack_method_name"), ("get_unpack_method_flags", "get_pack_method_flags"), ("decoder", "encoder"),
                     ("UnpackerRegistry", "PackerRegistry"), ("add_unpack_method", "add_pack_method")):
            t = t.replace(a, b)
        return t

    fp, fu = repo.func(M_PACK, "pack_special_typing_primitive"), repo.func(M_UNPACK, "unpack_special_typing_primitive")
    a = [mirror(x) for x in skel(fp.node)]
    b = [mirror(x) for x in skel(fu.node) if x.strip() not in UNPACK_ONLY]
    if len(a) < 25:
        rep.undecide(rule, f"decision skeleton of pack_special_typing_primitive has only {len(a)} tests")
        return
    diff = [l for l in difflib.unified_diff(a, b, lineterm="", n=0) if not l.startswith(("---", "+++", "@@"))]
    if not diff:
        rep.ok(rule, f"pack_special_typing_primitive and unpack_special_typing_primitive share one decision skeleton ({len(a)} tests)", None)
    else:
        only_p = [l[1:].strip() for l in diff if l.startswith("-")]
        only_u = [l[1:].strip() for l in diff if l.startswith("+")]
        rep.violation(rule, fp.key if len(only_p) >= len(only_u) else fu.key, "the two special-typing-primitive handlers decide differently",
                      f"only on the serialization side: {only_p[:4]}; only on the deserialization side: {only_u[:4]}", loc=fp.loc)
